// shred-facts: a rustc_private driver that dumps the type-checked program
// (MIR bodies with resolved callees, items, auto-trait obligations of unsafe
// impls, named constants) of the crate being compiled as one JSON file.
//
// It is injected with RUSTC_WORKSPACE_WRAPPER under `cargo +nightly check`;
// the first argument (path of the real rustc) is dropped.  Nothing of the
// analysed crate is executed: the driver only reads compiler queries.
#![feature(rustc_private)]
#![allow(clippy::all)]

extern crate rustc_abi;
extern crate rustc_data_structures;
extern crate rustc_driver;
extern crate rustc_hir;
extern crate rustc_infer;
extern crate rustc_interface;
extern crate rustc_middle;
extern crate rustc_session;
extern crate rustc_span;
extern crate rustc_trait_selection;

use std::fmt::Write as _;

use rustc_driver::Compilation;
use rustc_hir::def::DefKind;
use rustc_hir::def_id::{DefId, LocalDefId, LOCAL_CRATE};
use rustc_infer::infer::TyCtxtInferExt;
use rustc_middle::mir::{
    self, AggregateKind, BasicBlock, Body, Operand, Place, PlaceElem, Rvalue, StatementKind,
    TerminatorKind, UnwindAction,
};
use rustc_middle::ty::print::{with_crate_prefix, with_no_trimmed_paths, with_no_visible_paths};
use rustc_middle::ty::{self, GenericArgsRef, Instance, Ty, TyCtxt, TypingEnv};
use rustc_span::Span;
use rustc_trait_selection::infer::InferCtxtExt;

// ---------------------------------------------------------------- JSON

enum J {
    Null,
    Bool(bool),
    Num(i128),
    Str(String),
    Arr(Vec<J>),
    Obj(Vec<(&'static str, J)>),
}

fn s<T: Into<String>>(x: T) -> J {
    J::Str(x.into())
}
fn n<T: TryInto<i128>>(x: T) -> J {
    J::Num(x.try_into().ok().unwrap_or(-1))
}
fn opt<T>(x: Option<T>, f: impl FnOnce(T) -> J) -> J {
    match x {
        Some(v) => f(v),
        None => J::Null,
    }
}

impl J {
    fn write(&self, out: &mut String) {
        match self {
            J::Null => out.push_str("null"),
            J::Bool(b) => out.push_str(if *b { "true" } else { "false" }),
            J::Num(v) => {
                let _ = write!(out, "{}", v);
            }
            J::Str(v) => {
                out.push('"');
                for c in v.chars() {
                    match c {
                        '"' => out.push_str("\\\""),
                        '\\' => out.push_str("\\\\"),
                        '\n' => out.push_str("\\n"),
                        '\r' => out.push_str("\\r"),
                        '\t' => out.push_str("\\t"),
                        c if (c as u32) < 0x20 => {
                            let _ = write!(out, "\\u{:04x}", c as u32);
                        }
                        c => out.push(c),
                    }
                }
                out.push('"');
            }
            J::Arr(v) => {
                out.push('[');
                for (i, x) in v.iter().enumerate() {
                    if i > 0 {
                        out.push(',');
                    }
                    x.write(out);
                }
                out.push(']');
            }
            J::Obj(v) => {
                out.push('{');
                for (i, (k, x)) in v.iter().enumerate() {
                    if i > 0 {
                        out.push(',');
                    }
                    out.push('"');
                    out.push_str(k);
                    out.push_str("\":");
                    x.write(out);
                }
                out.push('}');
            }
        }
    }
}

// ---------------------------------------------------------------- naming

struct Cx<'tcx> {
    tcx: TyCtxt<'tcx>,
    krate: String,
}

/// Replace the `crate::` keyword prefix (not preceded by an identifier
/// character) by `<crate name>::` so that local and foreign paths look alike.
fn fix_crate(text: &str, krate: &str) -> String {
    let pat = "crate::";
    let mut out = String::with_capacity(text.len() + 16);
    let bytes = text.as_bytes();
    let mut i = 0;
    while i < text.len() {
        if text[i..].starts_with(pat) {
            let prev_ident = i > 0 && {
                let p = bytes[i - 1];
                p.is_ascii_alphanumeric() || p == b'_'
            };
            if !prev_ident {
                out.push_str(krate);
                out.push_str("::");
                i += pat.len();
                continue;
            }
        }
        let ch = text[i..].chars().next().unwrap();
        out.push(ch);
        i += ch.len_utf8();
    }
    out
}

impl<'tcx> Cx<'tcx> {
    fn p<T: std::fmt::Display>(&self, x: T) -> String {
        let t = with_crate_prefix!(with_no_trimmed_paths!(format!("{}", x)));
        fix_crate(&t, &self.krate)
    }
    fn dbg<T: std::fmt::Debug>(&self, x: T) -> String {
        let t = with_crate_prefix!(with_no_trimmed_paths!(format!("{:?}", x)));
        fix_crate(&t, &self.krate)
    }
    fn ty(&self, t: Ty<'tcx>) -> String {
        self.p(t)
    }
    /// Path of a definition without generic arguments.
    fn path(&self, d: DefId) -> String {
        // Items of std are named by their visible path (std::vec::Vec); everything else by its
        // definition path, so that `shred::system::SystemData` has one name whether it is seen
        // from inside shred or through the re-export `shred::SystemData`.
        let cname = self.tcx.crate_name(d.krate);
        let std_like = matches!(cname.as_str(), "std" | "core" | "alloc");
        let t = if std_like || d.is_local() {
            with_crate_prefix!(with_no_trimmed_paths!(self.tcx.def_path_str(d)))
        } else {
            with_no_visible_paths!(with_no_trimmed_paths!(self.tcx.def_path_str(d)))
        };
        fix_crate(&t, &self.krate)
    }
    /// Stable unique key of a definition: crate name + verbose def path.
    fn key(&self, d: DefId) -> String {
        format!(
            "{}{}",
            self.tcx.crate_name(d.krate),
            self.tcx.def_path(d).to_string_no_crate_verbose()
        )
    }
    fn span(&self, sp: Span) -> J {
        let sm = self.tcx.sess.source_map();
        let sp2 = if sp.from_expansion() { sp.source_callsite() } else { sp };
        let lo = sm.lookup_char_pos(sp2.lo());
        let file = match &lo.file.name {
            rustc_span::FileName::Real(r) => match r.local_path() {
                Some(p) => p.to_string_lossy().to_string(),
                None => format!("{:?}", lo.file.name),
            },
            other => format!("{:?}", other),
        };
        J::Obj(vec![
            ("file", s(file)),
            ("line", n(lo.line)),
            ("col", n(lo.col.0 + 1)),
            ("exp", J::Bool(sp.from_expansion())),
            ("expn", if sp.from_expansion() { s(self.expn(sp)) } else { J::Null }),
        ])
    }
    fn expn(&self, sp: Span) -> String {
        let d = sp.ctxt().outer_expn_data();
        format!("{:?}", d.kind)
    }

    /// Head type constructor of a type (ADT path, "closure", "&", ...), looking
    /// through references, raw pointers and Box-like wrappers is NOT done here.
    fn ty_head(&self, t: Ty<'tcx>) -> J {
        match t.kind() {
            ty::Adt(adt, _) => s(self.path(adt.did())),
            ty::Closure(d, _) => s(format!("closure:{}", self.key(*d))),
            ty::FnDef(d, _) => s(format!("fndef:{}", self.key(*d))),
            ty::Ref(_, inner, m) => J::Obj(vec![
                ("ref", s(if m.is_mut() { "mut" } else { "shared" })),
                ("to", self.ty_head(*inner)),
            ]),
            ty::RawPtr(inner, m) => J::Obj(vec![
                ("ptr", s(if m.is_mut() { "mut" } else { "const" })),
                ("to", self.ty_head(*inner)),
            ]),
            ty::Param(p) => s(format!("param:{}", p.name)),
            ty::Dynamic(..) => s(format!("dyn:{}", self.ty(t))),
            ty::Tuple(l) => s(format!("tuple:{}", l.len())),
            ty::Slice(_) => s("slice"),
            ty::Array(..) => s("array"),
            ty::Alias(..) => s(format!("alias:{}", self.ty(t))),
            ty::Bool | ty::Char | ty::Int(_) | ty::Uint(_) | ty::Float(_) | ty::Str => {
                s(self.ty(t))
            }
            ty::FnPtr(..) => s("fnptr"),
            ty::Never => s("!"),
            _ => s(format!("other:{}", self.ty(t))),
        }
    }

    fn generic_args(&self, args: GenericArgsRef<'tcx>) -> J {
        J::Arr(
            args.iter()
                .map(|a| match a.kind() {
                    ty::GenericArgKind::Type(t) => J::Obj(vec![
                        ("k", s("ty")),
                        ("s", s(self.ty(t))),
                        ("head", self.ty_head(t)),
                    ]),
                    ty::GenericArgKind::Lifetime(_) => J::Obj(vec![("k", s("lt"))]),
                    ty::GenericArgKind::Const(c) => {
                        J::Obj(vec![("k", s("const")), ("s", s(self.p(c)))])
                    }
                })
                .collect(),
        )
    }

    /// Describe a definition that can be called: where it lives (trait, impl),
    /// its name, the impl's trait and self type.
    fn def_info(&self, d: DefId) -> Vec<(&'static str, J)> {
        let tcx = self.tcx;
        let mut v: Vec<(&'static str, J)> = vec![
            ("key", s(self.key(d))),
            ("path", s(self.path(d))),
            ("name", opt(tcx.opt_item_name(d), |x| s(x.to_string()))),
            ("local", J::Bool(d.is_local())),
            ("crate", s(tcx.crate_name(d.krate).to_string())),
            ("kind", s(format!("{:?}", tcx.def_kind(d)))),
        ];
        if let Some(assoc) = tcx.opt_associated_item(d) {
            match assoc.container {
                ty::AssocContainer::Trait => {
                    let tr = tcx.trait_of_assoc(d).unwrap();
                    v.push(("container", s("trait")));
                    v.push(("trait", s(self.path(tr))));
                    v.push((
                        "has_default",
                        J::Bool(assoc.defaultness(tcx).has_value()),
                    ));
                }
                ty::AssocContainer::InherentImpl => {
                    let im = tcx.impl_of_assoc(d).unwrap();
                    v.push(("container", s("inherent")));
                    let st = tcx.type_of(im).instantiate_identity().skip_normalization();
                    v.push(("self_ty", s(self.ty(st))));
                    v.push(("self_head", self.ty_head(st)));
                    v.push(("impl", s(self.key(im))));
                }
                ty::AssocContainer::TraitImpl(_) => {
                    let im = tcx.impl_of_assoc(d).unwrap();
                    v.push(("container", s("trait_impl")));
                    let st = tcx.type_of(im).instantiate_identity().skip_normalization();
                    v.push(("self_ty", s(self.ty(st))));
                    v.push(("self_head", self.ty_head(st)));
                    v.push(("impl", s(self.key(im))));
                    if let Some(tr) = tcx.impl_opt_trait_ref(im) {
                        let tr = tr.instantiate_identity().skip_normalization();
                        v.push(("trait", s(self.path(tr.def_id))));
                        v.push(("trait_ref", s(self.p(tr))));
                    }
                }
            }
        } else {
            v.push(("container", s("none")));
        }
        v
    }
}

// ---------------------------------------------------------------- MIR

struct BodyCx<'a, 'tcx> {
    cx: &'a Cx<'tcx>,
    body: &'a Body<'tcx>,
    def: LocalDefId,
    env: TypingEnv<'tcx>,
}

impl<'a, 'tcx> BodyCx<'a, 'tcx> {
    fn place(&self, p: &Place<'tcx>) -> J {
        let tcx = self.cx.tcx;
        let mut projs = Vec::new();
        let mut pty = mir::PlaceTy::from_ty(self.body.local_decls[p.local].ty);
        for elem in p.projection.iter() {
            let j = match elem {
                PlaceElem::Deref => J::Obj(vec![("k", s("deref"))]),
                PlaceElem::Field(f, fty) => {
                    let mut o = vec![("k", s("field")), ("i", n(f.as_usize()))];
                    match pty.ty.kind() {
                        ty::Adt(adt, _) => {
                            let vidx = pty.variant_index.unwrap_or(rustc_abi::FIRST_VARIANT);
                            let var = adt.variant(vidx);
                            if let Some(fd) = var.fields.get(f) {
                                o.push(("name", s(fd.name.to_string())));
                            }
                            o.push(("adt", s(self.cx.path(adt.did()))));
                            if adt.is_enum() {
                                o.push(("variant", s(var.name.to_string())));
                            }
                        }
                        ty::Closure(cd, _) => {
                            o.push(("closure", s(self.cx.key(*cd))));
                            let caps = tcx.closure_captures(cd.expect_local());
                            if let Some(c) = caps.get(f.as_usize()) {
                                o.push(("name", s(c.to_symbol().to_string())));
                            }
                        }
                        ty::Tuple(_) => {
                            o.push(("tuple", J::Bool(true)));
                        }
                        _ => {}
                    }
                    o.push(("ty", s(self.cx.ty(fty))));
                    J::Obj(o)
                }
                PlaceElem::Index(l) => J::Obj(vec![("k", s("index")), ("l", n(l.as_usize()))]),
                PlaceElem::ConstantIndex { offset, from_end, .. } => J::Obj(vec![
                    ("k", s("cindex")),
                    ("off", n(offset)),
                    ("from_end", J::Bool(from_end)),
                ]),
                PlaceElem::Subslice { .. } => J::Obj(vec![("k", s("subslice"))]),
                PlaceElem::Downcast(name, vidx) => J::Obj(vec![
                    ("k", s("downcast")),
                    ("variant", opt(name, |x| s(x.to_string()))),
                    ("vi", n(vidx.as_usize())),
                ]),
                PlaceElem::OpaqueCast(_) => J::Obj(vec![("k", s("opaque"))]),
                PlaceElem::UnwrapUnsafeBinder(_) => J::Obj(vec![("k", s("unwrap_binder"))]),
            };
            projs.push(j);
            pty = pty.projection_ty(tcx, elem);
        }
        J::Obj(vec![("l", n(p.local.as_usize())), ("p", J::Arr(projs)), ("ty", s(self.cx.ty(pty.ty)))])
    }

    fn fn_ref(&self, d: DefId, args: GenericArgsRef<'tcx>) -> J {
        let tcx = self.cx.tcx;
        let mut v = self.cx.def_info(d);
        v.push(("args", self.cx.generic_args(args)));
        v.push((
            "inst_path",
            s(fix_crate(
                &with_crate_prefix!(with_no_trimmed_paths!(tcx.def_path_str_with_args(d, args))),
                &self.cx.krate,
            )),
        ));
        // Try to resolve trait-method calls to a concrete implementation.
        let resolved = match Instance::try_resolve(tcx, self.env, d, args) {
            Ok(Some(inst)) => {
                let kind = match inst.def {
                    ty::InstanceKind::Item(_) => "item",
                    ty::InstanceKind::Virtual(..) => "virtual",
                    ty::InstanceKind::Intrinsic(_) => "intrinsic",
                    ty::InstanceKind::ClosureOnceShim { .. } => "closure_once_shim",
                    ty::InstanceKind::FnPtrShim(..) => "fn_ptr_shim",
                    ty::InstanceKind::DropGlue(..) => "drop_glue",
                    ty::InstanceKind::CloneShim(..) => "clone_shim",
                    ty::InstanceKind::ReifyShim(..) => "reify_shim",
                    _ => "other_shim",
                };
                let rd = inst.def_id();
                let mut r = self.cx.def_info(rd);
                r.push(("inst_kind", s(kind)));
                r.push(("args", self.cx.generic_args(inst.args)));
                J::Obj(r)
            }
            Ok(None) => J::Null,
            Err(_) => J::Null,
        };
        v.push(("resolved", resolved));
        J::Obj(v)
    }

    fn constant(&self, c: &mir::ConstOperand<'tcx>) -> J {
        let tcx = self.cx.tcx;
        let ty = c.const_.ty();
        let mut o = vec![("k", s("const")), ("ty", s(self.cx.ty(ty)))];
        match ty.kind() {
            ty::FnDef(d, args) => {
                o.push(("fn", self.fn_ref(*d, args)));
            }
            ty::Closure(d, _) => {
                o.push(("closure", s(self.cx.key(*d))));
            }
            _ => {
                // scalar value if cheaply evaluable
                if let Some(sc) = c.const_.try_eval_scalar_int(tcx, self.env) {
                    let size = sc.size();
                    let bits = sc.to_bits(size);
                    let v: i128 = if ty.is_signed() {
                        sc.to_int(size)
                    } else if bits <= i128::MAX as u128 {
                        bits as i128
                    } else {
                        -1
                    };
                    o.push(("int", J::Num(v)));
                }
                o.push(("val", s(self.cx.p(&c.const_))));
                // named constant / static it refers to
                if let mir::Const::Unevaluated(u, _) = c.const_ {
                    o.push(("def", s(self.cx.path(u.def))));
                    if let Some(pr) = u.promoted {
                        o.push(("promoted", n(pr.as_usize())));
                    }
                }
            }
        }
        o.push(("span", self.cx.span(c.span)));
        J::Obj(o)
    }

    fn operand(&self, o: &Operand<'tcx>) -> J {
        match o {
            Operand::Copy(p) => J::Obj(vec![("k", s("copy")), ("place", self.place(p))]),
            Operand::Move(p) => J::Obj(vec![("k", s("move")), ("place", self.place(p))]),
            Operand::Constant(c) => self.constant(c),
            Operand::RuntimeChecks(rc) => {
                J::Obj(vec![("k", s("runtime_check")), ("what", s(format!("{:?}", rc)))])
            }
        }
    }

    fn rvalue(&self, rv: &Rvalue<'tcx>) -> J {
        let tcx = self.cx.tcx;
        match rv {
            Rvalue::Use(op, _) => J::Obj(vec![("k", s("use")), ("op", self.operand(op))]),
            Rvalue::Repeat(op, _) => J::Obj(vec![("k", s("repeat")), ("op", self.operand(op))]),
            Rvalue::Ref(_, bk, p) => J::Obj(vec![
                ("k", s("ref")),
                (
                    "bk",
                    s(match bk {
                        mir::BorrowKind::Shared => "shared",
                        mir::BorrowKind::Fake(_) => "fake",
                        mir::BorrowKind::Mut { .. } => "mut",
                    }),
                ),
                ("place", self.place(p)),
            ]),
            Rvalue::ThreadLocalRef(d) => {
                J::Obj(vec![("k", s("thread_local_ref")), ("def", s(self.cx.path(*d)))])
            }
            Rvalue::RawPtr(k, p) => J::Obj(vec![
                ("k", s("rawptr")),
                ("bk", s(format!("{:?}", k))),
                ("place", self.place(p)),
            ]),
            Rvalue::Cast(kind, op, ty) => J::Obj(vec![
                ("k", s("cast")),
                ("kind", s(format!("{:?}", kind))),
                ("op", self.operand(op)),
                ("ty", s(self.cx.ty(*ty))),
            ]),
            Rvalue::BinaryOp(op, ab) => J::Obj(vec![
                ("k", s("binop")),
                ("op", s(format!("{:?}", op))),
                ("a", self.operand(&ab.0)),
                ("b", self.operand(&ab.1)),
            ]),
            Rvalue::UnaryOp(op, a) => J::Obj(vec![
                ("k", s("unop")),
                ("op", s(format!("{:?}", op))),
                ("a", self.operand(a)),
            ]),
            Rvalue::Discriminant(p) => {
                J::Obj(vec![("k", s("discr")), ("place", self.place(p))])
            }
            Rvalue::Aggregate(kind, ops) => {
                let mut o = vec![("k", s("agg"))];
                match &**kind {
                    AggregateKind::Array(_) => o.push(("agg", s("array"))),
                    AggregateKind::Tuple => o.push(("agg", s("tuple"))),
                    AggregateKind::Adt(d, vidx, args, _, active) => {
                        o.push(("agg", s("adt")));
                        let adt = tcx.adt_def(*d);
                        o.push(("adt", s(self.cx.path(*d))));
                        let var = adt.variant(*vidx);
                        o.push(("variant", s(var.name.to_string())));
                        o.push(("vi", n(vidx.as_usize())));
                        o.push((
                            "fields",
                            J::Arr(var.fields.iter().map(|f| s(f.name.to_string())).collect()),
                        ));
                        o.push(("args", self.cx.generic_args(args)));
                        if let Some(a) = active {
                            o.push(("active_field", n(a.as_usize())));
                        }
                    }
                    AggregateKind::Closure(d, _) => {
                        o.push(("agg", s("closure")));
                        o.push(("closure", s(self.cx.key(*d))));
                        let caps = tcx.closure_captures(d.expect_local());
                        o.push((
                            "fields",
                            J::Arr(caps.iter().map(|c| s(c.to_symbol().to_string())).collect()),
                        ));
                    }
                    AggregateKind::Coroutine(d, _) | AggregateKind::CoroutineClosure(d, _) => {
                        o.push(("agg", s("coroutine")));
                        o.push(("closure", s(self.cx.key(*d))));
                    }
                    AggregateKind::RawPtr(..) => o.push(("agg", s("rawptr"))),
                }
                o.push(("ops", J::Arr(ops.iter().map(|x| self.operand(x)).collect())));
                J::Obj(o)
            }
            Rvalue::CopyForDeref(p) => {
                J::Obj(vec![("k", s("copy_for_deref")), ("place", self.place(p))])
            }
            Rvalue::WrapUnsafeBinder(op, _) => {
                J::Obj(vec![("k", s("wrap_binder")), ("op", self.operand(op))])
            }
        }
    }

    fn unwind(&self, u: &UnwindAction) -> J {
        match u {
            UnwindAction::Continue => s("continue"),
            UnwindAction::Unreachable => s("unreachable"),
            UnwindAction::Terminate(_) => s("terminate"),
            UnwindAction::Cleanup(bb) => n(bb.as_usize()),
        }
    }

    fn bb(&self, b: BasicBlock) -> J {
        n(b.as_usize())
    }

    fn terminator(&self, t: &mir::Terminator<'tcx>) -> J {
        let span = self.cx.span(t.source_info.span);
        let mut o: Vec<(&'static str, J)> = match &t.kind {
            TerminatorKind::Goto { target } => vec![("k", s("goto")), ("target", self.bb(*target))],
            TerminatorKind::SwitchInt { discr, targets } => {
                let mut arms = Vec::new();
                for (v, bb) in targets.iter() {
                    arms.push(J::Arr(vec![n(v), self.bb(bb)]));
                }
                vec![
                    ("k", s("switch")),
                    ("discr", self.operand(discr)),
                    ("arms", J::Arr(arms)),
                    ("otherwise", self.bb(targets.otherwise())),
                ]
            }
            TerminatorKind::UnwindResume => vec![("k", s("resume"))],
            TerminatorKind::UnwindTerminate(_) => vec![("k", s("terminate"))],
            TerminatorKind::Return => vec![("k", s("return"))],
            TerminatorKind::Unreachable => vec![("k", s("unreachable"))],
            TerminatorKind::Drop { place, target, unwind, .. } => vec![
                ("k", s("drop")),
                ("place", self.place(place)),
                ("target", self.bb(*target)),
                ("unwind", self.unwind(unwind)),
            ],
            TerminatorKind::Call { func, args, destination, target, unwind, fn_span, .. } => {
                vec![
                    ("k", s("call")),
                    ("func", self.operand(func)),
                    ("args", J::Arr(args.iter().map(|a| self.operand(&a.node)).collect())),
                    ("dest", self.place(destination)),
                    ("target", opt(*target, |b| self.bb(b))),
                    ("unwind", self.unwind(unwind)),
                    ("fn_span", self.cx.span(*fn_span)),
                ]
            }
            TerminatorKind::TailCall { func, args, .. } => vec![
                ("k", s("tailcall")),
                ("func", self.operand(func)),
                ("args", J::Arr(args.iter().map(|a| self.operand(&a.node)).collect())),
            ],
            TerminatorKind::Assert { cond, expected, msg, target, unwind } => {
                let kind = match &**msg {
                    mir::AssertKind::BoundsCheck { .. } => "bounds",
                    mir::AssertKind::Overflow(..) => "overflow",
                    mir::AssertKind::OverflowNeg(_) => "overflow_neg",
                    mir::AssertKind::DivisionByZero(_) => "div_zero",
                    mir::AssertKind::RemainderByZero(_) => "rem_zero",
                    mir::AssertKind::MisalignedPointerDereference { .. } => "misaligned",
                    mir::AssertKind::NullPointerDereference => "null",
                    mir::AssertKind::InvalidEnumConstruction(_) => "invalid_enum",
                    _ => "other",
                };
                let mut v = vec![
                    ("k", s("assert")),
                    ("cond", self.operand(cond)),
                    ("expected", J::Bool(*expected)),
                    ("msg", s(kind)),
                    ("target", self.bb(*target)),
                    ("unwind", self.unwind(unwind)),
                ];
                match &**msg {
                    mir::AssertKind::BoundsCheck { len, index } => {
                        v.push(("len", self.operand(len)));
                        v.push(("index", self.operand(index)));
                    }
                    mir::AssertKind::Overflow(op, a, b) => {
                        v.push(("op", s(format!("{:?}", op))));
                        v.push(("a", self.operand(a)));
                        v.push(("b", self.operand(b)));
                    }
                    _ => {}
                }
                v
            }
            TerminatorKind::FalseEdge { real_target, .. } => {
                vec![("k", s("goto")), ("target", self.bb(*real_target))]
            }
            TerminatorKind::FalseUnwind { real_target, .. } => {
                vec![("k", s("goto")), ("target", self.bb(*real_target))]
            }
            TerminatorKind::Yield { .. } => vec![("k", s("yield"))],
            TerminatorKind::CoroutineDrop => vec![("k", s("coroutine_drop"))],
            TerminatorKind::InlineAsm { .. } => vec![("k", s("asm"))],
        };
        o.push(("span", span));
        J::Obj(o)
    }

    fn statement(&self, st: &mir::Statement<'tcx>) -> Option<J> {
        let span = self.cx.span(st.source_info.span);
        match &st.kind {
            StatementKind::Assign(b) => {
                let (p, rv) = &**b;
                Some(J::Obj(vec![
                    ("k", s("assign")),
                    ("place", self.place(p)),
                    ("rv", self.rvalue(rv)),
                    ("span", span),
                ]))
            }
            StatementKind::SetDiscriminant { place, variant_index } => Some(J::Obj(vec![
                ("k", s("set_discr")),
                ("place", self.place(place)),
                ("vi", n(variant_index.as_usize())),
                ("span", span),
            ])),
            StatementKind::Intrinsic(i) => Some(J::Obj(vec![
                ("k", s("intrinsic")),
                ("what", s(format!("{:?}", i))),
                ("span", span),
            ])),
            _ => None,
        }
    }
}

fn dump_body<'tcx>(cx: &Cx<'tcx>, def: LocalDefId) -> J {
    let tcx = cx.tcx;
    let did = def.to_def_id();
    let body: &Body<'tcx> = tcx.optimized_mir(did);
    let env = TypingEnv::post_analysis(tcx, did);
    let bcx = BodyCx { cx, body, def, env };
    let _ = bcx.def;

    let mut o = cx.def_info(did);
    let kind = tcx.def_kind(did);
    if matches!(kind, DefKind::Closure) {
        let parent = tcx.typeck_root_def_id(did);
        o.push(("root", s(cx.key(parent))));
        o.push(("parent", s(cx.key(tcx.parent(did)))));
        let caps = tcx.closure_captures(def);
        o.push((
            "captures",
            J::Arr(
                caps.iter()
                    .map(|c| {
                        J::Obj(vec![
                            ("name", s(c.to_symbol().to_string())),
                            ("by_ref", J::Bool(c.is_by_ref())),
                            ("ty", s(cx.ty(c.place.ty()))),
                        ])
                    })
                    .collect(),
            ),
        ));
    } else {
        let sig = tcx.fn_sig(did).instantiate_identity().skip_normalization();
        o.push(("sig", s(cx.p(sig))));
        o.push(("unsafe", J::Bool(sig.safety().is_unsafe())));
        o.push(("vis", s(format!("{:?}", tcx.visibility(did)))));
        o.push(("pub", J::Bool(tcx.visibility(did).is_public())));
        // nominally `pub` items of private modules are not API: what a user of the crate can name or be handed
        if let Some(ld) = did.as_local() {
            let ev = tcx.effective_visibilities(());
            o.push(("exported", J::Bool(ev.is_reachable(ld))));
        }
        let gens = tcx.generics_of(did);
        let mut gp = Vec::new();
        let mut g = Some(gens);
        while let Some(gg) = g {
            for p in gg.own_params.iter() {
                gp.push(J::Obj(vec![
                    ("name", s(p.name.to_string())),
                    ("index", n(p.index)),
                    ("kind", s(match p.kind {
                        ty::GenericParamDefKind::Lifetime => "lt",
                        ty::GenericParamDefKind::Type { .. } => "ty",
                        ty::GenericParamDefKind::Const { .. } => "const",
                    })),
                ]));
            }
            g = gg.parent.map(|p| tcx.generics_of(p));
        }
        o.push(("generics", J::Arr(gp)));
        let preds = tcx.predicates_of(did).instantiate_identity(tcx);
        o.push((
            "preds",
            J::Arr(preds.predicates.iter().map(|p| s(cx.p(p.skip_norm_wip()))).collect()),
        ));
    }
    o.push(("span", cx.span(tcx.def_span(did))));
    o.push(("arg_count", n(body.arg_count)));
    o.push((
        "locals",
        J::Arr(
            body.local_decls
                .iter()
                .map(|d| {
                    J::Obj(vec![
                        ("ty", s(cx.ty(d.ty))),
                        ("head", cx.ty_head(d.ty)),
                        ("mut", J::Bool(d.mutability.is_mut())),
                    ])
                })
                .collect(),
        ),
    ));
    o.push((
        "debug",
        J::Arr(
            body.var_debug_info
                .iter()
                .map(|v| {
                    let val = match &v.value {
                        mir::VarDebugInfoContents::Place(p) => bcx.place(p),
                        mir::VarDebugInfoContents::Const(c) => bcx.constant(c),
                    };
                    J::Obj(vec![
                        ("name", s(v.name.to_string())),
                        ("arg", opt(v.argument_index, |i| n(i))),
                        ("val", val),
                    ])
                })
                .collect(),
        ),
    ));
    let mut blocks = Vec::new();
    for (_, data) in body.basic_blocks.iter_enumerated() {
        let stmts: Vec<J> = data.statements.iter().filter_map(|st| bcx.statement(st)).collect();
        blocks.push(J::Obj(vec![
            ("cleanup", J::Bool(data.is_cleanup)),
            ("stmts", J::Arr(stmts)),
            ("term", bcx.terminator(data.terminator())),
        ]));
    }
    o.push(("blocks", J::Arr(blocks)));
    // promoted constants (`&Enum::Variant`, `&[..]`): tiny bodies that only build a value
    let mut proms = Vec::new();
    for pbody in tcx.promoted_mir(did).iter() {
        let pcx = BodyCx { cx, body: pbody, def, env };
        let mut pblocks = Vec::new();
        for (_, data) in pbody.basic_blocks.iter_enumerated() {
            let stmts: Vec<J> = data.statements.iter().filter_map(|st| pcx.statement(st)).collect();
            pblocks.push(J::Obj(vec![
                ("cleanup", J::Bool(data.is_cleanup)),
                ("stmts", J::Arr(stmts)),
                ("term", pcx.terminator(data.terminator())),
            ]));
        }
        proms.push(J::Obj(vec![
            ("nlocals", n(pbody.local_decls.len())),
            ("blocks", J::Arr(pblocks)),
        ]));
    }
    o.push(("promoted", J::Arr(proms)));
    J::Obj(o)
}

// ---------------------------------------------------------------- items

fn dump_adt<'tcx>(cx: &Cx<'tcx>, d: LocalDefId) -> J {
    let tcx = cx.tcx;
    let did = d.to_def_id();
    let adt = tcx.adt_def(did);
    let mut variants = Vec::new();
    for (vi, var) in adt.variants().iter_enumerated() {
        let discr = if adt.is_enum() {
            let dv = adt.discriminant_for_variant(tcx, vi);
            J::Num(dv.val as i128)
        } else {
            J::Null
        };
        variants.push(J::Obj(vec![
            ("name", s(var.name.to_string())),
            ("discr", discr),
            (
                "fields",
                J::Arr(
                    var.fields
                        .iter()
                        .map(|f| {
                            let fty = tcx.type_of(f.did).instantiate_identity().skip_normalization();
                            J::Obj(vec![
                                ("name", s(f.name.to_string())),
                                ("ty", s(cx.ty(fty))),
                                ("head", cx.ty_head(fty)),
                                ("vis", s(format!("{:?}", f.vis))),
                                ("pub", J::Bool(f.vis.is_public())),
                                (
                                    "exported",
                                    J::Bool(f.did.as_local().map_or(false, |l| tcx.effective_visibilities(()).is_reachable(l))),
                                ),
                            ])
                        })
                        .collect(),
                ),
            ),
        ]));
    }
    let repr = tcx.adt_def(did).repr();
    J::Obj(vec![
        ("key", s(cx.key(did))),
        ("path", s(cx.path(did))),
        ("kind", s(format!("{:?}", tcx.def_kind(did)))),
        ("pub", J::Bool(tcx.visibility(did).is_public())),
        (
            "exported",
            J::Bool(did.as_local().map_or(false, |l| tcx.effective_visibilities(()).is_reachable(l))),
        ),
        ("repr_int", opt(repr.int, |i| s(format!("{:?}", i)))),
        ("variants", J::Arr(variants)),
        ("span", cx.span(tcx.def_span(did))),
    ])
}

fn dump_impl<'tcx>(cx: &Cx<'tcx>, d: LocalDefId) -> J {
    let tcx = cx.tcx;
    let did = d.to_def_id();
    let self_ty = tcx.type_of(did).instantiate_identity().skip_normalization();
    let mut o = vec![
        ("key", s(cx.key(did))),
        ("self_ty", s(cx.ty(self_ty))),
        ("self_head", cx.ty_head(self_ty)),
        ("span", cx.span(tcx.def_span(did))),
        ("auto_derived", J::Bool(tcx.is_automatically_derived(did))),
    ];
    let defined: Vec<String> = tcx
        .associated_item_def_ids(did)
        .iter()
        .filter_map(|i| tcx.opt_item_name(*i).map(|x| x.to_string()))
        .collect();
    o.push(("items", J::Arr(defined.iter().map(|x| s(x.clone())).collect())));
    if let Some(tr) = tcx.impl_opt_trait_ref(did) {
        let tr = tr.instantiate_identity().skip_normalization();
        let header = tcx.impl_trait_header(did);
        o.push(("trait", s(cx.path(tr.def_id))));
        o.push(("trait_ref", s(cx.p(tr))));
        o.push(("unsafe", J::Bool(header.safety.is_unsafe())));
        o.push(("negative", J::Bool(matches!(header.polarity, ty::ImplPolarity::Negative))));
        let inherited: Vec<J> = tcx
            .provided_trait_methods(tr.def_id)
            .filter(|m| !defined.contains(&m.name().to_string()))
            .map(|m| s(m.name().to_string()))
            .collect();
        o.push(("inherited_defaults", J::Arr(inherited)));
        // auto-trait field audit for `unsafe impl Send/Sync`
        if header.safety.is_unsafe() && tcx.trait_is_auto(tr.def_id) {
            let mut fields = Vec::new();
            if let ty::Adt(adt, args) = self_ty.kind() {
                let env = TypingEnv::post_analysis(tcx, did);
                let (infcx, param_env) = tcx.infer_ctxt().build_with_typing_env(env);
                for var in adt.variants().iter() {
                    for f in var.fields.iter() {
                        let fty = f.ty(tcx, args);
                        let res = infcx.type_implements_trait(tr.def_id, [fty], param_env);
                        fields.push(J::Obj(vec![
                            ("name", s(f.name.to_string())),
                            ("ty", s(cx.ty(fty))),
                            ("result", s(format!("{:?}", res))),
                            ("holds", J::Bool(res.must_apply_modulo_regions())),
                        ]));
                    }
                }
            }
            o.push(("auto_fields", J::Arr(fields)));
        }
    } else {
        o.push(("trait", J::Null));
    }
    let preds = tcx.predicates_of(did).instantiate_identity(tcx);
    o.push((
        "preds",
        J::Arr(preds.predicates.iter().map(|p| s(cx.p(p.skip_norm_wip()))).collect()),
    ));
    let gens = tcx.generics_of(did);
    o.push((
        "generics",
        J::Arr(
            gens.own_params
                .iter()
                .map(|p| {
                    J::Obj(vec![
                        ("name", s(p.name.to_string())),
                        ("kind", s(match p.kind {
                            ty::GenericParamDefKind::Lifetime => "lt",
                            ty::GenericParamDefKind::Type { .. } => "ty",
                            ty::GenericParamDefKind::Const { .. } => "const",
                        })),
                    ])
                })
                .collect(),
        ),
    ));
    J::Obj(o)
}

fn dump_trait<'tcx>(cx: &Cx<'tcx>, d: LocalDefId) -> J {
    let tcx = cx.tcx;
    let did = d.to_def_id();
    let mut methods = Vec::new();
    for it in tcx.associated_items(did).in_definition_order() {
        if it.is_fn() {
            methods.push(J::Obj(vec![
                ("name", s(it.name().to_string())),
                ("has_default", J::Bool(it.defaultness(tcx).has_value())),
                ("key", s(cx.key(it.def_id))),
            ]));
        }
    }
    let preds = tcx.explicit_super_predicates_of(did);
    J::Obj(vec![
        ("key", s(cx.key(did))),
        ("path", s(cx.path(did))),
        ("unsafe", J::Bool(tcx.trait_def(did).safety.is_unsafe())),
        ("methods", J::Arr(methods)),
        (
            "supers",
            J::Arr(preds.iter_identity_copied().map(|u| { let (p, _) = u.skip_norm_wip(); s(cx.p(p)) }).collect()),
        ),
        ("span", cx.span(tcx.def_span(did))),
    ])
}

fn dump_const<'tcx>(cx: &Cx<'tcx>, d: LocalDefId) -> J {
    let tcx = cx.tcx;
    let did = d.to_def_id();
    let ty = tcx.type_of(did).instantiate_identity().skip_normalization();
    let mut o = vec![("key", s(cx.key(did))), ("path", s(cx.path(did))), ("ty", s(cx.ty(ty)))];
    if tcx.generics_of(did).is_empty() && (ty.is_integral() || ty.is_bool()) {
        if let Ok(val) = tcx.const_eval_poly(did) {
            if let Some(sc) = val.try_to_scalar_int() {
                let size = sc.size();
                let v: i128 = if ty.is_signed() { sc.to_int(size) } else { sc.to_bits(size) as i128 };
                o.push(("int", J::Num(v)));
            }
        }
    }
    J::Obj(o)
}

// ---------------------------------------------------------------- driver

struct Cb;

impl rustc_driver::Callbacks for Cb {
    fn after_analysis<'tcx>(
        &mut self,
        _compiler: &rustc_interface::interface::Compiler,
        tcx: TyCtxt<'tcx>,
    ) -> Compilation {
        let out_dir = match std::env::var("SHRED_FACTS_OUT") {
            Ok(d) => d,
            Err(_) => return Compilation::Continue,
        };
        let krate = tcx.crate_name(LOCAL_CRATE).to_string();
        // only workspace members we care about
        let wanted = std::env::var("SHRED_FACTS_CRATES").unwrap_or_else(|_| "shred".to_string());
        if wanted != "*" && !wanted.split(',').any(|w| w == krate) {
            return Compilation::Continue;
        }
        if tcx.dcx().has_errors().is_some() {
            return Compilation::Continue;
        }
        let cx = Cx { tcx, krate: krate.clone() };

        let mut bodies = Vec::new();
        let mut adts = Vec::new();
        let mut impls = Vec::new();
        let mut traits = Vec::new();
        let mut consts = Vec::new();

        let mut keys: Vec<LocalDefId> = tcx.mir_keys(()).iter().copied().collect();
        keys.sort_by_key(|d| cx.key(d.to_def_id()));
        for d in keys {
            match tcx.def_kind(d) {
                DefKind::Fn | DefKind::AssocFn | DefKind::Closure => {
                    if tcx.is_coroutine(d.to_def_id()) {
                        continue;
                    }
                    bodies.push(dump_body(&cx, d));
                }
                _ => {}
            }
        }
        let mut defs: Vec<LocalDefId> = tcx.hir_crate_items(()).definitions().collect();
        defs.sort_by_key(|d| cx.key(d.to_def_id()));
        for d in defs {
            match tcx.def_kind(d) {
                DefKind::Struct | DefKind::Enum | DefKind::Union => adts.push(dump_adt(&cx, d)),
                DefKind::Impl { .. } => impls.push(dump_impl(&cx, d)),
                DefKind::Trait => traits.push(dump_trait(&cx, d)),
                DefKind::Const { .. } | DefKind::AssocConst { .. } => consts.push(dump_const(&cx, d)),
                _ => {}
            }
        }

        let sess = tcx.sess;
        let cfgs: Vec<J> = {
            let mut v: Vec<String> = sess
                .config
                .iter()
                .map(|(k, val)| match val {
                    Some(x) => format!("{}={}", k, x),
                    None => k.to_string(),
                })
                .filter(|c| c.starts_with("feature=") || c == "test" || c == "debug_assertions")
                .collect();
            v.sort();
            v.into_iter().map(s).collect()
        };
        let root = J::Obj(vec![
            ("crate", s(krate.clone())),
            ("is_test", J::Bool(sess.is_test_crate())),
            ("crate_types", J::Arr(tcx.crate_types().iter().map(|t| s(format!("{:?}", t))).collect())),
            ("cfg", J::Arr(cfgs)),
            ("bodies", J::Arr(bodies)),
            ("adts", J::Arr(adts)),
            ("impls", J::Arr(impls)),
            ("traits", J::Arr(traits)),
            ("consts", J::Arr(consts)),
        ]);
        let mut text = String::new();
        root.write(&mut text);
        let kind = if sess.is_test_crate() {
            "test".to_string()
        } else {
            tcx.crate_types().iter().map(|t| format!("{:?}", t).to_lowercase()).collect::<Vec<_>>().join("+")
        };
        let path = format!("{}/{}-{}-{}.json", out_dir, krate, kind, std::process::id());
        // one write per process
        std::fs::write(&path, text).expect("cannot write fact file");
        Compilation::Continue
    }
}

fn main() {
    let mut args: Vec<String> = std::env::args().collect();
    // RUSTC_WORKSPACE_WRAPPER: argv[1] is the path of the real rustc.
    if args.len() > 1 && (args[1].ends_with("rustc") || args[1].contains("/rustc")) {
        args.remove(1);
    }
    rustc_driver::install_ice_hook("https://example.invalid/shred-facts", |_| ());
    let mut cb = Cb;
    rustc_driver::run_compiler(&args, &mut cb);
}
