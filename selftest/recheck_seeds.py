#!/usr/bin/env python3
"""Re-run all 20 quick checks against every kept seed (/verif/seeded/*/patch.diff) and refresh
meta.json's checks_fired.  Exit 1 if a seed is no longer caught by the check of its own property."""
import glob, json, os, re, subprocess, sys
VERIF = os.path.dirname(os.path.dirname(os.path.abspath(__file__)))
allp = ["C%02d" % i for i in range(1, 21)]
bad = 0
only = sys.argv[1:]
for d in sorted(glob.glob(os.path.join(VERIF, "seeded", "*"))):
    name = os.path.basename(d)
    if only and not any(name.startswith(o) for o in only):
        continue
    meta = json.load(open(os.path.join(d, "meta.json")))
    p = subprocess.run([sys.executable, os.path.join(VERIF, "selftest", "mutate.py"), "--patch", os.path.join(d, "patch.diff")] + allp,
                       stdout=subprocess.PIPE, stderr=subprocess.STDOUT)
    fired, cur = {}, None
    for l in p.stdout.decode().splitlines():
        m = re.match(r"^(C\d\d)\s+(FIRED|silent)\s*(.*)$", l)
        if m:
            cur = m.group(1)
            if m.group(2) == "FIRED":
                fired[cur] = [m.group(3).strip()[:300]]
        elif cur in fired and l.strip().startswith("C"):
            fired[cur].append(l.strip()[:300])
    meta["checks_fired"] = fired
    meta["caught_by_own_property_check"] = meta["property"] in fired
    json.dump(meta, open(os.path.join(d, "meta.json"), "w"), indent=1)
    ok = meta["property"] in fired
    bad += 0 if ok else 1
    print("%-14s %-4s %s fired=%s" % (name, meta["property"], "caught" if ok else "MISSED", sorted(fired)))
sys.exit(1 if bad else 0)
