#!/usr/bin/env python3
"""why.py [--all-configs] [--dir D] <variant> [PROP..]: the violations the quick rules report on one pre-extracted variant (development aid)."""
import sys, os
sys.path.insert(0, os.path.dirname(os.path.abspath(__file__)))
import fast
if sys.argv[1] == "--all-configs":
    fast.ALL_CONFIGS = True
    del sys.argv[1]
if sys.argv[1] == "--dir":
    fast.DIR = sys.argv[2]
    del sys.argv[1:3]
name = sys.argv[1]
props = sys.argv[2:] or fast.PROPS
_, out = fast.run_variant(name)
_, base = fast.run_variant("BASE")
for p in props:
    bk = set(k for k, _ in base[p])
    for k, d in out[p]:
        if k not in bk:
            print(p, k, "::", d)
