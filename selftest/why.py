#!/usr/bin/env python3
"""why.py <variant> [PROP..]: the violations the quick rules report on one pre-extracted variant (development aid)."""
import sys, os
sys.path.insert(0, os.path.dirname(os.path.abspath(__file__)))
import fast
name = sys.argv[1]
props = sys.argv[2:] or fast.PROPS
_, out = fast.run_variant(name)
_, base = fast.run_variant("BASE")
for p in props:
    bk = set(k for k, _ in base[p])
    for k, d in out[p]:
        if k not in bk:
            print(p, k, "::", d)
