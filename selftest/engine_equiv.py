#!/usr/bin/env python3
"""Self-test of the structured evaluation: the pairs in probe/src/equiv.rs.  `eq_*` variants must tabulate to the
same canonical form, `ne_*` variants must not.  Exit 1 on any wrong verdict."""
import os, sys
VERIF = os.path.dirname(os.path.dirname(os.path.abspath(__file__)))
sys.path.insert(0, VERIF)
from shredlint import extract as E
from shredlint.facts import load
from shredlint.sem import Evaluator
from shredlint.semcanon import canonical


def main():
    d, info = E.extract("probe")
    f = load([p for p in E.fact_files(d) if "shred_probe" in os.path.basename(p)][0])
    groups = {}
    for b in f.bodies.values():
        q = b.qname
        if q.startswith("shred_probe::equiv::") and not b.is_closure:
            n = q.rsplit("::", 1)[1]
            if n[:3] in ("eq_", "ne_") and n[-2] == "_":
                groups.setdefault(n[:-2], {})[n[-1]] = b
    bad = 0
    for g in sorted(groups):
        forms = {}
        for k, b in sorted(groups[g].items()):
            ev = Evaluator(f)
            try:
                forms[k] = canonical(ev, ev.eval(b))
            except Exception as e:
                forms[k] = "ERROR %s: %s" % (type(e).__name__, e)
        vals = list(forms.values())
        same = all(v == vals[0] for v in vals) and not isinstance(vals[0], str)
        want = g.startswith("eq_")
        ok = same == want and not any(isinstance(v, str) for v in vals)
        print("%-14s %-9s %s (%d spellings, %d paths)" % (g, "equal" if same else "different", "ok" if ok else "WRONG", len(vals), len(vals[0]) if not isinstance(vals[0], str) else -1))
        if not ok:
            bad += 1
            if "-v" in sys.argv:
                for k, v in forms.items():
                    print("   ---", k)
                    for row in sorted(v, key=repr) if not isinstance(v, str) else [v]:
                        print("      ", repr(row)[:1500])
    print("%d group(s), %d wrong" % (len(groups), bad))
    return 1 if bad else 0


if __name__ == "__main__":
    sys.exit(main())
