#!/bin/bash
# confirm_seed.sh <worktree> <outdir>: confirm a seeded change (suite green with it, demo fails with it, demo passes without it;
# for an added-API seed the demo passes with it - its assertions document the violation - and does not compile without it)
wt=$1; out=$2
cd "$wt" || exit 2
export CARGO_NET_OFFLINE=true
demo=tests/seed_demo.rs
[ -f $demo ] || cp "$out/seed_demo.rs" $demo
mv $demo /tmp/seed_demo_aside.$$ 
suite=$(cargo test --workspace --no-fail-fast --offline 2>&1 | grep -E "^test result" | awk '{p+=$4; f+=$6} END {print p" passed "f" failed"}')
mv /tmp/seed_demo_aside.$$ $demo
with=$(cargo test --offline --test seed_demo 2>&1 | grep -E "^test result" | tail -1)
# refs/stash is shared between worktrees: revert with the diff itself, never with git stash
git diff -- src shred-derive > /tmp/seed_change.$$.diff
git apply -R /tmp/seed_change.$$.diff
without=$(cargo test --offline --test seed_demo 2>&1 | grep -E "^test result|^error(\[E[0-9]+\])?:" | tail -1)
git apply /tmp/seed_change.$$.diff && rm -f /tmp/seed_change.$$.diff
echo "suite_with_change: $suite"
echo "demo_with_change: $with"
echo "demo_without_change: $without"
