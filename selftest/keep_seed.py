#!/usr/bin/env python3
"""keep_seed.py <PROP> [<name>]: confirm the seeded change produced in /tmp/wt-<PROP> / /tmp/out-<PROP>
(suite green with it, demo fails with it and passes without it), run all 20 quick checks against it and
store it as /verif/seeded/<name>/ (patch.diff, seed_demo.rs, notes.md, meta.json)."""
import json, os, re, shutil, subprocess, sys
VERIF = os.path.dirname(os.path.dirname(os.path.abspath(__file__)))
API = "--api" in sys.argv
if API:
    sys.argv.remove("--api")
prop = sys.argv[1]
name = sys.argv[2] if len(sys.argv) > 2 else prop.lower() + "-agent-1"
wt, out = sys.argv[3] if len(sys.argv) > 3 else "/tmp/wt-" + prop, sys.argv[4] if len(sys.argv) > 4 else "/tmp/out-" + prop
conf = subprocess.run([os.path.join(VERIF, "selftest", "confirm_seed.sh"), wt, out], stdout=subprocess.PIPE, stderr=subprocess.STDOUT).stdout.decode()
res = dict(re.findall(r"^(\w+): (.*)$", conf, re.M))
print(conf)
suite_ok = re.match(r"(\d+) passed 0 failed", res.get("suite_with_change", "")) and int(res["suite_with_change"].split()[0]) >= 51
with_fail = "FAILED" in res.get("demo_with_change", "")
without_ok = res.get("demo_without_change", "").startswith("test result: ok")
confirmed = bool(suite_ok and with_fail and without_ok)
if API:
    # an added public API: the demo's assertions hold exactly when the property is violated, and it cannot be built without the addition
    confirmed = bool(suite_ok and res.get("demo_with_change", "").startswith("test result: ok") and res.get("demo_without_change", "").startswith("error"))
allp = ["C%02d" % i for i in range(1, 21)]
p = subprocess.run([sys.executable, os.path.join(VERIF, "selftest", "mutate.py"), "--patch", os.path.join(out, "patch.diff")] + allp, stdout=subprocess.PIPE, stderr=subprocess.STDOUT)
text = p.stdout.decode()
fired = {}
cur = None
for l in text.splitlines():
    m = re.match(r"^(C\d\d)\s+(FIRED|silent)\s*(.*)$", l)
    if m:
        cur = m.group(1)
        if m.group(2) == "FIRED":
            fired[cur] = [m.group(3).strip()[:300]]
    elif cur in fired and l.strip().startswith("C"):
        fired[cur].append(l.strip()[:300])
print("fired:", sorted(fired))
d = os.path.join(VERIF, "seeded", name)
os.makedirs(d, exist_ok=True)
shutil.copyfile(os.path.join(out, "patch.diff"), os.path.join(d, "patch.diff"))
shutil.copyfile(os.path.join(out, "seed_demo.rs"), os.path.join(d, "seed_demo.rs"))
if os.path.exists(os.path.join(out, "notes.md")):
    shutil.copyfile(os.path.join(out, "notes.md"), os.path.join(d, "notes.md"))
notes = open(os.path.join(out, "notes.md")).read() if os.path.exists(os.path.join(out, "notes.md")) else ""
meta = {
    "id": name,
    "property": prop,
    "kind": "added public API (demo passes with the addition and documents the violating behaviour; it does not build without it)" if API else "changed behaviour of existing code",
    "origin": "independent sub-agent given only the property text and a scratch worktree of /repo (HEAD %s)" % subprocess.check_output(["git", "-C", "/repo", "rev-parse", "--short", "HEAD"]).decode().strip(),
    "confirmed_by_me": confirmed,
    "what_i_ran": [
        "selftest/confirm_seed.sh %s %s  (cargo test --workspace --no-fail-fast --offline with the change and the demo moved aside; cargo test --offline --test seed_demo with the change; the same with src/ and shred-derive/ stashed)" % (wt, out),
        "selftest/mutate.py --patch patch.diff C01..C20  (all 20 quick checks against a scratch copy of /repo with the patch applied)",
    ],
    "results": res,
    "needs_to_manifest": (re.search(r"(?is)(what it needs.*?)(\n#|\n\n\n|$)", notes).group(1).strip()[:1500] if re.search(r"(?is)what it needs", notes) else "see notes.md"),
    "checks_fired": fired,
    "caught_by_own_property_check": prop in fired,
}
with open(os.path.join(d, "meta.json"), "w") as f:
    json.dump(meta, f, indent=1)
print("stored", d, "confirmed:", confirmed, "caught:", prop in fired)
