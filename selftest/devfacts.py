#!/usr/bin/env python3
"""devfacts.py <out dir> <what>...: default-config fact file for /repo with one change applied (development aid,
not a check).  <what> is BASE, a .diff file, a mutant id from mutants_*.json, or a seeded/<id> directory."""
import json, os, shutil, subprocess, sys, tempfile
from concurrent.futures import ThreadPoolExecutor
VERIF = os.path.dirname(os.path.dirname(os.path.abspath(__file__)))
sys.path.insert(0, os.path.join(VERIF, "selftest"))
import mutate

MUT = dict((m["id"], m) for m in mutate.load())
EXTRA_CONFIGS = [c for c in os.environ.get("DEVFACTS_CONFIGS", "").split(",") if c and c != "default"]


def name_of(w):
    if w == "BASE":
        return "BASE"
    if os.path.isdir(w):
        return "seed-" + os.path.basename(os.path.normpath(w))
    if w.endswith(".diff"):
        return os.path.basename(w).replace(".diff", "")
    return w


def one(out, w):
    name = name_of(w)
    dest = os.path.join(out, name + ".json")
    if os.path.exists(dest) and all(os.path.exists(dest[:-5] + "@%s.json" % c) for c in EXTRA_CONFIGS):
        return name, "cached"
    scratch = tempfile.mkdtemp(prefix="shred-dev.")
    cache = tempfile.mkdtemp(prefix="shred-dev-cache.")
    try:
        subprocess.check_call(["rsync", "-a", "--exclude", "target", "--exclude", ".git", "/repo/", scratch + "/"])
        diff = None
        if os.path.isdir(w):
            diff = os.path.join(w, "patch.diff")
        elif w.endswith(".diff"):
            diff = w
        if diff:
            p = subprocess.run(["patch", "-p1", "-d", scratch, "-i", os.path.abspath(diff)], stdout=subprocess.PIPE, stderr=subprocess.STDOUT)
            if p.returncode != 0:
                return name, "PATCH FAILED"
        elif w != "BASE":
            if MUT[w].get("patch"):
                pp = subprocess.run(["patch", "-p1", "-d", scratch, "-i", os.path.join(VERIF, MUT[w]["patch"])], stdout=subprocess.PIPE, stderr=subprocess.STDOUT)
                if pp.returncode != 0:
                    return name, "PATCH FAILED"
            for ed in MUT[w].get("edits", []):
                p = os.path.join(scratch, ed["file"])
                t = open(p).read()
                if t.count(ed["old"]) != 1 and not (ed.get("all") and t.count(ed["old"]) > 1):
                    return name, "EDIT DOES NOT APPLY"
                open(p, "w").write(t.replace(ed["old"], ed["new"]))
        env = dict(os.environ, VERIF_REPO=scratch, VERIF_NO_CACHE="1", VERIF_CACHE_DIR=cache)
        code = ("import shutil,sys;from shredlint import extract as E;d,i=E.extract('default');f=E.fact_files(d,crate='shred')[0];shutil.copyfile(f,sys.argv[1]);"
                "g=E.fact_files(d,crate='shred_derive');g and shutil.copyfile(g[0],sys.argv[1][:-5]+'.derive.json')")
        for cfg in EXTRA_CONFIGS:
            code += ";d,i=E.extract('%s');f=E.fact_files(d,crate='shred')[0];shutil.copyfile(f,sys.argv[1][:-5]+'@%s.json')" % (cfg, cfg)
        p = subprocess.run([sys.executable, "-B", "-c", code, dest], cwd=VERIF, env=env, stdout=subprocess.PIPE, stderr=subprocess.STDOUT)
        return name, "ok" if p.returncode == 0 else "FAILED " + p.stdout.decode()[-300:]
    finally:
        shutil.rmtree(scratch, ignore_errors=True)
        shutil.rmtree(cache, ignore_errors=True)


if __name__ == "__main__":
    out = sys.argv[1]
    os.makedirs(out, exist_ok=True)
    what = sys.argv[2:]
    if what == ["ALL"]:
        what = ["BASE"] + sorted(MUT) + sorted(os.path.join(VERIF, "seeded", d) for d in os.listdir(os.path.join(VERIF, "seeded")))
        what += sorted(os.path.join(VERIF, "selftest", "refactor_corpus", f) for f in os.listdir(os.path.join(VERIF, "selftest", "refactor_corpus")) if f.endswith(".diff"))
    with ThreadPoolExecutor(max_workers=7) as ex:
        for name, res in ex.map(lambda w: one(out, w), what):
            if res not in ("ok", "cached"):
                print(name, res)
