#!/usr/bin/env python3
"""Self-test of the checker: apply one seeded breakage (or behaviour-preserving
refactor) to a scratch copy of /repo, run the named checks against the copy and
report whether they fire.  The copy and its build output are removed at once.

usage: mutate.py <mutant id>... | --all | --list   [--kind break|refactor]
"""
import json
import os
import shutil
import subprocess
import sys
import tempfile

HERE = os.path.dirname(os.path.abspath(__file__))
VERIF = os.path.dirname(HERE)


def load():
    out = []
    for fn in sorted(os.listdir(HERE)):
        if fn.endswith(".json") and fn.startswith("mutants"):
            with open(os.path.join(HERE, fn)) as f:
                out.extend(json.load(f))
    return out


def run_one(m, verbose=False):
    scratch = tempfile.mkdtemp(prefix="shred-mut.")
    ev = tempfile.mkdtemp(prefix="shred-mut-ev.")
    try:
        subprocess.check_call(["rsync", "-a", "--exclude", "target", "--exclude", ".git", "/repo/", scratch + "/"])
        if m.get("patch"):
            pp = subprocess.run(["patch", "-p1", "-d", scratch, "-i", os.path.join(VERIF, m["patch"])], stdout=subprocess.PIPE, stderr=subprocess.STDOUT)
            if pp.returncode != 0:
                return "SKIP", "patch %s does not apply" % m["patch"]
        for ed in m.get("edits", []):
            p = os.path.join(scratch, ed["file"])
            with open(p) as f:
                t = f.read()
            if t.count(ed["old"]) != 1 and not (ed.get("all") and t.count(ed["old"]) > 1):
                return "SKIP", "edit does not apply uniquely to %s (count %d)" % (ed["file"], t.count(ed["old"]))
            t = t.replace(ed["old"], ed["new"])
            with open(p, "w") as f:
                f.write(t)
        res = {}
        env = dict(os.environ, VERIF_REPO=scratch, VERIF_EVIDENCE_DIR=ev, VERIF_OUT_DIR=ev)
        for prop in m["props"]:
            p = subprocess.run([os.path.join(VERIF, "check"), prop, "--tier", m.get("tier", "quick")], env=env, stdout=subprocess.PIPE, stderr=subprocess.STDOUT)
            text = p.stdout.decode(errors="replace")
            if "fact extraction failed" in text:
                return "NOBUILD", text[-1500:]
            viol = [l for l in text.splitlines() if l.startswith("  C") or l.startswith("VIOLATION")]
            res[prop] = (p.returncode, [l for l in text.splitlines() if l.startswith("  C")])
            if verbose:
                print(text)
        return "RAN", res
    finally:
        shutil.rmtree(scratch, ignore_errors=True)
        shutil.rmtree(ev, ignore_errors=True)


def run_patch(patch, props, tier="quick", verbose=False):
    """Apply a unified diff (paths relative to the repo root) to a scratch copy and run the checks."""
    scratch = tempfile.mkdtemp(prefix="shred-mut.")
    ev = tempfile.mkdtemp(prefix="shred-mut-ev.")
    try:
        subprocess.check_call(["rsync", "-a", "--exclude", "target", "--exclude", ".git", "/repo/", scratch + "/"])
        p = subprocess.run(["patch", "-p1", "-d", scratch, "-i", os.path.abspath(patch)], stdout=subprocess.PIPE, stderr=subprocess.STDOUT)
        if p.returncode != 0:
            print("PATCH FAILED", p.stdout.decode()[-500:])
            return 2
        env = dict(os.environ, VERIF_REPO=scratch, VERIF_EVIDENCE_DIR=ev, VERIF_OUT_DIR=ev)
        rc_all = 0
        for prop in props:
            p = subprocess.run([os.path.join(VERIF, "check"), prop, "--tier", tier], env=env, stdout=subprocess.PIPE, stderr=subprocess.STDOUT)
            text = p.stdout.decode(errors="replace")
            lines = [l for l in text.splitlines() if l.startswith("  C")]
            print("%-4s %-7s %s" % (prop, "FIRED" if p.returncode else "silent", lines[0][:300] if lines else ""))
            for l in lines[1:6]:
                print("              " + l[:300])
            if verbose:
                print(text)
        return 0
    finally:
        shutil.rmtree(scratch, ignore_errors=True)
        shutil.rmtree(ev, ignore_errors=True)


def main(argv):
    if len(argv) > 2 and argv[1] == "--patch":
        tier = "thorough" if "--thorough" in argv else "quick"
        return run_patch(argv[2], [a for a in argv[3:] if not a.startswith("-")], tier, "-v" in argv)
    ms = load()
    if "--list" in argv:
        for m in ms:
            print(m["id"], m.get("kind", "break"), m["props"], "-", m.get("desc", ""))
        return 0
    verbose = "-v" in argv
    ids = [a for a in argv[1:] if not a.startswith("-")]
    if "--all" in argv:
        sel = ms
    else:
        sel = [m for m in ms if m["id"] in ids or any(m["id"].startswith(i) for i in ids)]
    bad = 0
    for m in sel:
        status, res = run_one(m, verbose)
        kind = m.get("kind", "break")
        if status != "RAN":
            print("%-34s %s %s" % (m["id"], status, str(res)[:300].replace("\n", " | ")))
            if status == "NOBUILD":
                bad += 1
            continue
        for prop, (rc, lines) in sorted(res.items()):
            fired = rc != 0
            expect = kind == "break"
            ok = fired == expect
            if not ok:
                bad += 1
            print("%-34s %-4s %-9s %s %s" % (m["id"], prop, "FIRED" if fired else "silent", "ok " if ok else "WRONG", (lines[0][:170] if lines else "")))
    return 1 if bad else 0


if __name__ == "__main__":
    sys.exit(main(sys.argv))
