#!/usr/bin/env python3
"""Self-test of the checker: apply one seeded breakage (or behaviour-preserving
refactor) to a scratch copy of /repo, run the named checks against the copy and
report whether they fire.  The copy and its build output are removed at once.

usage: mutate.py <mutant id>... | --all | --list   [--kind break|refactor]
"""
import json
import os
import shutil
import subprocess
import sys
import tempfile

HERE = os.path.dirname(os.path.abspath(__file__))
VERIF = os.path.dirname(HERE)


def load():
    out = []
    for fn in sorted(os.listdir(HERE)):
        if fn.endswith(".json") and fn.startswith("mutants"):
            with open(os.path.join(HERE, fn)) as f:
                out.extend(json.load(f))
    return out


def run_one(m, verbose=False):
    scratch = tempfile.mkdtemp(prefix="shred-mut.")
    ev = tempfile.mkdtemp(prefix="shred-mut-ev.")
    try:
        subprocess.check_call(["rsync", "-a", "--exclude", "target", "--exclude", ".git", "/repo/", scratch + "/"])
        for ed in m["edits"]:
            p = os.path.join(scratch, ed["file"])
            with open(p) as f:
                t = f.read()
            if t.count(ed["old"]) != 1:
                return "SKIP", "edit does not apply uniquely to %s (count %d)" % (ed["file"], t.count(ed["old"]))
            t = t.replace(ed["old"], ed["new"])
            with open(p, "w") as f:
                f.write(t)
        res = {}
        env = dict(os.environ, VERIF_REPO=scratch, VERIF_EVIDENCE_DIR=ev, VERIF_OUT_DIR=ev)
        for prop in m["props"]:
            p = subprocess.run([os.path.join(VERIF, "check"), prop, "--tier", m.get("tier", "quick")], env=env, stdout=subprocess.PIPE, stderr=subprocess.STDOUT)
            text = p.stdout.decode(errors="replace")
            if "fact extraction failed" in text:
                return "NOBUILD", text[-1500:]
            viol = [l for l in text.splitlines() if l.startswith("  C") or l.startswith("VIOLATION")]
            res[prop] = (p.returncode, [l for l in text.splitlines() if l.startswith("  C")])
            if verbose:
                print(text)
        return "RAN", res
    finally:
        shutil.rmtree(scratch, ignore_errors=True)
        shutil.rmtree(ev, ignore_errors=True)


def main(argv):
    ms = load()
    if "--list" in argv:
        for m in ms:
            print(m["id"], m.get("kind", "break"), m["props"], "-", m.get("desc", ""))
        return 0
    verbose = "-v" in argv
    ids = [a for a in argv[1:] if not a.startswith("-")]
    if "--all" in argv:
        sel = ms
    else:
        sel = [m for m in ms if m["id"] in ids or any(m["id"].startswith(i) for i in ids)]
    bad = 0
    for m in sel:
        status, res = run_one(m, verbose)
        kind = m.get("kind", "break")
        if status != "RAN":
            print("%-34s %s %s" % (m["id"], status, str(res)[:300].replace("\n", " | ")))
            if status == "NOBUILD":
                bad += 1
            continue
        for prop, (rc, lines) in sorted(res.items()):
            fired = rc != 0
            expect = kind == "break"
            ok = fired == expect
            if not ok:
                bad += 1
            print("%-34s %-4s %-9s %s %s" % (m["id"], prop, "FIRED" if fired else "silent", "ok " if ok else "WRONG", (lines[0][:170] if lines else "")))
    return 1 if bad else 0


if __name__ == "__main__":
    sys.exit(main(sys.argv))
