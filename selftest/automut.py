#!/usr/bin/env python3
"""automut.py gen|run|triage ...: systematic small mutations of /repo's library source (development aid, not a check).

  gen  <outdir>            enumerate mutation sites (operators, constants, negations, dropped statements, adaptors) and write
                           one unified diff per mutant to <outdir>/all/<id>.diff
  run  <outdir> [workers]  for every mutant: apply to a scratch copy, build, run the repository's test suite; mutants that
                           compile and pass the whole suite ("survivors") are copied to <outdir>/survivors/
  triage <outdir>          extract facts for the survivors (devfacts) and run the quick rules in-process (fast harness):
                           prints which survivors no property check reports

A survivor is by construction a change that compiles and passes the existing tests; whether it breaks a property is the
question the triage puts to the checks.  Survivors nobody reports are read by hand: equivalent mutants (dead code, messages,
capacities, debug output) or a gap."""
import difflib, hashlib, json, os, re, shutil, subprocess, sys, tempfile
from concurrent.futures import ThreadPoolExecutor
VERIF = os.path.dirname(os.path.dirname(os.path.abspath(__file__)))
REPO = os.environ.get("VERIF_REPO", "/repo")

OPS = [
    (r" == ", " != "), (r" != ", " == "), (r" <= ", " < "), (r" >= ", " > "), (r" < ", " <= "), (r" > ", " >= "),
    (r" && ", " || "), (r" \|\| ", " && "), (r" \+= ", " -= "), (r" \+ 1\b", " + 0"), (r" - 1\b", " - 0"), (r" \+ 1\b", " + 2"),
    (r"\btrue\b", "false"), (r"\bfalse\b", "true"), (r"\.is_none\(\)", ".is_some()"), (r"\.is_some\(\)", ".is_none()"),
    (r"\.is_empty\(\)", ".is_empty() == false"), (r"\bif !", "if "), (r"\.iter\(\)", ".iter().skip(1)"), (r"\.iter_mut\(\)", ".iter_mut().skip(1)"),
    (r"\.iter\(\)", ".iter().rev()"), (r"\.iter_mut\(\)", ".iter_mut().rev()"), (r"\.any\(", ".all("), (r"\.all\(", ".any("),
    (r"\bbreak;", "continue;"), (r"\.push\(", ".insert(0, "), (r"\.min\(", ".max("), (r"\.max\(", ".min("),
    (r"\.unwrap_or\(0\)", ".unwrap_or(1)"), (r"\.find\(", ".rfind("), (r"\.position\(", ".rposition("), (r"\.chain\(", ".zip("),
    (r"\bSome\(([a-z_]+)\) =>", r"Some(\1) if false =>"), (r"\.extend\(", ".extend(std::iter::empty().chain("),
    (r"\.sort\(\);", ".reverse();"), (r"\.dedup\(\);", ";"), (r"\.retain\(\|", ".retain(|_unused| true || |"),
]
OPS2 = [
    (r"\bif ([^{]+) \{$", "if true {"), (r"\bif ([^{]+) \{$", "if false {"),
    (r"\.borrow\(\)", ".borrow_mut()"), (r"\.borrow_mut\(\)", ".borrow()"), (r"\.try_borrow\(\)", ".try_borrow_mut()"), (r"\.try_borrow_mut\(\)", ".try_borrow()"),
    (r"\(0\.\.", "(1.."), (r"\.len\(\)", ".len() - 1"), (r"\.len\(\)", ".len() + 1"),
    (r"\breads\b", "writes"), (r"\bwrites\b", "reads"), (r"\bnew_reads\b", "new_writes"), (r"\bnew_writes\b", "new_reads"),
    (r"\bhead\b", "tail"), (r"\btail\b", "head"), (r"\[stage\]\[group\]", "[group][stage]"), (r"\bstage\b", "group"), (r"\bgroup\b", "stage"),
    (r"\bfetch\b", "fetch_mut"), (r"\bfetch_mut\b", "fetch"), (r"\btry_fetch\b", "try_fetch_mut"), (r"\btry_fetch_mut\b", "try_fetch"),
    (r"\bexecute\(", "execute_seq("), (r"\bexecute_seq\(", "execute("), (r"\bdispatch_par\(", "dispatch_seq("), (r"\bdispatch_seq\(", "dispatch_par("),
    (r"\bNone\b", "Some(Default::default())"), (r"\.unwrap_or_else\(", ".unwrap_or_else(|| unreachable!()).min("),
    (r"\bConflict::None\b", "Conflict::Multiple"), (r"\bConflict::Multiple\b", "Conflict::None"), (r"\bConflict::Single\((\w+)\)", "Conflict::None"),
    (r"\bRunningTime::(\w+)", "RunningTime::Average"), (r"\b(\d+)\b", lambda m: str(int(m.group(1)) + 1)), (r"\b(\d+)\b", lambda m: str(max(0, int(m.group(1)) - 1))),
    (r"\bself\.barrier\b", "0"), (r"\bid\b", "SystemId(0)"), (r"\.cloned\(\)", ".cloned().take(1)"), (r"\.flatten\(\)", ".flatten().skip(1)"),
    (r"\bpool\.join\(", "rayon::join("), (r"\.install\(", ".in_place_scope(|_| ()); ("),
]
OPS3 = [
    (r"vec!\[ResourceId::new::<(\w+)>\(\)\]", "vec![]"), (r"vec!\[\]", "vec![ResourceId::new::<()>()]"),
    (r"ResourceId::new::<(\w+)>\(\)", "ResourceId::new::<()>()"), (r"\.insert\(([^;]*)\);$", r".entry(\1);"),
    (r"^(\s*)([A-Za-z_][A-Za-z0-9_:<>]*::setup\(world\))$", r"\1let _ = world;"), (r"^(\s*)(self\.[a-z_\.]+\((world|[a-z_, ]*)\))$", r"\1()"),
    (r"\.unwrap_or_else\(\|\| \{$", ".map(Some).unwrap_or_else(|| None).unwrap_or_else(|| {"),
    (r"\.ok\(\)", ".ok().filter(|_| false)"), (r"\.map\(Into::into\)", ".map(Into::into).filter(|_| false)"),
    (r"\.expect\(", ".ok().expect("), (r"\bSome\((\w+)\)$", "None"), (r"\bOk\(\(\)\)", "Ok(())"),
    (r"\.get\(&", ".get(&Default::default()).or(None); self.resources.get(&"), (r"\.remove\(&", ".get(&"), (r"\.contains_key\(&", ".contains_key(&Default::default()) || self.resources.contains_key(&"),
    (r"\.try_borrow\(\)", ".try_borrow().ok().map(Ok).unwrap_or_else(|| Err(()))"), (r"\bcontroller\b", "dispatcher"), (r"\bdispatcher\b", "controller"),
    (r"\.setup\(", ".dispose("), (r"\.dispose\(", ".setup("), (r"\bsetup\(world\)", "setup(&mut World::empty())"),
    (r"\bworld\b", "&World::empty()"), (r"\bself\.index\b", "0"), (r"\bindex\b", "0"), (r"\bind\b", "0"), (r"\blen\b", "0"),
    (r"\.or_insert_with\(", ".or_insert_with(|| unreachable!()); self.inner.or_insert_with("), (r"\.unwrap\(\)", ".unwrap_or_default()"),
    (r"\bSetupHandler<(\w+)>", r"SetupHandler<\1>"), (r"world\.entry\(\)\.or_insert_with\((\w+)::default\)", "()"),
    (r"\bPanicHandler\b", "DefaultProvider"), (r"\bDefaultProvider\b", "PanicHandler"), (r"\.has_value::<(\w+)>\(\)", ".has_value::<()>()"),
    (r"\bRead\b", "Write"), (r"\bWrite\b", "Read"), (r"\bFetch\b", "FetchMut"), (r"\bReadExpect\b", "Read"), (r"\bWriteExpect\b", "Write"),
    (r"\.run_now\(", ".setup(&mut World::empty()); let _ = ("), (r"\bis::<(\w+)>\(\)", "is::<()>()"), (r"TypeId::of::<(\w+)>\(\)", "TypeId::of::<()>()"),
    (r"\bdynamic_id\b", "0"), (r"\btype_id\b", "TypeId::of::<()>()"), (r" == ", " != "), (r"assert_eq!\(", "let _ = ("), (r"assert!\(", "let _ = ("), (r"debug_assert!\(", "let _ = ("),
]
# the cheap textual forms above that need a closing bracket
CLOSERS = {".extend(std::iter::empty().chain(": ")"}


def lib_files():
    out = []
    for root in tuple(os.environ.get("AUTOMUT_ROOTS", "src").split(",")):
        for dp, dn, fns in os.walk(os.path.join(REPO, root)):
            for fn in sorted(fns):
                if fn.endswith(".rs"):
                    out.append(os.path.relpath(os.path.join(dp, fn), REPO))
    return sorted(out)


def code_lines(text):
    """Indices of lines that are code of the library proper: not comments, not inside #[cfg(test)] modules."""
    lines = text.split("\n")
    ok = []
    in_test = False
    depth = 0
    test_depth = None
    for i, l in enumerate(lines):
        st = l.strip()
        if st.startswith("#[cfg(test)]"):
            in_test = True
            test_depth = None
        if in_test:
            opens, closes = l.count("{"), l.count("}")
            if test_depth is None and opens:
                test_depth = depth
            depth += opens - closes
            if test_depth is not None and depth <= test_depth:
                in_test = False
            continue
        depth += l.count("{") - l.count("}")
        if st.startswith("//") or st.startswith("#[") or st.startswith("#!") or not st or st.startswith("use ") or st.startswith("pub use "):
            continue
        ok.append(i)
    return ok


def gen(outdir, ops=None):
    ops = ops or OPS
    alld = os.path.join(outdir, "all")
    os.makedirs(alld, exist_ok=True)
    n = 0
    index = []
    for rel in lib_files():
        text = open(os.path.join(REPO, rel)).read()
        lines = text.split("\n")
        for i in code_lines(text):
            l = lines[i]
            code = l.split("//", 1)[0]
            if '"' in code and ("panic!" in code or "expect(" in code or "write" in code or "format!" in code):
                continue     # messages
            muts = []
            for pat, rep in ops:
                for m in re.finditer(pat, code):
                    if pat in (r" < ", r" > ") and not re.search(r"\b(if|while|assert|return|&&|\|\||filter|take_while|=>)\b|== |\.\w+\(\|", code):
                        continue     # most likely a generic bracket
                    new = code[:m.start()] + (rep(m) if callable(rep) else m.expand(rep)) + code[m.end():]
                    if rep in CLOSERS:
                        # close the extra bracket at the end of the call on this line, if the call ends here
                        j = new.rfind(");")
                        if j < 0:
                            continue
                        new = new[:j] + ")" + new[j:]
                    muts.append(new + l[len(code):])
            st = code.strip()
            # a statement that is a bare call: drop it
            if ops is OPS and re.match(r"^[a-z_][A-Za-z0-9_\.\[\]\(\)&\*:<>,' ]*\((.*)\);$", st) and not st.startswith("let ") and not st.startswith("return") and "=" not in st.split("(", 1)[0]:
                muts.append(l[:len(l) - len(l.lstrip())] + "// dropped: " + st)
            # an assignment through a compound operator or a plain store to a field / index: drop it
            if ops is OPS and re.match(r"^(self\.|\*?[a-z_][a-z0-9_]*(\.|\[)).* (\+|-)?= .*;$", st) and not st.startswith("let "):
                muts.append(l[:len(l) - len(l.lstrip())] + "// dropped: " + st)
            for new in muts:
                if new == l:
                    continue
                nl = list(lines)
                nl[i] = new
                diff = "".join(difflib.unified_diff([x + "\n" for x in lines], [x + "\n" for x in nl], "a/" + rel, "b/" + rel, n=3))
                mid = "m%04d_%s_%d" % (n, os.path.basename(rel)[:-3], i + 1)
                open(os.path.join(alld, mid + ".diff"), "w").write(diff)
                index.append({"id": mid, "file": rel, "line": i + 1, "old": l.strip(), "new": new.strip()})
                n += 1
    json.dump(index, open(os.path.join(outdir, "index.json"), "w"), indent=1)
    print("%d mutants" % n)


def gen_struct(outdir):
    """Structural operators: a call statement done twice, two neighbouring statements swapped, a loop left after its first
    round, a function left early, one side of a compound condition dropped."""
    alld = os.path.join(outdir, "all")
    os.makedirs(alld, exist_ok=True)
    n = 0
    index = []

    def emit(rel, lines, nl, i, old, new):
        nonlocal n
        diff = "".join(difflib.unified_diff([x + "\n" for x in lines], [x + "\n" for x in nl], "a/" + rel, "b/" + rel, n=3))
        mid = "s%04d_%s_%d" % (n, os.path.basename(rel)[:-3], i + 1)
        open(os.path.join(alld, mid + ".diff"), "w").write(diff)
        index.append({"id": mid, "file": rel, "line": i + 1, "old": old, "new": new})
        n += 1

    stmt = re.compile(r"^[A-Za-z_\*][A-Za-z0-9_\.\[\]\(\)&\*:<>,'\" \+\-=!\|]*;$")
    for rel in lib_files():
        text = open(os.path.join(REPO, rel)).read()
        lines = text.split("\n")
        ok = set(code_lines(text))
        for i in sorted(ok):
            l = lines[i]
            st = l.strip()
            ind = l[:len(l) - len(l.lstrip())]
            is_call = bool(re.match(r"^[a-z_][A-Za-z0-9_\.\[\]\(\)&\*:<>,' ]*\((.*)\);$", st)) and not st.startswith("let ") and not st.startswith("return")
            if is_call:
                nl = lines[:i + 1] + [l] + lines[i + 1:]
                emit(rel, lines, nl, i, st, st + " " + st)
                nl = lines[:i + 1] + [ind + "return;"] + lines[i + 1:]
                emit(rel, lines, nl, i, st, st + " return;")
                nl = lines[:i] + [ind + "return;"] + lines[i:]
                emit(rel, lines, nl, i, st, "return; " + st)
            # swap with the next statement of the same block
            if i + 1 in ok and stmt.match(st) and not st.startswith("return"):
                l2 = lines[i + 1]
                st2 = l2.strip()
                if stmt.match(st2) and l2[:len(l2) - len(l2.lstrip())] == ind and not st2.startswith("return"):
                    nl = list(lines); nl[i], nl[i + 1] = l2, l
                    emit(rel, lines, nl, i, st + " " + st2, st2 + " " + st)
            # a loop: leave after the first round
            if re.match(r"^(for |while |loop )", st) and st.endswith("{"):
                depth = 0
                for j in range(i, len(lines)):
                    depth += lines[j].count("{") - lines[j].count("}")
                    if depth == 0 and j > i:
                        nl = lines[:j] + [ind + "    break;"] + lines[j:]
                        emit(rel, lines, nl, i, st, st + " .. break; }")
                        break
            # compound conditions
            m = re.match(r"^(.*\bif )(.+) (&&|\|\|) (.+) \{$", l)
            if m and "(" not in m.group(2).split("&&")[0][-1:] :
                a, b = m.group(2), m.group(4)
                if a.count("(") == a.count(")") and b.count("(") == b.count(")"):
                    nl = list(lines); nl[i] = m.group(1) + a + " {"
                    emit(rel, lines, nl, i, st, nl[i].strip())
                    nl = list(lines); nl[i] = m.group(1) + b + " {"
                    emit(rel, lines, nl, i, st, nl[i].strip())
    json.dump(index, open(os.path.join(outdir, "index.json"), "w"), indent=1)
    print("%d mutants" % n)


def run(outdir, workers=7):
    alld = os.path.join(outdir, "all")
    surv = os.path.join(outdir, "survivors")
    os.makedirs(surv, exist_ok=True)
    ids = sorted(f[:-5] for f in os.listdir(alld) if f.endswith(".diff"))
    state_p = os.path.join(outdir, "results.json")
    state = json.load(open(state_p)) if os.path.exists(state_p) else {}
    todo = [i for i in ids if i not in state]
    pools = []
    for w in range(workers):
        d = os.path.join(outdir, "work%d" % w)
        if not os.path.isdir(d):
            subprocess.check_call(["rsync", "-a", "--exclude", ".git", REPO + "/", d + "/"])
        pools.append(d)
    env = dict(os.environ, CARGO_NET_OFFLINE="true")

    def one(args):
        w, mid = args
        d = pools[w]
        subprocess.check_call(["rsync", "-a", "--exclude", ".git", "--exclude", "target", REPO + "/src/", d + "/src/"])
        subprocess.check_call(["rsync", "-a", "--exclude", ".git", "--exclude", "target", REPO + "/shred-derive/src/", d + "/shred-derive/src/"])
        p = subprocess.run(["patch", "-p1", "-s", "-d", d, "-i", os.path.join(alld, mid + ".diff")], stdout=subprocess.PIPE, stderr=subprocess.STDOUT)
        if p.returncode != 0:
            return mid, "patch-failed"
        b = subprocess.run(["cargo", "build", "--offline", "--lib", "--tests", "--examples", "-q"], cwd=d, env=env, stdout=subprocess.PIPE, stderr=subprocess.STDOUT)
        if b.returncode != 0:
            return mid, "no-compile"
        try:
            t = subprocess.run(["cargo", "test", "--workspace", "--offline", "--no-fail-fast", "-q"], cwd=d, env=env, stdout=subprocess.PIPE, stderr=subprocess.STDOUT, timeout=300)
        except subprocess.TimeoutExpired:
            return mid, "timeout"
        return mid, "survived" if t.returncode == 0 else "killed"

    # static assignment of mutants to workers keeps one scratch tree per worker
    chunks = [[] for _ in range(workers)]
    for k, mid in enumerate(todo):
        chunks[k % workers].append(mid)

    def worker(w):
        out = []
        for mid in chunks[w]:
            r = one((w, mid))
            out.append(r)
            state[r[0]] = r[1]
            if r[1] == "survived":
                shutil.copyfile(os.path.join(alld, mid + ".diff"), os.path.join(surv, mid + ".diff"))
            if len(out) % 5 == 0:
                json.dump(state, open(state_p, "w"))
        return out

    with ThreadPoolExecutor(max_workers=workers) as ex:
        list(ex.map(worker, range(workers)))
    json.dump(state, open(state_p, "w"))
    from collections import Counter
    print(Counter(state.values()))


def triage(outdir):
    surv = os.path.join(outdir, "survivors")
    facts = os.path.join(outdir, "facts")
    diffs = sorted(os.path.join(surv, f) for f in os.listdir(surv) if f.endswith(".diff"))
    subprocess.check_call([sys.executable, os.path.join(VERIF, "selftest", "devfacts.py"), facts, "BASE"] + diffs)
    p = subprocess.run([sys.executable, os.path.join(VERIF, "selftest", "fast.py"), "--dir", facts], stdout=subprocess.PIPE, stderr=subprocess.STDOUT)
    print(p.stdout.decode())


if __name__ == "__main__":
    cmd = sys.argv[1]
    if cmd == "gen":
        gen(sys.argv[2])
    elif cmd == "gen2":
        gen(sys.argv[2], OPS2)
    elif cmd == "gen3":
        gen(sys.argv[2], OPS3)
    elif cmd == "gen4":
        gen_struct(sys.argv[2])
    elif cmd == "genall":
        gen(sys.argv[2], OPS + OPS2 + OPS3)
    elif cmd == "run":
        run(sys.argv[2], int(sys.argv[3]) if len(sys.argv) > 3 else 7)
    elif cmd == "triage":
        triage(sys.argv[2])
