#!/usr/bin/env python3
"""fast.py [--dir D] [name-prefix...]: run the quick rules of all 20 properties in-process against pre-extracted
default-config facts of every variant (see devfacts.py) and compare with what is expected of the variant:
breakages must fire under their own property, refactorings must stay silent everywhere.  Development aid: the
authoritative self-tests are mutate.py / recheck_seeds.py / try_refactors.py, which go through ./check."""
import importlib, json, os, sys, traceback
from multiprocessing import Pool
VERIF = os.path.dirname(os.path.dirname(os.path.abspath(__file__)))
sys.path.insert(0, VERIF)
sys.path.insert(0, os.path.join(VERIF, "selftest"))
import mutate
from shredlint.core import Ctx, Report
from shredlint.facts import load

PROPS = ["C%02d" % i for i in range(1, 21)]
DIR = "/var/tmp/devfacts"
ALL_CONFIGS = False


class FastCtx(Ctx):
    def __init__(self, f, path=None):
        Ctx.__init__(self, "quick")
        self._f = f
        self._f_path = path
        self._d = None

    @property
    def configs(self):
        if not ALL_CONFIGS:
            return ["default"]
        return ["default"] + [c for c in ("nopar", "nopar-derive", "nightly") if os.path.exists(self._f_path[:-5] + "@%s.json" % c)]

    def facts(self, config="default", crate="shred", kind="rlib"):
        if crate == "shred_derive":
            if self._d is None:
                self._d = load(self._f_path[:-5] + ".derive.json", label="default")
            return self._d
        if config != "default":
            k = "_f_" + config
            if k not in self.__dict__:
                self.__dict__[k] = load(self._f_path[:-5] + "@%s.json" % config, label=config)
            return self.__dict__[k]
        return self._f

    def all_facts(self, config):
        raise RuntimeError("fast mode: no %s facts" % config)


def run_variant(name):
    fpath = os.path.join(DIR, name + ".json")
    f = load(fpath, label="default")
    out = {}
    for prop in PROPS:
        mod = importlib.import_module("shredlint.rules.%s" % prop.lower())
        ctx = FastCtx(f, fpath)
        rep = Report(prop)
        try:
            mod.run(ctx, rep)
        except Exception as e:
            rep.ob(prop + ".CRASH", "CRASH", False, "%s: %s" % (type(e).__name__, e))
        out[prop] = [(v["key"], v["detail"][:200]) for v in rep.violations()]
    return name, out


def expectations():
    exp = {}
    for m in mutate.load():
        kind = m.get("kind", "break")
        exp[m["id"]] = ("fire", m["props"]) if kind == "break" else ("silent", PROPS)
    sd = os.path.join(VERIF, "seeded")
    for d in sorted(os.listdir(sd)):
        meta = json.load(open(os.path.join(sd, d, "meta.json")))
        prop = meta.get("property") or meta.get("breaks") or d[:3].upper()
        exp["seed-" + d] = ("fire", [prop if isinstance(prop, str) else prop[0]])
    for fn in sorted(os.listdir(os.path.join(VERIF, "selftest", "refactor_corpus"))):
        if fn.endswith(".diff"):
            exp[fn[:-5]] = ("silent", PROPS)
    # addition_corpus: substantial new public API that keeps the property (P*: by sub-agents; K*: corrected twins of added-API
    # seeds); a new mechanism is not verified by rules written for the old one - the who-may inventories report it for audit.
    # repaired seeds: behaviour-preserving, but many of them bring a new mechanism (a cache, a second data structure, another
    # algorithm) whose equivalence is a semantic argument; those listed in stress_corpus/EXPECTED_SILENT must stay silent,
    # the others are reported for information only
    for sc in (os.path.join(VERIF, "selftest", "stress_corpus"), os.path.join(VERIF, "selftest", "addition_corpus")):
      if os.path.isdir(sc):
        keep = set(open(os.path.join(sc, "EXPECTED_SILENT")).read().split()) if os.path.exists(os.path.join(sc, "EXPECTED_SILENT")) else set()
        for fn in sorted(os.listdir(sc)):
            if fn.endswith(".diff"):
                exp[fn[:-5]] = ("silent", PROPS) if fn[:-5] in keep else ("info", PROPS)
    return exp


def main(argv):
    global DIR
    args = argv[1:]
    verbose = False
    if args and args[0] == "-v":
        verbose = True
        args = args[1:]
    global ALL_CONFIGS
    if args and args[0] == "--all-configs":
        ALL_CONFIGS = True
        args = args[1:]
    if args and args[0] == "--dir":
        DIR = args[1]
        args = args[2:]
    names = sorted(fn[:-5] for fn in os.listdir(DIR) if fn.endswith(".json") and not fn.endswith(".derive.json") and "@" not in fn)
    if args:
        names = [n for n in names if any(n.startswith(a) for a in args)]
    if "BASE" not in names:
        names.append("BASE")
    exp = expectations()
    with Pool(14) as pool:
        res = dict(pool.map(run_variant, names))
    base = res["BASE"]
    base_keys = dict((p, set(k for k, _ in base[p])) for p in PROPS)
    nbase = sum(len(v) for v in base.values())
    print("BASE: %d fast-mode violation(s) (subtracted below)" % nbase)
    if verbose:
        for p in PROPS:
            for k, d in base[p]:
                print("   base", k, d[:120])
    wrong = 0
    for n in names:
        if n == "BASE":
            continue
        kind, props = exp.get(n, ("?", PROPS))
        new = dict((p, [(k, d) for k, d in res[n][p] if k not in base_keys[p]]) for p in PROPS)
        fired = [p for p in PROPS if new[p]]
        if kind == "fire":
            ok = any(p in fired for p in props)
            if not ok:
                wrong += 1
                print("MISSED   %-40s expected one of %s, fired %s" % (n, props, fired))
            elif verbose:
                print("ok       %-40s %s" % (n, fired))
        elif kind == "silent":
            if fired:
                wrong += 1
                print("ALARM    %-40s %s" % (n, fired))
                shown = set()
                for p in fired:
                    for k, d in new[p][:4]:
                        kk = k.split(".", 1)[-1] if not k.startswith(p + ".C") else k.split(".", 2)[-1]
                        if (kk, d[:80]) in shown:
                            continue
                        shown.add((kk, d[:80]))
                        print("            %s: %s" % (k, d[:170]))
            elif verbose:
                print("ok       %-40s silent" % n)
        elif kind == "info":
            print("stress   %-40s %s" % (n, ("fails closed under %s" % fired) if fired else "silent"))
        else:
            print("?        %-40s fired %s" % (n, fired))
    print("%d variant(s), %d wrong" % (len(names) - 1, wrong))
    return 1 if wrong else 0


if __name__ == "__main__":
    sys.exit(main(sys.argv))
