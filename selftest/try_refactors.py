#!/usr/bin/env python3
"""try_refactors.py <dir with refactor_*.diff>...: run all 20 quick checks against each behaviour-preserving
refactoring; every FIRED line is a false alarm to look at."""
import glob, os, re, subprocess, sys
VERIF = os.path.dirname(os.path.dirname(os.path.abspath(__file__)))
allp = ["C%02d" % i for i in range(1, 21)]
for d in sys.argv[1:]:
    for f in sorted(glob.glob(os.path.join(d, "*.diff"))):
        if os.environ.get("TRY_PREFIXES") and not os.path.basename(f).startswith(tuple(os.environ["TRY_PREFIXES"].split(","))):
            continue
        p = subprocess.run([sys.executable, os.path.join(VERIF, "selftest", "mutate.py"), "--patch", f] + allp, stdout=subprocess.PIPE, stderr=subprocess.STDOUT)
        out = p.stdout.decode()
        fired = [l for l in out.splitlines() if "FIRED" in l or l.startswith("              ")]
        print("== %s: %s" % (f, "silent" if not fired else "%d check(s) FIRED" % len([l for l in fired if "FIRED" in l])))
        for l in fired[:12]:
            print("   " + l[:260])
        if "PATCH FAILED" in out:
            print("   PATCH FAILED")
