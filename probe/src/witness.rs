//! Compile-fail witnesses for type-level clauses (run with `cargo +nightly test --doc`;
//! the stable toolchain ignores the error code).  Every witness has a compiling twin that
//! differs only in the offending line, because a witness whose path is merely wrong also
//! "fails to compile".  Nothing of shred is executed: twins are `no_run`.

/// W1 (C12): a `Dispatcher` may hold thread-local systems and is therefore not `Send`.
/// ```compile_fail,E0277
/// fn is_send<T: Send>() {}
/// is_send::<shred::Dispatcher<'static, 'static>>();
/// ```
/// ```no_run
/// fn is_send<T: Send>() {}
/// is_send::<shred::SendDispatcher<'static>>();
/// ```
pub struct W1;

/// W2 (C12, C01): a system that is not `Send` cannot be registered as an ordinary system,
/// only as a thread-local one.
/// ```compile_fail,E0277
/// use shred::*;
/// struct NonSend(std::rc::Rc<u32>);
/// impl<'a> System<'a> for NonSend { type SystemData = (); fn run(&mut self, _: ()) {} }
/// let _ = DispatcherBuilder::new().with(NonSend(std::rc::Rc::new(1)), "", &[]);
/// ```
/// ```no_run
/// use shred::*;
/// struct NonSend(std::rc::Rc<u32>);
/// impl<'a> System<'a> for NonSend { type SystemData = (); fn run(&mut self, _: ()) {} }
/// let _ = DispatcherBuilder::new().with_thread_local(NonSend(std::rc::Rc::new(1)));
/// ```
pub struct W2;

/// W3 (C16): children of a `par!` node must be `Send`; `seq!` accepts the same child.
/// ```compile_fail,E0277
/// use shred::*;
/// struct NonSend(std::rc::Rc<u32>);
/// impl<'a> System<'a> for NonSend { type SystemData = (); fn run(&mut self, _: ()) {} }
/// struct A;
/// impl<'a> System<'a> for A { type SystemData = (); fn run(&mut self, _: ()) {} }
/// fn build(pool: &rayon::ThreadPool) {
///     let mut d = ParSeq::new(par![NonSend(std::rc::Rc::new(1)), A,], pool);
///     d.dispatch(&World::empty());
/// }
/// ```
/// ```no_run
/// use shred::*;
/// struct NonSend(std::rc::Rc<u32>);
/// impl<'a> System<'a> for NonSend { type SystemData = (); fn run(&mut self, _: ()) {} }
/// struct A;
/// impl<'a> System<'a> for A { type SystemData = (); fn run(&mut self, _: ()) {} }
/// fn build(pool: &rayon::ThreadPool) {
///     let mut d = ParSeq::new(seq![NonSend(std::rc::Rc::new(1)), A,], pool);
///     d.dispatch(&World::empty());
/// }
/// ```
pub struct W3;

/// W4 (C08): a guard borrows the world; the world cannot be changed while a guard is alive.
/// ```compile_fail,E0502
/// let mut world = shred::World::empty();
/// world.insert(1u32);
/// let g = world.fetch::<u32>();
/// world.insert(2u32);
/// drop(g);
/// ```
/// ```no_run
/// let mut world = shred::World::empty();
/// world.insert(1u32);
/// let g = world.fetch::<u32>();
/// drop(g);
/// world.insert(2u32);
/// ```
pub struct W4;

/// W5 (C08): exclusive guards cannot be cloned, shared ones can.
/// ```compile_fail,E0277
/// fn is_clone<T: Clone>() {}
/// is_clone::<shred::FetchMut<'static, u32>>();
/// ```
/// ```no_run
/// fn is_clone<T: Clone>() {}
/// is_clone::<shred::Fetch<'static, u32>>();
/// ```
pub struct W5;

/// W6 (C08): a guard cannot outlive the world it borrows from.
/// ```compile_fail,E0515
/// fn f() -> shred::Fetch<'static, u32> {
///     let mut world = shred::World::empty();
///     world.insert(1u32);
///     world.fetch::<u32>()
/// }
/// ```
/// ```no_run
/// fn f() -> u32 {
///     let mut world = shred::World::empty();
///     world.insert(1u32);
///     let v = *world.fetch::<u32>();
///     v
/// }
/// ```
pub struct W6;

/// W7 (C09): with the default features a resource must be `Send + Sync`.
/// ```compile_fail,E0277
/// let mut world = shred::World::empty();
/// world.insert(std::rc::Rc::new(1u32));
/// ```
/// ```no_run
/// let mut world = shred::World::empty();
/// world.insert(std::sync::Arc::new(1u32));
/// ```
pub struct W7;

/// W8 (C15): a reference obtained from `world()` cannot be held across `dispatch()`.
/// ```compile_fail,E0499
/// use shred::*;
/// fn f(d: &mut AsyncDispatcher<'static, World>) {
///     let w = d.world_mut();
///     d.dispatch();
///     w.insert(1u32);
/// }
/// ```
/// ```no_run
/// use shred::*;
/// fn f(d: &mut AsyncDispatcher<'static, World>) {
///     let w = d.world_mut();
///     w.insert(1u32);
///     d.dispatch();
/// }
/// ```
pub struct W8;

/// W9 (C17): only types for which the trait object can be built can be registered.
/// ```compile_fail,E0277
/// use shred::*;
/// trait Object { fn f(&self) -> u32; }
/// struct Implementor;
/// impl Object for Implementor { fn f(&self) -> u32 { 1 } }
/// unsafe impl<T: Object + 'static> CastFrom<T> for dyn Object { fn cast(t: *mut T) -> *mut Self { t } }
/// struct NotAnObject;
/// let mut table = MetaTable::<dyn Object>::new();
/// table.register::<NotAnObject>();
/// ```
/// ```no_run
/// use shred::*;
/// trait Object { fn f(&self) -> u32; }
/// struct Implementor;
/// impl Object for Implementor { fn f(&self) -> u32 { 1 } }
/// unsafe impl<T: Object + 'static> CastFrom<T> for dyn Object { fn cast(t: *mut T) -> *mut Self { t } }
/// struct NotAnObject;
/// let mut table = MetaTable::<dyn Object>::new();
/// table.register::<Implementor>();
/// ```
pub struct W9;

/// W10 (C06, C01): a system's data is moved into `run`; the borrow ends when `run` returns,
/// so the guards cannot be kept by the system.
/// ```compile_fail
/// use shred::*;
/// struct Keeper<'k>(Option<Read<'k, u32>>);
/// impl<'a> System<'a> for Keeper<'a> {
///     type SystemData = Read<'a, u32>;
///     fn run(&mut self, d: Self::SystemData) { self.0 = Some(d); }
/// }
/// let _ = DispatcherBuilder::new().with(Keeper(None), "", &[]);
/// ```
/// ```no_run
/// use shred::*;
/// struct Keeper(Option<u32>);
/// impl<'a> System<'a> for Keeper {
///     type SystemData = Read<'a, u32>;
///     fn run(&mut self, d: Self::SystemData) { self.0 = Some(*d); }
/// }
/// let _ = DispatcherBuilder::new().with(Keeper(None), "", &[]);
/// ```
pub struct W10;
