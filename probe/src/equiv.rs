//! Self-test material for the structured evaluation (shredlint/sem.py).  Nothing here is executed.
//!
//! `eq_<name>_a` / `eq_<name>_b` (and `_c`) are behaviour-preserving spellings of one computation: their
//! tabulations must be identical.  `ne_<name>_a` / `ne_<name>_b` differ in behaviour: their tabulations must differ.
//! Unknown operations are the closure / function parameters, so that nothing is looked into that the test
//! does not spell out.
use std::collections::hash_map::{Entry, HashMap};

#[derive(Clone, Copy, PartialEq, Eq, Debug)]
pub enum Verdict {
    None,
    Single(usize),
    Multiple,
}

impl Verdict {
    fn add(self, g: usize) -> Verdict {
        match self {
            Verdict::None => Verdict::Single(g),
            _ => Verdict::Multiple,
        }
    }
}

// ---- filter + fold  ==  for + if
pub fn eq_fold_a<P: Fn(usize) -> bool>(n: usize, p: P) -> Verdict {
    (0..n).filter(|&g| p(g)).fold(Verdict::None, Verdict::add)
}
pub fn eq_fold_b<P: Fn(usize) -> bool>(n: usize, p: P) -> Verdict {
    let mut acc = Verdict::None;
    for g in 0..n {
        if p(g) {
            acc = acc.add(g);
        }
    }
    acc
}
pub fn eq_fold_c<P: Fn(usize) -> bool>(n: usize, p: P) -> Verdict {
    let mut acc = Verdict::None;
    let mut g = 0;
    while g < n {
        if !p(g) {
            g += 1;
            continue;
        }
        acc = Verdict::add(acc, g);
        g += 1;
    }
    acc
}
pub fn ne_fold_a<P: Fn(usize) -> bool>(n: usize, p: P) -> Verdict {
    (0..n).filter(|&g| p(g)).fold(Verdict::None, Verdict::add)
}
pub fn ne_fold_b<P: Fn(usize) -> bool>(n: usize, p: P) -> Verdict {
    let mut acc = Verdict::None;
    for g in 0..n {
        if !p(g) {
            acc = acc.add(g);
        }
    }
    acc
}

// ---- map + find + map + unwrap_or  ==  for + early return
pub fn eq_scan_a<E: Fn(usize) -> Verdict, B: Fn(usize, usize) -> bool>(lo: usize, hi: usize, eval: E, bal: B) -> Option<(usize, usize)> {
    (lo..hi)
        .map(|s| (s, eval(s)))
        .find(|&(s, v)| match v {
            Verdict::None => true,
            Verdict::Single(g) => bal(s, g),
            Verdict::Multiple => false,
        })
        .map(|(s, v)| match v {
            Verdict::None => (s, usize::MAX),
            Verdict::Single(g) => (s, g),
            Verdict::Multiple => unreachable!(),
        })
}
pub fn eq_scan_b<E: Fn(usize) -> Verdict, B: Fn(usize, usize) -> bool>(lo: usize, hi: usize, eval: E, bal: B) -> Option<(usize, usize)> {
    for s in lo..hi {
        let v = eval(s);
        if v == Verdict::None {
            return Some((s, usize::MAX));
        }
        if let Verdict::Single(g) = v {
            if bal(s, g) {
                return Some((s, g));
            }
        }
    }
    None
}
pub fn ne_scan_a<E: Fn(usize) -> Verdict, B: Fn(usize, usize) -> bool>(lo: usize, hi: usize, eval: E, bal: B) -> Option<(usize, usize)> {
    eq_scan_b(lo, hi, eval, bal)
}
pub fn ne_scan_b<E: Fn(usize) -> Verdict, B: Fn(usize, usize) -> bool>(lo: usize, hi: usize, eval: E, bal: B) -> Option<(usize, usize)> {
    // accepts a stage with several conflicts
    for s in lo..hi {
        let v = eval(s);
        match v {
            Verdict::None | Verdict::Multiple => return Some((s, usize::MAX)),
            Verdict::Single(g) => {
                if bal(s, g) {
                    return Some((s, g));
                }
            }
        }
    }
    None
}

// ---- any(any)  ==  nested loops
pub fn eq_any_a(i: &[u32], j: &[u32]) -> bool {
    i.iter().any(|a| j.iter().any(|b| b == a))
}
pub fn eq_any_b(i: &[u32], j: &[u32]) -> bool {
    for a in i.iter() {
        for b in j.iter() {
            if b == a {
                return true;
            }
        }
    }
    false
}
pub fn ne_any_a(i: &[u32], j: &[u32]) -> bool {
    eq_any_a(i, j)
}
pub fn ne_any_b(i: &[u32], j: &[u32]) -> bool {
    // only the first element of j is looked at
    for a in i.iter() {
        for b in j.iter() {
            return b == a;
        }
    }
    false
}

// ---- Option combinators  ==  match
pub fn eq_opt_a<F: Fn(u32) -> u32>(x: Option<u32>, f: F, d: u32) -> u32 {
    x.map(|v| f(v)).unwrap_or(d)
}
pub fn eq_opt_b<F: Fn(u32) -> u32>(x: Option<u32>, f: F, d: u32) -> u32 {
    match x {
        Some(v) => f(v),
        None => d,
    }
}
pub fn eq_opt_c<F: Fn(u32) -> u32>(x: Option<u32>, f: F, d: u32) -> u32 {
    if let Some(v) = x {
        return f(v);
    }
    d
}
pub fn ne_opt_a<F: Fn(u32) -> u32>(x: Option<u32>, f: F, d: u32) -> u32 {
    x.map(|v| f(v)).unwrap_or(d)
}
pub fn ne_opt_b<F: Fn(u32) -> u32>(x: Option<u32>, f: F, d: u32) -> u32 {
    match x {
        Some(v) => f(v),
        None => f(d),
    }
}

// ---- `?`  ==  match / early return
pub fn eq_try_a(m: &HashMap<u32, usize>, t: &[u64], k: u32) -> Option<u64> {
    let i = *m.get(&k)?;
    Some(t[i])
}
pub fn eq_try_b(m: &HashMap<u32, usize>, t: &[u64], k: u32) -> Option<u64> {
    m.get(&k).map(|&i| t[i])
}
pub fn eq_try_c(m: &HashMap<u32, usize>, t: &[u64], k: u32) -> Option<u64> {
    match m.get(&k) {
        Some(i) => Some(t[*i]),
        None => None,
    }
}

// ---- helper extracted  ==  inline;  !(a||b)  ==  !a && !b
fn both_clear<P: Fn(u8) -> bool>(p: &P) -> bool {
    !p(0) && !p(1)
}
pub fn eq_helper_a<P: Fn(u8) -> bool>(p: P) -> u8 {
    if !(p(0) || p(1)) {
        7
    } else {
        9
    }
}
pub fn eq_helper_b<P: Fn(u8) -> bool>(p: P) -> u8 {
    if both_clear(&p) {
        return 7;
    }
    9
}
pub fn ne_helper_a<P: Fn(u8) -> bool>(p: P) -> u8 {
    eq_helper_a(p)
}
pub fn ne_helper_b<P: Fn(u8) -> bool>(p: P) -> u8 {
    if !p(0) || !p(1) {
        7
    } else {
        9
    }
}

// ---- integer bound spelled differently
pub fn eq_bound_a<B: Fn() -> bool>(len: usize, b: B) -> bool {
    len < 4 && b()
}
pub fn eq_bound_b<B: Fn() -> bool>(len: usize, b: B) -> bool {
    if len >= 4 {
        return false;
    }
    b()
}
pub fn ne_bound_a<B: Fn() -> bool>(len: usize, b: B) -> bool {
    len < 4 && b()
}
pub fn ne_bound_b<B: Fn() -> bool>(len: usize, b: B) -> bool {
    len <= 4 && b()
}

// ---- entry API  ==  match on the entry
pub fn eq_entry_a<F: FnOnce() -> u64>(m: &mut HashMap<u32, u64>, k: u32, f: F) -> u64 {
    *m.entry(k).or_insert_with(f)
}
pub fn eq_entry_b<F: FnOnce() -> u64>(m: &mut HashMap<u32, u64>, k: u32, f: F) -> u64 {
    match m.entry(k) {
        Entry::Occupied(o) => *o.into_mut(),
        Entry::Vacant(v) => *v.insert(f()),
    }
}

// ---- flatten  ==  nested loops
pub fn eq_flat_a<F: FnMut(&u32)>(t: &[Vec<u32>], mut f: F) {
    for x in t.iter().flatten() {
        f(x);
    }
}
pub fn eq_flat_b<F: FnMut(&u32)>(t: &[Vec<u32>], mut f: F) {
    for row in t.iter() {
        for x in row.iter() {
            f(x);
        }
    }
}
pub fn eq_flat_c<F: FnMut(&u32)>(t: &[Vec<u32>], mut f: F) {
    t.iter().flat_map(|row| row.iter()).for_each(|x| f(x));
}
pub fn ne_flat_a<F: FnMut(&u32)>(t: &[Vec<u32>], f: F) {
    eq_flat_b(t, f)
}
pub fn ne_flat_b<F: FnMut(&u32)>(t: &[Vec<u32>], mut f: F) {
    for row in t.iter() {
        for x in row.iter().skip(1) {
            f(x);
        }
    }
}

// ---- fill an empty slot only
pub fn eq_slot_a<F: FnOnce() -> u64>(slot: &mut Option<u64>, f: F) {
    slot.get_or_insert_with(f);
}
pub fn eq_slot_b<F: FnOnce() -> u64>(slot: &mut Option<u64>, f: F) {
    if slot.is_none() {
        *slot = Some(f());
    }
}
pub fn ne_slot_a<F: FnOnce() -> u64>(slot: &mut Option<u64>, f: F) {
    slot.get_or_insert_with(f);
}
pub fn ne_slot_b<F: FnOnce() -> u64>(slot: &mut Option<u64>, f: F) {
    *slot = Some(f());
}

// ---- a state machine written with and without re-matching after the store
pub enum St {
    Home(u64),
    Away(u32),
}
pub fn eq_state_a<R: Fn(u32) -> u64>(s: &mut St, recv: R) -> u64 {
    if let St::Away(c) = s {
        let v = recv(*c);
        *s = St::Home(v);
    }
    match s {
        St::Home(v) => *v,
        St::Away(_) => unreachable!(),
    }
}
pub fn eq_state_b<R: Fn(u32) -> u64>(s: &mut St, recv: R) -> u64 {
    match s {
        St::Home(v) => *v,
        St::Away(c) => {
            let v = recv(*c);
            *s = St::Home(v);
            v
        }
    }
}

// ---- running maximum
pub fn eq_max_a<W: Fn(&u8) -> usize>(t: &[u8], w: W) -> usize {
    t.iter().map(|x| w(x)).max().unwrap_or(0)
}
pub fn eq_max_b<W: Fn(&u8) -> usize>(t: &[u8], w: W) -> usize {
    let mut best: Option<usize> = None;
    for x in t.iter() {
        let n = w(x);
        best = match best {
            Some(cur) if cur > n => Some(cur),
            _ => Some(n),
        };
    }
    match best {
        Some(n) => n,
        None => 0,
    }
}

// ---- a cursor: the value read before the store is not the value read after it
pub struct Cur {
    pub idx: usize,
    pub w: u32,
}
fn advance(c: &mut Cur) -> (usize, ()) {
    let i = c.idx;
    c.idx = i + 1;
    (i, ())
}
pub fn eq_snap_a<F: Fn(&u32)>(c: &mut Cur, t: &[u8], f: F) -> u8 {
    let i = c.idx;
    c.idx += 1;
    f(&c.w);
    t[i]
}
pub fn eq_snap_b<F: Fn(&u32)>(c: &mut Cur, t: &[u8], f: F) -> u8 {
    let (i, _) = advance(c);
    f(&c.w);
    t[i]
}
pub fn ne_snap_a<F: Fn(&u32)>(c: &mut Cur, t: &[u8], f: F) -> u8 {
    eq_snap_a(c, t, f)
}
pub fn ne_snap_b<F: Fn(&u32)>(c: &mut Cur, t: &[u8], f: F) -> u8 {
    c.idx += 1;
    f(&c.w);
    t[c.idx]
}

// ---- try_for_each over an infallible step  ==  for
pub fn eq_tfe_a<F: FnMut(&u8)>(t: &[u8], mut f: F) {
    for x in t {
        f(x);
    }
}
pub fn eq_tfe_b<F: FnMut(&u8)>(t: &[u8], mut f: F) {
    let _: Result<(), std::convert::Infallible> = t.iter().try_for_each(|x| {
        f(x);
        Ok(())
    });
}
pub fn eq_tfe_c<F: FnMut(&u8)>(t: &[u8], mut f: F) {
    let mut i = 0;
    while i < t.len() {
        f(&t[i]);
        i += 1;
    }
}

// ---- countdown  ==  counting up, when the body does not look at the counter
pub fn eq_count_a<F: FnMut()>(n: usize, mut f: F) {
    for _ in 0..n {
        f();
    }
}
pub fn eq_count_b<F: FnMut()>(n: usize, mut f: F) {
    let mut left = n;
    while left > 0 {
        f();
        left -= 1;
    }
}
pub fn ne_count_a<F: FnMut()>(n: usize, f: F) {
    eq_count_a(n, f)
}
pub fn ne_count_b<F: FnMut()>(n: usize, mut f: F) {
    let mut left = n;
    while left > 1 {
        f();
        left -= 1;
    }
}

// ---- a record built by literal, by later field stores, through a helper
pub struct Pair {
    pub reads: Option<u32>,
    pub writes: Option<u32>,
}
fn mk_pair(writes: Option<u32>, reads: Option<u32>) -> Pair {
    Pair { writes, reads }
}
pub fn eq_build_a(r: Option<u32>, w: Option<u32>) -> Pair {
    Pair { reads: r, writes: w }
}
pub fn eq_build_b(r: Option<u32>, w: Option<u32>) -> Pair {
    let mut p = Pair { reads: None, writes: w };
    p.reads = r;
    p
}
pub fn eq_build_c(r: Option<u32>, w: Option<u32>) -> Pair {
    mk_pair(w, r)
}
pub fn ne_build_a(r: Option<u32>, w: Option<u32>) -> Pair {
    Pair { reads: r, writes: w }
}
pub fn ne_build_b(r: Option<u32>, w: Option<u32>) -> Pair {
    mk_pair(r, w)
}

// ---- a fold over a pair  ==  a loop over two variables
pub fn eq_pairfold_a<P: Fn(usize) -> bool, Q: Fn(usize) -> bool>(n: usize, p: P, q: Q) -> (Verdict, bool) {
    let mut v = Verdict::None;
    let mut flag = false;
    for g in 0..n {
        if p(g) {
            v = Verdict::add(v, g);
        } else if q(g) {
            flag = true;
            v = Verdict::add(v, g);
        }
    }
    (v, flag)
}
pub fn eq_pairfold_b<P: Fn(usize) -> bool, Q: Fn(usize) -> bool>(n: usize, p: P, q: Q) -> (Verdict, bool) {
    (0..n).fold((Verdict::None, false), |(v, flag), g| {
        if p(g) {
            (Verdict::add(v, g), flag)
        } else if q(g) {
            (Verdict::add(v, g), true)
        } else {
            (v, flag)
        }
    })
}
pub fn ne_pairfold_a<P: Fn(usize) -> bool, Q: Fn(usize) -> bool>(n: usize, p: P, q: Q) -> (Verdict, bool) {
    eq_pairfold_a(n, p, q)
}
pub fn ne_pairfold_b<P: Fn(usize) -> bool, Q: Fn(usize) -> bool>(n: usize, p: P, q: Q) -> (Verdict, bool) {
    (0..n).fold((Verdict::None, false), |(v, flag), g| {
        if p(g) {
            (Verdict::add(v, g), true)
        } else if q(g) {
            (Verdict::add(v, g), flag)
        } else {
            (v, flag)
        }
    })
}

// ---- a loop over a list written out  ==  the statements written out
pub fn eq_lit_a<F: FnMut(u32)>(a: u32, b: u32, mut f: F) {
    f(a);
    f(b);
}
pub fn eq_lit_b<F: FnMut(u32)>(a: u32, b: u32, mut f: F) {
    for x in [a, b] {
        f(x);
    }
}
pub fn eq_lit_c<F: FnMut(u32)>(a: u32, b: u32, mut f: F) {
    for x in vec![a, b] {
        f(x);
    }
}
pub fn ne_lit_a<F: FnMut(u32)>(a: u32, b: u32, mut f: F) {
    f(a);
    f(b);
}
pub fn ne_lit_b<F: FnMut(u32)>(a: u32, b: u32, mut f: F) {
    for x in [b, a] {
        f(x);
    }
}
pub fn ne_litpush_a<F: FnMut(u32)>(a: u32, b: u32, mut f: F) {
    f(a);
}
pub fn ne_litpush_b<F: FnMut(u32)>(a: u32, b: u32, mut f: F) {
    let mut v = vec![a];
    v.push(b);
    for x in v {
        f(x);
    }
}

// ---- contains  ==  any(==)
#[derive(PartialEq, Eq, Clone, Copy)]
pub struct Key(pub u32);
pub fn eq_contains_a(t: &[Vec<Key>], x: &Key) -> bool {
    t.iter().any(|g| g.contains(x))
}
pub fn eq_contains_b(t: &[Vec<Key>], x: &Key) -> bool {
    t.iter().any(|g| g.iter().any(|e| *e == *x))
}
pub fn ne_contains_a(t: &[Vec<Key>], x: &Key) -> bool {
    t.iter().any(|g| g.contains(x))
}
pub fn ne_contains_b(t: &[Vec<Key>], x: &Key) -> bool {
    t.iter().any(|g| !g.contains(x))
}

// ---- swap with a local  ==  replace
pub fn eq_swap_a(s: &mut St, v: u32) -> St {
    std::mem::replace(s, St::Away(v))
}
pub fn eq_swap_b(s: &mut St, v: u32) -> St {
    let mut n = St::Away(v);
    std::mem::swap(s, &mut n);
    n
}

// ---- peeling a slice with split_first  ==  for
pub fn eq_peel_a<F: FnMut(&mut u8)>(t: &mut Vec<u8>, mut f: F) {
    for x in t.iter_mut() {
        f(x);
    }
}
pub fn eq_peel_b<F: FnMut(&mut u8)>(t: &mut Vec<u8>, mut f: F) {
    let mut rest = t.as_mut_slice();
    while let Some((x, tail)) = rest.split_first_mut() {
        f(x);
        rest = tail;
    }
}
pub fn ne_peel_a<F: FnMut(&mut u8)>(t: &mut Vec<u8>, mut f: F) {
    for x in t.iter_mut() {
        f(x);
    }
}
pub fn ne_peel_b<F: FnMut(&mut u8)>(t: &mut Vec<u8>, mut f: F) {
    let mut rest = t.as_mut_slice();
    while let Some((x, tail)) = rest.split_first_mut() {
        f(x);
        rest = if tail.len() > 1 { &mut tail[1..] } else { tail };
    }
}

// ---- labelled break out of nested loops  ==  any(any)  ==  flag
pub fn eq_label_a<P: Fn(&u8, &u8) -> bool>(xs: &[u8], ys: &[u8], p: P) -> bool {
    xs.iter().any(|x| ys.iter().any(|y| p(x, y)))
}
pub fn eq_label_b<P: Fn(&u8, &u8) -> bool>(xs: &[u8], ys: &[u8], p: P) -> bool {
    let mut found = false;
    'outer: for x in xs {
        for y in ys {
            if p(x, y) {
                found = true;
                break 'outer;
            }
        }
    }
    found
}
pub fn eq_label_c<P: Fn(&u8, &u8) -> bool>(xs: &[u8], ys: &[u8], p: P) -> bool {
    for x in xs {
        for y in ys {
            if p(x, y) {
                return true;
            }
        }
    }
    false
}
pub fn ne_label_a<P: Fn(&u8, &u8) -> bool>(xs: &[u8], ys: &[u8], p: P) -> bool {
    xs.iter().any(|x| ys.iter().any(|y| p(x, y)))
}
pub fn ne_label_b<P: Fn(&u8, &u8) -> bool>(xs: &[u8], ys: &[u8], p: P) -> bool {
    let mut found = false;
    for x in xs {
        for y in ys {
            if p(x, y) {
                found = true;
                break;
            }
        }
    }
    found
}

// ---- match with guards  ==  nested if
pub fn eq_guard_a<P: Fn(usize) -> bool>(v: Verdict, p: P) -> u8 {
    match v {
        Verdict::None => 0,
        Verdict::Single(g) if p(g) => 1,
        Verdict::Single(_) | Verdict::Multiple => 2,
    }
}
pub fn eq_guard_b<P: Fn(usize) -> bool>(v: Verdict, p: P) -> u8 {
    if let Verdict::None = v {
        return 0;
    }
    if let Verdict::Single(g) = v {
        if p(g) {
            return 1;
        }
    }
    2
}
pub fn ne_guard_a<P: Fn(usize) -> bool>(v: Verdict, p: P) -> u8 {
    eq_guard_a(v, p)
}
pub fn ne_guard_b<P: Fn(usize) -> bool>(v: Verdict, p: P) -> u8 {
    match v {
        Verdict::None => 0,
        Verdict::Single(g) if !p(g) => 1,
        _ => 2,
    }
}

// ---- and_then / filter / map chains  ==  nested matches
pub fn eq_chain_a<F: Fn(u32) -> Option<u32>, P: Fn(&u32) -> bool>(x: Option<u32>, f: F, p: P) -> u32 {
    x.and_then(|v| f(v)).filter(|v| p(v)).map(|v| v + 1).unwrap_or(0)
}
pub fn eq_chain_b<F: Fn(u32) -> Option<u32>, P: Fn(&u32) -> bool>(x: Option<u32>, f: F, p: P) -> u32 {
    let v = match x {
        Some(v) => v,
        None => return 0,
    };
    match f(v) {
        Some(w) if p(&w) => w + 1,
        _ => 0,
    }
}

// ---- a record taken apart and put together again  ==  the record
pub fn eq_eta_a<F: FnOnce(Pair)>(p: Pair, f: F) {
    f(p)
}
pub fn eq_eta_b<F: FnOnce(Pair)>(p: Pair, f: F) {
    let Pair { reads, writes } = p;
    f(Pair { reads, writes })
}
pub fn ne_eta_a<F: FnOnce(Pair)>(p: Pair, f: F) {
    f(p)
}
pub fn ne_eta_b<F: FnOnce(Pair)>(p: Pair, f: F) {
    let Pair { reads, writes } = p;
    f(Pair { reads: writes, writes: reads })
}
