//! Probe crate of the /verif static checker.  Nothing here is ever executed:
//! the crate is only type-checked (`cargo +nightly check` under the fact
//! extractor, `cargo +nightly test --doc` for the witnesses).
//!
//! * `corpus`   - `#[derive(SystemData)]` inputs whose *expanded impls* are analysed by the C06 rules
//! * `positive` - one matching construct for every zero-count rule ("no catch_unwind in the crate", ...);
//!                the same scanner must find it here on every run, or the rule is broken
//! * `equiv`    - pairs of equivalent / inequivalent spellings: self-test of the structured evaluation (selftest/engine_equiv.py)
//! * `witness`  - compile-fail witnesses for type-level clauses, each paired with a compiling twin
#![allow(dead_code, unused_variables, clippy::all)]

pub mod corpus;
pub mod equiv;
pub mod positive;
pub mod witness;
