//! One positive example per zero-count rule.  Never called.
use shred::cell::AtomicRefCell;
use shred::{Read, ResourceId, World};
use std::collections::HashMap;

#[derive(Default)]
pub struct Res;

pub fn swallow_catch_unwind() {
    let _ = std::panic::catch_unwind(|| ());
}

pub fn swallow_resume_unwind(p: Box<dyn std::any::Any + Send>) {
    std::panic::resume_unwind(p);
}

pub fn swallow_thread(f: impl FnOnce() + Send) {
    std::thread::scope(|s| {
        let h = std::thread::Builder::new().spawn_scoped(s, f).unwrap();
        h.join().ok();
    });
}

pub fn swallow_hook() {
    let _ = std::panic::take_hook();
}

pub fn leak_guard_forget(world: &World) {
    let g = world.fetch::<Res>();
    std::mem::forget(g);
}

pub fn leak_guard_manually_drop(world: &World) {
    let g: Read<Res> = world.fetch::<Res>().into();
    let _ = std::mem::ManuallyDrop::new(g);
}

pub fn leak_guard_box(world: &World) {
    let g = Box::new(world.fetch_mut::<Res>());
    let _ = Box::leak(g);
}

pub fn launder_guard<'a>(world: &'a World) -> &'a Res {
    let g = world.fetch::<Res>();
    let p: *const Res = &*g;
    unsafe { &*p }
}

pub fn launder_guard_transmute<'a>(world: &'a World) -> &'a Res {
    let g = world.fetch::<Res>();
    unsafe { std::mem::transmute::<&Res, &'a Res>(&*g) }
}

unsafe fn extend_lifetime<'a, 'b, T>(r: &'a T) -> &'b T {
    &*(r as *const T)
}

pub fn launder_guard_helper<'a>(world: &'a World) -> &'a Res {
    let g = world.fetch::<Res>();
    unsafe { extend_lifetime(&*g) }
}

pub fn cap_threads() -> rayon::ThreadPool {
    rayon::ThreadPoolBuilder::new().num_threads(1).build().unwrap()
}

pub fn hash_iteration(m: &HashMap<String, usize>) -> usize {
    let mut n = 0;
    for (_, v) in m.iter() {
        n += *v;
    }
    for k in m.keys() {
        n += k.len();
    }
    n
}

pub fn order_on_ids(a: &ResourceId, b: &ResourceId, v: &mut Vec<ResourceId>) -> bool {
    let lt = a < b;
    let _ = v.binary_search(a);
    let _ = v.iter().max();
    lt
}

pub fn hash_on_ids(a: &ResourceId) -> u64 {
    use std::hash::{Hash, Hasher};
    let mut h = std::collections::hash_map::DefaultHasher::new();
    a.hash(&mut h);
    h.finish()
}

pub fn env_sources() -> usize {
    let t = std::time::Instant::now();
    let id = std::thread::current().id();
    let v = std::env::var("X").map(|s| s.len()).unwrap_or(0);
    let x = 5u8;
    let addr = &x as *const u8 as usize;
    let _ = (t, id);
    v + addr
}

pub fn bypass_cell(c: &AtomicRefCell<u32>) -> *mut u32 {
    c.as_ptr()
}

pub fn panic_constructs(v: &[u32], o: Option<u32>, m: &HashMap<u32, u32>) -> u32 {
    let a = v[3];
    let b = o.unwrap();
    let c = m[&1];
    if a > b {
        panic!("boom");
    }
    a + b + c
}

pub fn write_lock(l: &std::sync::RwLock<u32>) -> u32 {
    *l.write().unwrap()
}

pub fn rev_loop(v: &mut Vec<u32>) {
    for x in v.iter_mut().rev() {
        *x += 1;
    }
    for x in v.iter_mut().skip(1) {
        *x += 1;
    }
    for x in v.iter_mut() {
        if *x > 3 {
            break;
        }
    }
}

/// Expansions of the `par!` / `seq!` macros (C16.MACRO): the macros are `macro_rules!` and only
/// exist as MIR where they are used.
pub fn macro_par3<A, B, C>(a: A, b: B, c: C) -> impl Sized
where
    A: for<'x> shred::RunWithPool<'x> + Send,
    B: for<'x> shred::RunWithPool<'x> + Send,
    C: for<'x> shred::RunWithPool<'x> + Send,
{
    shred::par![a, b, c,]
}

pub fn macro_seq3<A, B, C>(a: A, b: B, c: C) -> impl Sized
where
    A: for<'x> shred::RunWithPool<'x>,
    B: for<'x> shred::RunWithPool<'x>,
    C: for<'x> shred::RunWithPool<'x>,
{
    shred::seq![a, b, c,]
}
