use shred::{Read, ReadExpect, Resource, ResourceId, SystemData, World, Write, WriteExpect};
use std::marker::PhantomData;

#[derive(Default)]
pub struct R1;
#[derive(Default)]
pub struct R2(pub u64);
#[derive(Default)]
pub struct R3(pub [u8; 32]);
#[derive(Default)]
pub struct R4;
#[derive(Default)]
pub struct R5;
#[derive(Default)]
pub struct R6;
#[derive(Default)]
pub struct R7;
#[derive(Default)]
pub struct R8;

#[derive(SystemData)]
pub struct D1<'a> {
    a: Read<'a, R1>,
}

#[derive(SystemData)]
pub struct D2<'a> {
    a: Read<'a, R1>,
    b: Write<'a, R2>,
}

#[derive(SystemData)]
pub struct D3<'a> {
    a: Write<'a, R1>,
    b: Option<Read<'a, R2>>,
    c: Option<Write<'a, R3>>,
}

#[derive(SystemData)]
pub struct D8<'a> {
    a: Read<'a, R1>,
    b: Write<'a, R2>,
    c: Option<Read<'a, R3>>,
    d: Option<Write<'a, R4>>,
    e: ReadExpect<'a, R5>,
    f: WriteExpect<'a, R6>,
    g: PhantomData<R7>,
    h: (),
}

#[derive(SystemData)]
pub struct T1<'a>(Read<'a, R1>);

#[derive(SystemData)]
pub struct T3<'a>(Read<'a, R1>, Write<'a, R2>, Option<Write<'a, R3>>);

#[derive(SystemData)]
pub struct G1<'a, T: Resource + Default> {
    a: Read<'a, T>,
    b: Write<'a, R1>,
}

#[derive(SystemData)]
pub struct G2<'a, T>
where
    T: Resource + Default,
{
    a: Write<'a, T>,
    b: Option<Read<'a, R2>>,
}

#[derive(SystemData)]
pub struct G3<'a, A: SystemData<'a>, B>
where
    B: SystemData<'a>,
{
    a: A,
    b: B,
    c: PhantomData<&'a ()>,
}

/// nested derived types, depth 2 and 3, with a tuple member
#[derive(SystemData)]
pub struct N1<'a> {
    inner: D2<'a>,
    c: Read<'a, R3>,
}

#[derive(SystemData)]
pub struct N2<'a> {
    inner: N1<'a>,
    t: (Read<'a, R4>, Write<'a, R5>),
    o: Option<Read<'a, R6>>,
}

/// extra lifetime besides the fetch lifetime
#[derive(SystemData)]
pub struct L2<'a, 'b: 'a> {
    a: Read<'a, R1>,
    p: PhantomData<&'b R2>,
}

/// the same member type twice
#[derive(SystemData)]
pub struct Same<'a> {
    a: Read<'a, R1>,
    b: Read<'a, R1>,
    c: Write<'a, R2>,
}

/// members that borrow nothing
#[derive(SystemData)]
pub struct U<'a> {
    u: (),
    p: PhantomData<R1>,
    q: PhantomData<&'a R2>,
}

#[derive(SystemData)]
pub struct TupleNested<'a>((Read<'a, R1>, (Write<'a, R2>, Option<Read<'a, R3>>)), T1<'a>);

/// wide inputs: a macro bug that depends on the number or position of fields shows here
#[derive(SystemData)]
pub struct D12<'a> {
    f0: Read<'a, R1>,
    f1: Write<'a, R2>,
    f2: Option<Read<'a, R3>>,
    f3: Option<Write<'a, R4>>,
    f4: ReadExpect<'a, R5>,
    f5: PhantomData<R6>,
    f6: Read<'a, R7>,
    f7: Write<'a, R8>,
    f8: Option<Read<'a, R1>>,
    f9: Option<Write<'a, R2>>,
    f10: ReadExpect<'a, R3>,
    f11: PhantomData<R4>,
}

#[derive(SystemData)]
pub struct D26<'a> {
    f0: Read<'a, R1>,
    f1: Write<'a, R2>,
    f2: Option<Read<'a, R3>>,
    f3: Option<Write<'a, R4>>,
    f4: ReadExpect<'a, R5>,
    f5: PhantomData<R6>,
    f6: Read<'a, R7>,
    f7: Write<'a, R8>,
    f8: Option<Read<'a, R1>>,
    f9: Option<Write<'a, R2>>,
    f10: ReadExpect<'a, R3>,
    f11: PhantomData<R4>,
    f12: Read<'a, R5>,
    f13: Write<'a, R6>,
    f14: Option<Read<'a, R7>>,
    f15: Option<Write<'a, R8>>,
    f16: ReadExpect<'a, R1>,
    f17: PhantomData<R2>,
    f18: Read<'a, R3>,
    f19: Write<'a, R4>,
    f20: Option<Read<'a, R5>>,
    f21: Option<Write<'a, R6>>,
    f22: ReadExpect<'a, R7>,
    f23: PhantomData<R8>,
    f24: Read<'a, R1>,
    f25: Write<'a, R2>,
}

#[derive(SystemData)]
pub struct T9<'a>(
    Read<'a, R1>,
    PhantomData<R2>,
    ReadExpect<'a, R3>,
    Option<Write<'a, R4>>,
    Option<Read<'a, R5>>,
    Write<'a, R6>,
    Read<'a, R7>,
    PhantomData<R8>,
    ReadExpect<'a, R1>,
);


/// a type parameter used directly as a field type, instantiated with borrowing data by the user
#[derive(SystemData)]
pub struct Extra<'a, T: SystemData<'a>> {
    base: Read<'a, R1>,
    extra: T,
}

pub fn instantiate_extra<'a>(w: &'a World) -> Extra<'a, (Write<'a, R2>, Option<Read<'a, R3>>)> {
    SystemData::fetch(w)
}
