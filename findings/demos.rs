// Demonstrations of the defects found by the static rules (triage only; no
// check executes this).  Copy to <worktree>/tests/verif_demos.rs and run
// `cargo test --offline --test verif_demos`.  Each test fails on the pinned
// tree (4b9251c) and passes after the corresponding `fix:` commit; `kf1_*`
// documents the known finding KF1 and fails on both.
use shred::*;
use std::sync::atomic::{AtomicUsize, Ordering};
use std::sync::Arc;

struct Counting(Arc<AtomicUsize>);
impl<'a> System<'a> for Counting {
    type SystemData = ();
    fn run(&mut self, _: ()) {}
    fn dispose(self, _: &mut World) {
        self.0.fetch_add(1, Ordering::SeqCst);
    }
}

struct Ctl;
impl<'a, 'b, 'c> BatchController<'a, 'b, 'c> for Ctl {
    type BatchSystemData = ();
    fn run(&mut self, world: &'c World, d: &mut Dispatcher<'a, 'b>) {
        d.dispatch(world);
    }
}

// D1 (C13): systems inside a batch are never disposed.
#[test]
fn d1_batch_members_are_disposed() {
    let outer = Arc::new(AtomicUsize::new(0));
    let inner = Arc::new(AtomicUsize::new(0));
    let d = DispatcherBuilder::new()
        .with(Counting(outer.clone()), "outer", &[])
        .with_batch(Ctl, DispatcherBuilder::new().with(Counting(inner.clone()), "inner", &[]), "batch", &[])
        .build();
    let mut world = World::empty();
    d.dispose(&mut world);
    assert_eq!(outer.load(Ordering::SeqCst), 1);
    assert_eq!(inner.load(Ordering::SeqCst), 1, "system inside the batch was not disposed");
}

struct Nop;
impl<'a> System<'a> for Nop {
    type SystemData = ();
    fn run(&mut self, _: ()) {}
}

// D2 (C20): formatting a builder with an unnamed system panics.
#[test]
fn d2_debug_of_unnamed_system_does_not_panic() {
    let b = DispatcherBuilder::new().with(Nop, "", &[]).with(Nop, "named", &[]);
    let text = format!("{:?}", b);
    assert!(text.contains("named"));
    assert_eq!(text.matches("seq![").count(), 1 + 2, "{}", text);
}

fn stages_of(text: &str) -> usize {
    text.matches("par![").count()
}

// D3 (C10): a dependency on a system in front of a barrier forces a stage of its own.
#[test]
fn d3_dependency_before_barrier_does_not_serialise() {
    let with_deps = DispatcherBuilder::new()
        .with(Nop, "a", &[])
        .with_barrier()
        .with(Nop, "x", &["a"])
        .with(Nop, "y", &["a"]);
    let without = DispatcherBuilder::new()
        .with(Nop, "a", &[])
        .with_barrier()
        .with(Nop, "x", &[])
        .with(Nop, "y", &[]);
    assert_eq!(stages_of(&format!("{:?}", without)), 2);
    assert_eq!(stages_of(&format!("{:?}", with_deps)), 2, "{:?}", with_deps);
}

// D4 (C10): a dependency named twice forces a new stage.
#[test]
fn d4_duplicate_dependency_does_not_serialise() {
    let dup = DispatcherBuilder::new()
        .with(Nop, "a", &[])
        .with(Nop, "b", &["a"])
        .with(Nop, "c", &["a", "a"]);
    let single = DispatcherBuilder::new()
        .with(Nop, "a", &[])
        .with(Nop, "b", &["a"])
        .with(Nop, "c", &["a"]);
    assert_eq!(stages_of(&format!("{:?}", single)), 2);
    assert_eq!(stages_of(&format!("{:?}", dup)), 2, "{:?}", dup);
}

// KF1 (C12): a thread-local system of a builder passed to with_batch runs on a pool worker.
struct WhereAmI(Arc<std::sync::Mutex<Option<std::thread::ThreadId>>>);
impl<'a> RunNow<'a> for WhereAmI {
    fn run_now(&mut self, _: &'a World) {
        *self.0.lock().unwrap() = Some(std::thread::current().id());
    }
    fn setup(&mut self, _: &mut World) {}
}

#[test]
fn kf1_thread_local_inside_batch_runs_on_caller() {
    let seen = Arc::new(std::sync::Mutex::new(None));
    let mut d = DispatcherBuilder::new()
        .with_batch(Ctl, DispatcherBuilder::new().with_thread_local(WhereAmI(seen.clone())), "batch", &[])
        .build();
    let world = World::empty();
    d.dispatch(&world);
    assert_eq!(*seen.lock().unwrap(), Some(std::thread::current().id()), "thread-local system ran on a pool worker");
}
