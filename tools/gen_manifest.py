#!/usr/bin/env python3
"""Regenerates /verif/MANIFEST.json from the rule modules that exist."""
import importlib
import json
import os
import sys

VERIF = os.path.dirname(os.path.dirname(os.path.abspath(__file__)))
sys.path.insert(0, VERIF)

LEVEL_TEXT = {}
NOT_APPLICABLE = {}

checks = []
na = []
for i in range(1, 21):
    pid = "C%02d" % i
    path = os.path.join(VERIF, "shredlint", "rules", pid.lower() + ".py")
    if not os.path.exists(path):
        na.append({"property_id": pid, "reason": NOT_APPLICABLE.get(pid, "static check not built yet in this round (see DESIGN.md section 4 for the planned clauses)")})
        continue
    mod = importlib.import_module("shredlint.rules." + pid.lower())
    checks.append({
        "property_id": pid,
        "quick_cmd": "./check %s --tier quick" % pid,
        "thorough_cmd": "./check %s --tier thorough" % pid,
        "evidence_file": "/verif/evidence/%s.json" % pid,
        "replay_cmd_template": "./check %s --explain {path}" % pid,
        "engine": "shredlint",
        "level_claimed": {
            "category": "other",
            "text": mod.EXPLANATION,
            "design_ref": "DESIGN.md section 4, " + pid,
        },
        "level_note": "Trusted: " + "; ".join(mod.TRUSTED) + ". Assumed: " + "; ".join(mod.ASSUMPTIONS),
        "technique": getattr(mod, "TECHNIQUE", "static analysis of type-checked MIR (rustc_private fact extractor + call-cone / dominator / path-count / value-origin rules)"),
    })

manifest = {
    "version": 1,
    "setup_cmd": "cd /verif/driver && CARGO_NET_OFFLINE=true cargo +nightly build --release --offline",
    "hooks": {
        "guard": "none (static analysis needs no instrumentation; /repo carries no hook)",
        "enable": "checks run `cargo +nightly check` on /repo's working tree with RUSTC_WORKSPACE_WRAPPER=/verif/driver/target/release/shred-facts; no cfg flag or feature is added",
        "baseline_off_cmd": "cd /repo && cargo test --workspace --no-fail-fast --offline",
        "source_commits": [],
        "add_only": True,
    },
    "engines": [
        {"name": "shred-facts", "path": "/verif/driver", "serves_properties": [c["property_id"] for c in checks],
         "kind_free_text": "rustc_private driver: dumps MIR with resolved callees, items, auto-trait obligations as JSON (nothing of shred is executed)"},
        {"name": "shredlint", "path": "/verif/shredlint", "serves_properties": [c["property_id"] for c in checks],
         "kind_free_text": "python3 stdlib: CFG/dominators/path counting, value terms and interprocedural origins, decision tables, traversal classifier, per-property rule modules"},
    ],
    "checks": checks,
    "not_applicable": na,
    "notes": "All checks are static: they decide structural clauses of each property from the type-checked program and say in their evidence which part of the statement is not decided. Known findings: /verif/known_findings.json. Quick and thorough both analyse all four feature configurations of /repo (default, no parallel, no parallel + derive, nightly); thorough adds the engine self-test, the derive expansions of /repo's own tests / examples / benches and the compile_fail witnesses. Who-may inventories fail closed on a second mechanism (a new owner of the plan tables, a new pool crossing, a new unsafe caller): DESIGN.md 13.9.",
}
with open(os.path.join(VERIF, "MANIFEST.json"), "w") as f:
    json.dump(manifest, f, indent=1)
print("MANIFEST.json: %d checks, %d not_applicable" % (len(checks), len(na)))
