"""C06: declared access equals real borrows for every provided system-data type."""
import re

from . import anchors as A
from . import shared as S
from .facts import Callee, AnchorError
from .paths import enumerate_paths
from .terms import subterms

SHARED_PRIMS = set(["fetch", "try_fetch", "try_fetch_by_id"])
EXCL_PRIMS = set(["fetch_mut", "try_fetch_mut", "try_fetch_mut_by_id", "entry"])
OTHER_WORLD_ACCESS = set(["get_mut", "get_mut_raw", "insert", "insert_by_id", "remove", "remove_by_id", "try_fetch_internal", "exec", "system_data"])
METHODS = ("setup", "fetch", "reads", "writes")


def nolt(s):
    """Erase lifetimes from a type string."""
    if s is None:
        return None
    s = re.sub(r"'[a-zA-Z_][a-zA-Z0-9_]*\b", "'_", s)
    s = s.replace("<'_, ", "<").replace("<'_>", "").replace("&'_ ", "&").replace("'_, ", "").replace(" + '_", "")
    return s


def sysdata_impls(facts):
    """impl key -> (impl fact, {method name: body})."""
    out = {}
    for im in facts.impls:
        if im.get("trait") != A.T_SYSDATA:
            continue
        out[im["key"]] = (im, {})
    for b in facts.bodies.values():
        if b.trait == A.T_SYSDATA and b.container == "trait_impl":
            k = b.raw.get("impl")
            if k in out:
                out[k][1][b.name] = b
    return out


def classify(facts, im):
    st = im["self_ty"]
    head = im["self_head"]
    if isinstance(head, str) and head.startswith("tuple:") and head != "tuple:0":
        return "tuple"
    expn = im["span"].get("expn") or ""
    if "Derive" in expn and "SystemData" in expn:
        return "derive"
    return "leaf"


def member_types(facts, im, kind):
    if kind == "tuple":
        return [g["name"] for g in im["generics"] if g["kind"] == "ty"]
    adt = facts.adts.get(im["self_head"]) if isinstance(im["self_head"], str) else None
    if adt is None:
        raise AnchorError("derived impl for unknown ADT %s" % (im["self_head"],))
    return [f["ty"] for f in adt["variants"][0]["fields"]]


def composite(ctx, report, rule, facts, config, im, bodies, kind, label, methods=METHODS):
    """C06.TUPLE / C06.DERIVE: each of the four methods delegates to the
    same-named method of every member exactly once on every path, and the
    results of reads/writes are appended to the returned vector."""
    prog = ctx.program(facts)
    members = [nolt(m) for m in member_types(facts, im, kind)]
    n = 0
    for m in methods:
        b = bodies.get(m)
        inst = "%s/%s" % (label, m)
        if b is None:
            report.ob(rule, inst, False, "method %s missing" % m, config=config)
            continue
        report.touched(b, config)
        n += 1
        problems = []
        from . import semq as Q
        from .worldrules import _deep_all
        try:
            world_api = sorted(x.key for x in facts.bodies.values() if not x.is_closure and x.self_head == A.WORLD and x.container == "inherent")
            ev, ends = Q.sem(ctx, facts, b, opaque=world_api)
        except Exception as e_:
            report.ob(rule, inst, False, "cannot tabulate %s (%s)" % (b.qname, type(e_).__name__), site=b.loc(), config=config)
            continue
        paths = [e for e in ends if e.kind == "return"]
        if not paths:
            problems.append("no returning path")
        for p in paths:
            allc = [x for x in _deep_all(p.path.events) if x[0] == "call"]
            ret0 = Q.strip(ev, p.ret) if p.ret is not None else None
            own = _collected_into(ev, p, ret0) if m in ("reads", "writes") else set()
            if [x for x in p.path.events if x[0] == "loop" and not (own and x[1].kind == "model:collect" and ret0[0] == "call" and x[1].site == ret0[1])]:
                problems.append("`%s` loops" % m)
            calls = [x for x in allc if x[2].trait == A.T_SYSDATA and x[2].container == "trait"]
            same = [x for x in calls if x[2].name == m]
            other = [x for x in calls if x[2].name != m]
            if other:
                problems.append("`%s` calls a member's `%s`" % (m, other[0][2].name))
            got = sorted(nolt(ev.self_arg(x[4])) for x in same)
            if got != sorted(members):
                missing = list(members)
                for g in got:
                    if g in missing:
                        missing.remove(g)
                extra = list(got)
                for g in members:
                    if g in extra:
                        extra.remove(g)
                problems.append("`%s` delegates to %d member(s) but the type has %d: missing %s%s" % (
                    m, len(got), len(members), missing, (", unexpected %s" % extra) if extra else ""))
                continue
            if m in ("reads", "writes"):
                ret = Q.strip(ev, p.ret)
                # every delegated result is appended to the returned vector
                appended = set()
                for x in allc:
                    if x[2].name in ("append", "extend", "extend_from_slice") and not x[2].local and len(x[3]) == 2:
                        if Q.strip(ev, x[3][0]) == ret:
                            v = Q.strip(ev, x[3][1], extra=("into_iter",))
                            if isinstance(v, tuple) and v[0] == "call":
                                appended.add(v[1])
                appended |= _collected_into(ev, p, ret)
                for x in same:
                    if x[1] not in appended:
                        problems.append("the %s of member %s are computed but not appended to the returned vector" % (m, nolt(ev.self_arg(x[4]))))
            elif m == "fetch":
                used = set(s_[1] for s_ in subterms(p.ret) if s_[0] == "call")
                for x in same:
                    if x[1] not in used:
                        problems.append("member %s is fetched but not part of the returned value" % nolt(ev.self_arg(x[4])))
            elif m == "setup":
                for x in same:
                    if tuple(Q.strip(ev, a) for a in x[3]) != (("param", 1),):
                        problems.append("member setup is not given the world")
            # no direct world access in a composite
            for x in allc:
                if x[2].local and x[2].self_head == A.WORLD:
                    problems.append("composite `%s` touches the world directly through World::%s" % (m, x[2].name))
        report.ob(rule, inst, not problems, "; ".join(sorted(set(problems))) if problems else
                  "%d member(s), each delegated to exactly once" % len(members), site=b.loc(), config=config)
    return n


def _collected_into(ev, end, ret):
    """Sites of the calls whose whole result ends up in the collection `ret` because `ret` is collected from them: the
    leaves of a chain that is collected without filtering, or the elements of a written-out list that is flattened."""
    from . import semq as Q
    out = set()
    if not (isinstance(ret, tuple) and ret and ret[0] == "call"):
        return out
    loops = [L for L in Q.all_loops([end]) if L.kind == "model:collect" and L.site == ret[1]]
    tops = [L for L in loops if not (isinstance(L.source, tuple) and L.source[:1] == ("elem",))]
    if len(tops) != 1:
        return out
    L = tops[0]
    if L.stages or not Q.is_full(L):
        return out

    def plain_yield(M, it):
        ys = [x for x in it.path.events if x[0] == "yield" and x[1] == ret[1]]
        others = [x for x in it.path.events if x[0] in ("call", "loop", "store")]
        return len(ys) == 1 and not others and ys[0][2] == M.elem

    conts = [it for it in L.iters if it.end == "continue"]
    if conts and all(plain_yield(L, it) for it in conts):
        # every element of every leaf is taken
        for lf in Q.leaves(ev, L.source):
            lf = Q.strip(ev, lf, extra=("into_iter",))
            if isinstance(lf, tuple) and lf and lf[0] == "call":
                out.add(lf[1])
        return out
    # flatten: every element of every element
    ok = bool(conts)
    for it in conts:
        inner = [x for x in it.path.events if x[0] == "loop"]
        others = [x for x in it.path.events if x[0] in ("call", "store", "yield")]
        if len(inner) != 1 or others:
            ok = False
            break
        M = inner[0][1]
        if Q.strip(ev, M.source, extra=("into_iter",)) != L.elem or M.stages or not Q.is_full(M):
            ok = False
            break
        mc = [j for j in M.iters if j.end == "continue"]
        if not mc or not all(plain_yield(M, j) for j in mc):
            ok = False
            break
    if ok:
        src = Q.strip(ev, L.source, extra=("into_iter",))
        if isinstance(src, tuple) and src and src[0] == "agg" and src[1] in ("veclit", "array") and src not in ev.tainted_literals:
            for el in src[3]:
                el = Q.strip(ev, el, extra=("into_iter",))
                if isinstance(el, tuple) and el and el[0] == "call":
                    out.add(el[1])
    return out


def leaf(ctx, report, rule, facts, config, im, bodies, label):
    """C06.LEAF: ids reported by reads()/writes() = resources borrowed shared / exclusively by fetch()."""
    prog = ctx.program(facts)
    site = "%s:%d" % (im["span"]["file"], im["span"]["line"])
    decl = {}
    for m in ("reads", "writes"):
        b = bodies.get(m)
        if b is None:
            report.ob(rule, "%s/%s" % (label, m), False, "method missing", site=site, config=config)
            return
        report.touched(b, config)
        from . import semq as Q
        from .worldrules import _deep_all
        ids = []
        problems = []
        ctors = [x.key for x in facts.bodies.values() if not x.is_closure and x.self_head == A.RESID and x.name in ("new", "new_with_dynamic_id", "from_type_id", "from_type_id_and_dynamic_id")]
        try:
            ev, ends = Q.sem(ctx, facts, b, opaque=ctors)
        except Exception as e_:
            report.ob(rule, "%s/%s" % (label, m), False, "cannot tabulate %s (%s)" % (b.qname, type(e_).__name__), site=b.loc(), config=config)
            decl[m] = None
            continue
        rets = [e for e in ends if e.kind == "return"]
        if len(rets) != 1:
            problems.append("%s has %d returning paths (expected one: the declared set must not depend on anything)" % (m, len(rets)))
        for e in rets[:1]:
            evs = _deep_all(e.path.events)
            in_ret = set(s_ for s_ in subterms(e.ret) if s_[0] == "call")
            stored = set()
            for x in evs:
                if x[0] == "store" and x[2][0] != "cell":
                    base = x[2]
                    while isinstance(base, tuple) and base[0] in ("field", "cast", "index", "variant"):
                        base = base[1] if base[0] != "cast" else base[2]
                    if base in in_ret or Q.strip(ev, base) in in_ret:
                        stored |= set(s_ for s_ in subterms(x[3]) if s_[0] == "call")
                elif x[0] == "call" and not x[2].local and x[2].name in ("push", "extend", "append", "insert", "extend_from_slice") and len(x[3]) >= 2 and Q.strip(ev, x[3][0]) in in_ret | set([Q.strip(ev, e.ret)]):
                    stored |= set(s_ for a in x[3][1:] for s_ in subterms(a) if s_[0] == "call")
                elif x[0] == "yield" and ("call", x[1], ()) [:2] == Q.strip(ev, e.ret)[:2]:
                    stored |= set(s_ for s_ in subterms(x[2]) if s_[0] == "call")
            for x in evs:
                if x[0] != "call":
                    continue
                c = x[2]
                if c.self_head == A.RESID and c.name in ("new", "new_with_dynamic_id", "from_type_id", "from_type_id_and_dynamic_id"):
                    if c.name != "new":
                        problems.append("declares a dynamic id through %s" % c.name)
                    targs = [nolt(a) for a in (ev.targs(x[4]) or [])]
                    if x[4] in in_ret or x[4] in stored:
                        ids.extend(targs)
                    else:
                        problems.append("ResourceId::new::<%s>() is computed but does not reach the returned vector" % ",".join(targs))
                elif c.trait == A.T_SYSDATA:
                    problems.append("leaf delegates to %s" % c.short())
        decl[m] = sorted(ids)
        if problems:
            report.ob(rule, "%s/%s" % (label, m), False, "; ".join(problems), site=b.loc(), config=config)
    b = bodies.get("fetch")
    if b is None:
        report.ob(rule, "%s/fetch" % label, False, "method missing", site=site, config=config)
        return
    report.touched(b, config)
    shared, excl, other = [], [], []
    cone = facts.cone([b], stop=lambda x: x.self_head == A.WORLD or x.self_head == A.RESID)
    for cb in cone.values():
        for bb, t in cb.normal_calls():
            c = Callee(t["func"])
            if c.local and c.self_head == A.WORLD:
                targs = [nolt(a["s"]) for a in c.type_args()]
                if c.name in SHARED_PRIMS:
                    shared.extend(targs[:1])
                elif c.name in EXCL_PRIMS:
                    excl.extend(targs[:1])
                else:
                    other.append(c.name)
            elif c.trait == A.T_SYSDATA and c.name == "fetch":
                other.append("delegation to " + c.short())
    ok = sorted(shared) == decl.get("reads") and sorted(excl) == decl.get("writes") and not other
    report.ob(rule, "%s/declared=fetched" % label, ok,
              "reads %s = shared borrows %s; writes %s = exclusive borrows %s" % (decl.get("reads"), sorted(shared), decl.get("writes"), sorted(excl)) if ok else
              "declared reads %s / writes %s but fetch borrows shared %s / exclusive %s%s" % (
                  decl.get("reads"), decl.get("writes"), sorted(shared), sorted(excl), (" and also uses " + ", ".join(other)) if other else ""),
              site=b.loc(), config=config)
    # what is borrowed is what is handed back: on every way through fetch, a guard a fetch primitive produced (the Some of a
    # try_ form, the result of a panicking form) is part of the returned value - borrowed and let go again is not "borrows it"
    try:
        from . import semq as Q
        prims = [x.key for x in facts.bodies.values() if not x.is_closure and x.self_head == A.WORLD and x.name in SHARED_PRIMS | EXCL_PRIMS]
        ev, ends = Q.sem(ctx, facts, b, opaque=prims)
        lost = []
        for e in Q.returns(ends):
            inside = set(subterms(e.ret))
            for x in e.path.events:
                if x[0] != "call" or x[2].key not in prims:
                    continue
                if x[2].name.startswith("try_") and e.path.variant(x[4]) == "None":
                    continue
                if x[4] not in inside:
                    lost.append(x[2].name)
        report.ob(rule, "%s/held" % label, not lost, "every guard fetch obtains is part of what it returns" if not lost else
                  "fetch obtains a guard through %s and returns without it: the borrow is released before the value is dropped, and the resource the type reports is not borrowed" % ", ".join(sorted(set(lost))),
                  site=b.loc(), config=config)
    except Exception as e_:
        report.ob(rule, "%s/held" % label, False, "cannot tabulate fetch (%s: %s)" % (type(e_).__name__, e_), site=b.loc(), config=config)
    return decl


def static_accessor(ctx, report, rule, facts, config):
    from . import semq as Q
    sa = A.C + "::system::StaticAccessor"
    for m in ("reads", "writes"):
        b = facts.one(name=m, trait=A.T_ACCESSOR, self_head=sa)
        report.touched(b, config)
        ev, ends = Q.sem(ctx, facts, b)
        ok, seen = Q.forwards_once(ev, ends, lambda c, x: c.trait == A.T_SYSDATA and c.name == m and ev.self_arg(x[4]) == "T")
        ok = ok and all(Q.is_call(ev, Q.strip(ev, e.ret), m) and Q.callee_of(ev, Q.strip(ev, e.ret)).trait == A.T_SYSDATA for e in Q.returns(ends))
        report.ob(rule, "StaticAccessor::%s" % m, ok, "returns <T as SystemData>::%s()" % m if ok else "StaticAccessor::%s does not return <T as SystemData>::%s(): %s" % (m, m, seen), site=b.loc(), config=config)
    for m in ("setup", "fetch"):
        b = facts.one(name=m, trait=A.T_DYNSYSDATA, container="trait_impl", pred=lambda b: isinstance(b.self_head, str) and b.self_head.startswith("param:"))
        report.touched(b, config)
        ev, ends = Q.sem(ctx, facts, b)
        ok, seen = Q.forwards_once(ev, ends, lambda c, x: c.trait == A.T_SYSDATA and c.name == m and ev.self_arg(x[4]) == "T")
        report.ob(rule, "<T as DynamicSystemData>::%s" % m, ok, "forwards to <T as SystemData>::%s" % m if ok else "does not forward exactly once: %s" % (seen,), site=b.loc(), config=config)

    def loud(b):
        ev, ends = Q.sem(ctx, facts, b)
        return sorted(set(x[2].name for e in ends for x in Q.calls_in(e.path.events, lambda c: c.local or c.name not in Q.BENIGN_STD, deep=True)))
    # System::accessor default builds the static accessor; BatchUncheckedWorld::fetch borrows nothing
    buw = facts.one(name="fetch", trait=A.T_DYNSYSDATA, self_head=A.BUW)
    cs = loud(buw)
    report.ob(rule, "BatchUncheckedWorld::fetch", not cs, "borrows nothing" if not cs else "calls %s" % cs, site=buw.loc(), config=config)
    buws = facts.one(name="setup", trait=A.T_DYNSYSDATA, self_head=A.BUW)
    cs = loud(buws)
    report.ob(rule, "BatchUncheckedWorld::setup", not cs, "sets nothing up itself" if not cs else "calls %s" % cs, site=buws.loc(), config=config)
    # () accessor / PhantomData accessor report nothing
    for head in ("tuple:0", "std::marker::PhantomData"):
        for m in ("reads", "writes"):
            bs = facts.find(name=m, trait=A.T_ACCESSOR, self_head=head)
            for b in bs:
                ev, ends = Q.sem(ctx, facts, b)
                ok = bool(Q.returns(ends))
                for e in Q.returns(ends):
                    r = Q.strip(ev, e.ret)
                    empty = (Q.is_call(ev, r, "new") and "Vec" in (Q.callee_of(ev, r).path or "") and not r[2]) or (Q.is_call(ev, r, "default") and not r[2]) \
                        or (isinstance(r, tuple) and r[0] == "agg" and r[1] == "veclit" and not r[3])
                    filled = Q.calls_in(e.path.events, lambda c: c.name in ("push", "extend", "insert", "append", "extend_from_slice"), deep=True)
                    if not empty or filled:
                        ok = False
                report.ob(rule, "Accessor/%s/%s" % (head, m), ok, "returns an empty Vec", site=b.loc(), config=config)


def all_impls(ctx, report, facts, config, pfx, label_prefix="", only_kinds=("leaf", "tuple", "derive"), methods=METHODS):
    counts = {"leaf": 0, "tuple": 0, "derive": 0}
    for key, (im, bodies) in sorted(sysdata_impls(facts).items()):
        kind = classify(facts, im)
        if kind not in only_kinds:
            continue
        counts[kind] += 1
        label = label_prefix + nolt(im["self_ty"])
        if kind == "tuple":
            report.guard(pfx + ".TUPLE", composite, ctx, report, pfx + ".TUPLE", facts, config, im, bodies, kind, label, methods)
        elif kind == "derive":
            report.guard(pfx + ".DERIVE", composite, ctx, report, pfx + ".DERIVE", facts, config, im, bodies, kind, label, methods)
        else:
            report.guard(pfx + ".LEAF", leaf, ctx, report, pfx + ".LEAF", facts, config, im, bodies, label)
    return counts


# ------------------------------------------------------------------ the derive macro's own source

NON_FILTERING = frozenset(["map", "cloned", "copied", "enumerate", "inspect", "by_ref", "iter", "iter_mut", "into_iter", "deref", "as_ref", "borrow",
                           "as_slice", "clone", "to_vec", "into_vec", "collect_vec", "peekable", "fuse"])


def derive_source(ctx, report, rule, facts, config):
    """The generated `setup`, `fetch`, `reads` and `writes` repeat one piece of code per entry of some list (`#( .. )*` in
    quote!).  Every such list has one entry per member of the struct the macro is applied to: it is the member list itself, or
    it is built from it by a full traversal that contributes exactly one entry per element on every way (map + collect, a
    loop with one unconditional push, `vec![x; that list's length]`).  A list that was filtered, de-duplicated or cut on the
    way would make a generated method skip a member that `fetch` still borrows."""
    from . import semq as Q
    from .worldrules import _deep_all
    b = facts.one("shred_derive::impl_system_data")
    report.touched(b, config)
    ev, ends = Q.sem(ctx, facts, b)
    rets = Q.returns(ends)
    n_lists = 0
    problems = []

    def members(t):
        """`t` is (a view of) the member list of the input: reached from the macro's argument by projections only."""
        t = Q.strip(ev, t)
        while isinstance(t, tuple) and t and t[0] in ("field", "variant", "proj", "cast"):
            t = Q.strip(ev, t[2] if t[0] == "cast" else t[1])
        return t == ("param", 1)

    def complete(e, t, loops, depth=0):
        if depth > 8:
            return "the list is built in too many steps to follow"
        t = Q.strip(ev, t)
        # adaptors that keep every element
        while isinstance(t, tuple) and t and t[0] == "call":
            c = ev.callee(t[1])
            if c is not None and not c.local and c.name in NON_FILTERING and t[2] and not [L for L in loops if L.site == t[1]]:
                t = Q.strip(ev, t[2][0])
            else:
                break
        if members(t):
            return None
        if isinstance(t, tuple) and t and t[0] == "agg" and t[2] == "std::ops::Range::Range" and len(t[3]) == 2 and t[3][0] == ("int", 0):
            # `for _ in 0..list.len()`: one turn per entry of that list
            hi = Q.strip(ev, t[3][1])
            if Q.is_call(ev, hi, "len") and hi[2]:
                return complete(e, hi[2][0], loops, depth + 1)
            return "a repeated list is filled once per number that is not the length of the member list"
        if not (isinstance(t, tuple) and t and t[0] == "call"):
            return "a repeated list is neither the member list nor built from it (%s)" % (t[:2],)
        c = ev.callee(t[1])
        if c is not None and not c.local and c.name == "from_elem" and len(t[2]) == 2:
            n_ = Q.strip(ev, t[2][1])
            if Q.is_call(ev, n_, "len") and n_[2]:
                return complete(e, n_[2][0], loops, depth + 1)
            return "a repeated list has a length that is not the length of the member list"
        # collected by a modelled traversal
        mine = [L for L in loops if L.site == t[1] and L.kind == "model:collect"]
        if mine:
            L = mine[0]
            if [n for n, _ in L.stages if n not in NON_FILTERING]:
                return "members pass through %s before entering a repeated list" % [n for n, _ in L.stages if n not in NON_FILTERING]
            for it in L.iters:
                if it.end == "continue":
                    ys = [x for x in it.path.events if x[0] == "yield" and x[1] == t[1]]
                    if len(ys) != 1:
                        return "a way round the traversal contributes %d entries for a member (expected exactly 1)" % len(ys)
                elif it.end in ("break", "return"):
                    return "the traversal of the members can stop early"
            return complete(e, L.source, loops, depth + 1)
        # filled by pushes in a loop
        fills = []
        for L in loops:
            for it in L.iters:
                ps = [x for x in it.path.events if x[0] == "call" and not x[2].local and x[2].name in S.SHAPE_MUTATORS and x[3] and Q.strip(ev, x[3][0]) == t]
                if ps:
                    fills.append(L)
                    break
        other = [x for x in _deep_all(e.path.events) if x[0] == "call" and not x[2].local and x[2].name in S.SHAPE_MUTATORS and x[3] and Q.strip(ev, x[3][0]) == t]
        if len(fills) == 1:
            L = fills[0]
            if L.kind == "while" or L.stages and [n for n, _ in L.stages if n not in NON_FILTERING]:
                return "a repeated list is filled by a loop that is not a plain traversal"
            inloop = 0
            for it in L.iters:
                ps = [x for x in it.path.events if x[0] == "call" and not x[2].local and x[2].name in S.SHAPE_MUTATORS and x[3] and Q.strip(ev, x[3][0]) == t]
                if it.end == "continue":
                    inloop += len(ps)
                    if len(ps) != 1 or ps[0][2].name != "push":
                        return "a way round the loop appends %d entries for a member (expected exactly one push)" % len(ps)
                elif it.end in ("break", "return"):
                    return "the traversal of the members can stop early"
            if len(other) > inloop:
                return "a repeated list is changed outside the loop that fills it"
            return complete(e, L.source, loops, depth + 1)
        return "a repeated list comes out of `%s`, which is not known to keep one entry per member" % (c.name if c is not None else "?")

    for e in rets:
        loops = Q.all_loops([e])
        for x in _deep_all(e.path.events):
            if x[0] == "call" and x[2].name == "quote_into_iter" and "quote::" in (x[2].path or "") and x[3]:
                if "RepToTokensExt" in (x[2].path or ""):
                    continue    # a plain value mentioned inside a repetition: repeated as is, it does not bound the repetition
                n_lists += 1
                why = complete(e, x[3][0], loops)
                if why:
                    problems.append(why)
    report.ob(rule, "one-entry-per-member", not problems and bool(rets), "; ".join(sorted(set(problems))) if problems else
              "every list a generated method repeats over has one entry per member of the struct (%d repetitions looked at)" % n_lists, site=b.loc(), config=config)
    report.floor(rule, "repetitions in the generated impl", n_lists, 8, config=config)
