"""A7: decision tables.  For a loop-free body, enumerate every normal path
entry -> exit and tabulate branch conditions -> outcome.  Conditions and
outcomes are opaque terms (see terms.py); constant conditions are folded and
the same term is never decided twice on one path.  This is a finite
tabulation over opaque booleans: no arithmetic, no solver."""
from .cfg import Cfg
from .facts import Callee

MAX_PATHS = 512

# discriminant values of the external enums the crate matches on
EXTERNAL_VARIANTS = {
    "std::option::Option": {0: "None", 1: "Some"},
    "std::result::Result": {0: "Ok", 1: "Err"},
    "std::collections::hash_map::Entry": {0: "Occupied", 1: "Vacant"},
    "std::sync::mpsc::TryRecvError": {0: "Empty", 1: "Disconnected"},
    "std::sync::mpmc::TryRecvError": {0: "Empty", 1: "Disconnected"},
    "std::ops::ControlFlow": {0: "Continue", 1: "Break"},
    "std::borrow::Cow": {0: "Borrowed", 1: "Owned"},
}


class TooManyPaths(Exception):
    pass


class NotLoopFree(Exception):
    pass


class Path(object):
    __slots__ = ("conds", "effects", "ret", "end", "blocks", "env")

    def __init__(self):
        self.conds = []    # (term, value, variant name or None, bb)
        self.effects = []  # ('call', bb, callee, args, dest_local) | ('store', bb, place_term, value_term)
        self.ret = None
        self.end = None    # 'return' | 'diverge' | 'unreachable'
        self.blocks = []
        self.env = None

    def calls(self, pred=None):
        return [e for e in self.effects if e[0] == "call" and (pred is None or pred(e[2]))]

    def cond_value(self, pred):
        """Value taken on this path by the first condition whose term satisfies pred."""
        for t, v, name, bb in self.conds:
            if pred(t):
                return v if name is None else name
        return None


def _ty_head(ty):
    i = ty.find("<")
    return ty if i < 0 else ty[:i]


class PathEnum(object):
    def __init__(self, body, facts, max_paths=MAX_PATHS):
        self.body = body
        self.facts = facts
        self.cfg = Cfg(body)
        self.max_paths = max_paths

    def variant_name(self, place_ty, value):
        head = _ty_head(place_ty.lstrip("&").replace("mut ", ""))
        if head in EXTERNAL_VARIANTS:
            return EXTERNAL_VARIANTS[head].get(value)
        adt = self.facts.adts.get(head)
        if adt:
            for v in adt["variants"]:
                if v["discr"] == value:
                    return v["name"]
        return None

    # ---- term construction against a path environment
    def place(self, env, p):
        t = env.get(p["l"])
        if t is None:
            l = p["l"]
            t = ("param", l) if 1 <= l <= self.body.arg_count else ("undef", l)
        for e in p["p"]:
            k = e["k"]
            if k == "deref":
                continue
            if k == "field":
                if "closure" in e and t == ("param", 1) and self.body.is_closure:
                    t = ("upvar", e.get("name", str(e["i"])))
                else:
                    # field of an aggregate built on this path: project it
                    name = e.get("name", str(e["i"]))
                    if t[0] == "agg" and t[1] in ("tuple", "adt") and e["i"] < len(t[3]) and (t[1] == "tuple" or name in t[4]):
                        t = t[3][e["i"]]
                    else:
                        t = ("field", t, name, e.get("adt") or ("tuple" if e.get("tuple") else None))
            elif k == "index":
                t = ("index", t, env.get(e["l"], ("undef", e["l"])))
            elif k == "cindex":
                t = ("index", t, ("int", e["off"]))
            elif k == "downcast":
                t = ("variant", t, e.get("variant"))
            else:
                t = ("proj", t, k)
        return t

    def operand(self, env, o):
        k = o["k"]
        if k in ("copy", "move"):
            return self.place(env, o["place"])
        if k == "const":
            if "fn" in o:
                f = o["fn"]
                r = f.get("resolved")
                key = r["key"] if r and r.get("inst_kind") == "item" else f["key"]
                return ("fnref", key, f.get("name"))
            if "closure" in o:
                return ("closure", o["closure"])
            if "int" in o:
                return ("int", o["int"])
            return ("const", o.get("val", "?"))
        return ("const", "<%s>" % k)

    def rvalue(self, env, rv):
        k = rv["k"]
        if k == "use":
            return self.operand(env, rv["op"])
        if k in ("ref", "rawptr", "copy_for_deref"):
            pl = rv["place"]
            if k != "copy_for_deref" and rv.get("bk") in ("mut", "Mut") and not pl["p"]:
                cur = env.get(pl["l"])
                if cur is not None and cur[0] in ("int", "const"):
                    # a scalar local handed out by `&mut`: later reads may see another value
                    env[pl["l"]] = ("cell", pl["l"])
            return self.place(env, pl)
        if k == "cast":
            return ("cast", rv["kind"].split("(")[0], self.operand(env, rv["op"]))
        if k == "binop":
            return ("bin", rv["op"], self.operand(env, rv["a"]), self.operand(env, rv["b"]))
        if k == "unop":
            a = self.operand(env, rv["a"])
            if rv["op"] == "PtrMetadata":
                return ("len", a)
            if rv["op"] == "Not" and a[0] == "int":
                return ("int", 0 if a[1] else 1)
            return ("un", rv["op"], a)
        if k == "discr":
            t = self.place(env, rv["place"])
            if t[0] == "agg" and t[1] == "adt":
                # discriminant of an aggregate built on this path: fold
                return ("variant_of", t[2].rsplit("::", 1)[1], t)
            return ("discr", t, rv["place"]["ty"])
        if k == "agg":
            a = rv["agg"]
            if a == "adt":
                name = "%s::%s" % (rv["adt"], rv["variant"])
            elif a in ("closure", "coroutine"):
                name = rv["closure"]
            else:
                name = a
            return ("agg", a, name, tuple(self.operand(env, x) for x in rv["ops"]), tuple(rv.get("fields", [])))
        if k == "repeat":
            return ("agg", "repeat", "repeat", (self.operand(env, rv["op"]),), ())
        return ("const", "<%s>" % k)

    # ---- enumeration
    def enumerate(self):
        if not self.cfg.is_acyclic():
            raise NotLoopFree(self.body.qname)
        results = []
        body = self.body

        def walk(bb, env, path):
            if len(results) > self.max_paths:
                raise TooManyPaths(body.qname)
            while True:
                blk = body.blocks[bb]
                path.blocks.append(bb)
                for st in blk["stmts"]:
                    if st["k"] != "assign":
                        continue
                    p = st["place"]
                    v = self.rvalue(env, st["rv"])
                    if not p["p"]:
                        env[p["l"]] = v
                    else:
                        path.effects.append(("store", bb, self.place(env, p), v))
                t = blk["term"]
                k = t["k"]
                if k == "goto":
                    bb = t["target"]
                elif k in ("drop", "assert"):
                    bb = t["target"]
                elif k == "call":
                    args = tuple(self.operand(env, a) for a in t["args"])
                    c = Callee(t["func"])
                    dest = t["dest"]
                    path.effects.append(("call", bb, c, args, dest["l"] if not dest["p"] else None))
                    if t["target"] is None:
                        path.end = "diverge"
                        path.ret = None
                        path.env = env
                        results.append(path)
                        return
                    val = ("call", bb, args)
                    if not dest["p"]:
                        env[dest["l"]] = val
                    else:
                        path.effects.append(("store", bb, self.place(env, dest), val))
                    bb = t["target"]
                elif k == "switch":
                    d = self.operand(env, t["discr"])
                    arms = t["arms"]
                    # constant folding
                    if d[0] == "int":
                        nxt = t["otherwise"]
                        for v, b in arms:
                            if v == d[1]:
                                nxt = b
                        bb = nxt
                        continue
                    if d[0] == "variant_of":
                        # discriminant of a locally built enum value
                        name = d[1]
                        nxt = t["otherwise"]
                        adt_path = d[2][2].rsplit("::", 1)[0]
                        for v, b in arms:
                            if self.variant_name(adt_path, v) == name:
                                nxt = b
                        bb = nxt
                        continue
                    # already decided on this path?
                    decided = None
                    dn, flip = d, 0
                    while dn[0] == "un" and dn[1] == "Not":
                        dn = dn[2]
                        flip ^= 1
                    for (ct, cv, cn, cb) in path.conds:
                        if ct == dn and cv in (0, 1, "otherwise"):
                            if flip and cv in (0, 1):
                                decided = 1 - cv
                            elif not flip:
                                decided = cv
                    if decided is not None:
                        if decided == 1 and [v for v, _ in arms] == [0]:
                            decided = "otherwise"
                        nxt = t["otherwise"] if decided == "otherwise" else None
                        for v, b in arms:
                            if v == decided:
                                nxt = b
                        if nxt is None:
                            nxt = t["otherwise"]
                        bb = nxt
                        continue
                    choices = [(v, b) for v, b in arms] + [("otherwise", t["otherwise"])]
                    # an `otherwise` arm that is plain unreachable is not a path
                    live = []
                    for v, b in choices:
                        tb = body.blocks[b]
                        if tb["term"]["k"] == "unreachable" and not tb["stmts"]:
                            continue
                        live.append((v, b))
                    ty = d[2] if d[0] == "discr" else None
                    known = [v for v, _ in arms]
                    for v, b in live:
                        np = Path()
                        np.conds = list(path.conds)
                        np.effects = list(path.effects)
                        np.blocks = list(path.blocks)
                        name = None
                        val = v
                        if ty is not None:
                            if v != "otherwise":
                                name = self.variant_name(ty, v)
                            else:
                                name = self._other_variant(ty, known)
                        elif v == "otherwise" and known == [0]:
                            val = 1  # boolean true
                        dd = d
                        # `!x` tested: record the decision on x itself
                        while dd[0] == "un" and dd[1] == "Not" and val in (0, 1):
                            dd = dd[2]
                            val = 1 - val
                        np.conds.append((dd, val, name, bb))
                        walk(b, dict(env), np)
                    return
                elif k == "return":
                    path.end = "return"
                    path.ret = env.get(0, ("undef", 0))
                    path.env = env
                    results.append(path)
                    return
                else:
                    path.end = "unreachable" if k == "unreachable" else k
                    path.env = env
                    results.append(path)
                    return

        walk(0, {}, Path())
        return results

    def _other_variant(self, ty, known):
        head = _ty_head(ty.lstrip("&").replace("mut ", ""))
        names = None
        if head in EXTERNAL_VARIANTS:
            names = EXTERNAL_VARIANTS[head]
        else:
            adt = self.facts.adts.get(head)
            if adt:
                names = {v["discr"]: v["name"] for v in adt["variants"]}
        if names:
            rest = [n for d, n in sorted(names.items()) if d not in known]
            if len(rest) == 1:
                return rest[0]
            return "|".join(rest)
        return None


def enumerate_paths(body, facts, max_paths=MAX_PATHS):
    return PathEnum(body, facts, max_paths).enumerate()
