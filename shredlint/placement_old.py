"""Rules about the placement algorithm of StagesBuilder (find_conflict,
insertion_target, remove_ids, add_barrier).  Shared by C01, C02, C03, C10,
C18, C19.  Each function reports under the rule id it is given."""
from . import anchors as A
from . import shared as S
from .facts import Callee, AnchorError
from .paths import enumerate_paths
from .shapes import traversals, root, TRANSPARENT, iter_type_class
from .terms import subterms


def _callee(body, t):
    return S.callee_at(body, t[1]) if isinstance(t, tuple) and t and t[0] == "call" else None


def _is_call(body, t, name, head=None, trait=None):
    c = _callee(body, t)
    return bool(c and c.name == name and (head is None or c.self_head == head) and (trait is None or c.trait == trait))


def acc_fields(facts):
    """Names of the StagesBuilder fields that accumulate declared reads,
    declared writes and system ids, derived from what `insert` stores there."""
    body = facts.one(A.SB + "::insert")
    out = {}
    for p in enumerate_paths(body, facts):
        if p.end != "return":
            continue
        for e in p.effects:
            if e[0] != "call" or e[2].local or len(e[3]) < 2:
                continue
            fields, idx, base = S.table_access(body, e[3][0])
            cf = S.crate_fields(fields)
            if not cf or cf[0][0] != A.SB:
                continue
            v = e[3][1]
            c = _callee(body, v)
            if e[2].name == "extend" and c and c.trait == A.T_ACCESSOR and c.name == "reads":
                out["R"] = cf[0][1]
            elif e[2].name == "extend" and c and c.trait == A.T_ACCESSOR and c.name == "writes":
                out["W"] = cf[0][1]
            elif e[2].name == "push" and v == ("param", 3):
                out["ID"] = cf[0][1]
    if set(out) != set(["R", "W", "ID"]):
        raise AnchorError("cannot derive the accumulating tables from insert (found %s)" % out)
    return out


def operand_roles(prog, facts, body, term, acc):
    """Roles of a check_intersection operand: NEW-R / NEW-W (declared sets of
    the system being inserted), DEP (its pending dependency list), ACC-R /
    ACC-W / ACC-ID (the accumulated tables)."""
    insert = facts.one(A.SB + "::insert")
    prog.stop_bodies = set([insert.key])

    def is_src(c, b, bb):
        return c.trait == A.T_ACCESSOR and c.name in ("reads", "writes") and b.key == insert.key

    leaves = prog.origins(body, term, is_src)
    roles = set()
    for lf in leaves:
        if lf[0] == "src":
            c = S.callee_at(facts.bodies[lf[1]], lf[2])
            roles.add("NEW-R" if c.name == "reads" else "NEW-W")
        elif lf[0] == "field" and lf[1] == A.SB:
            if lf[2] == acc["R"]:
                roles.add("ACC-R")
            elif lf[2] == acc["W"]:
                roles.add("ACC-W")
            elif lf[2] == acc["ID"]:
                roles.add("ACC-ID")
            else:
                roles.add("FIELD:" + lf[2])
        elif lf[0] == "param" and lf[1] == insert.key and lf[2] == 2:
            roles.add("DEP")
        elif lf[0] in ("scalar", "int", "elem_of_call", "env"):
            continue
        else:
            roles.add("?%s" % (lf,))
    return roles


def _intersection_wrapper(facts, callee):
    """If `callee` is an in-crate helper that just returns check_intersection(param i, param j)
    (possibly through iter()/clone()/into_iter()), return (i, j); else None."""
    tb = facts.target_bodies(callee, precise=True)
    if len(tb) != 1 or tb[0].is_closure:
        return None
    body = tb[0]
    try:
        ps = [p for p in enumerate_paths(body, facts) if p.end == "return"]
    except Exception:
        return None
    if len(ps) != 1 or ps[0].conds:
        return None
    r = ps[0].ret
    if not (isinstance(r, tuple) and r[0] == "call" and S.callee_at(body, r[1]).key == A.F_CHECK_INTERSECTION):
        return None
    out = []
    for a in r[2]:
        while isinstance(a, tuple) and a and a[0] == "call" and S.callee_at(body, a[1]).name in TRANSPARENT and a[2]:
            a = a[2][0]
        if not (isinstance(a, tuple) and a[0] == "param"):
            return None
        out.append(a[1])
    return tuple(out) if len(out) == 2 else None


# ------------------------------------------------------------------ MATRIX / DEPHIT

def matrix(ctx, report, rule, facts, config, want=("matrix", "exact", "dephit", "index")):
    """The per-group predicate of find_conflict."""
    prog = ctx.program(facts)
    acc = acc_fields(facts)
    fc = facts.one(A.SB + "::find_conflict")
    preds = [c for c in facts.closures_of(fc, False)]
    if len(preds) != 1:
        raise AnchorError("find_conflict is expected to hold exactly one closure (the group predicate), found %d" % len(preds))
    b = preds[0]
    report.touched(b, config)
    report.touched(fc, config)
    paths = enumerate_paths(b, facts)
    atomic = set()
    dep_pairs = set()
    cond_info = {}
    for p in paths:
        for (ct, cv, cn, cb) in p.conds:
            if ct in cond_info or not (isinstance(ct, tuple) and ct and ct[0] == "call"):
                continue
            ops = None
            if S.callee_at(b, ct[1]).key == A.F_CHECK_INTERSECTION:
                ops = (ct[2][0], ct[2][1])
            else:
                w = _intersection_wrapper(facts, S.callee_at(b, ct[1]))
                if w is not None and max(w) <= len(ct[2]):
                    ops = (ct[2][w[0] - 1], ct[2][w[1] - 1])
            if ops is not None:
                x = operand_roles(prog, facts, b, ops[0], acc)
                y = operand_roles(prog, facts, b, ops[1], acc)
                cond_info[ct] = (x, y, cb)
    for ct, (x, y, cb) in cond_info.items():
        for a in x:
            for c in y:
                pair = (a, c)
                if a.startswith("ACC") and not c.startswith("ACC"):
                    pair = (c, a)
                if "DEP" in pair or "ACC-ID" in pair:
                    dep_pairs.add(pair)
                else:
                    atomic.add(pair)
    expected = set([("NEW-W", "ACC-W"), ("NEW-W", "ACC-R"), ("NEW-R", "ACC-W")])
    site = b.loc()
    if "matrix" in want:
        missing = expected - atomic
        report.ob(rule, "find_conflict/predicate/complete", not missing,
                  "resource intersections tested: %s" % sorted(atomic) if not missing else
                  "the group predicate never compares %s: a conflicting system can be placed beside the group" % sorted(missing), site=site, config=config)
    if "exact" in want:
        extra = atomic - expected
        report.ob(rule, "find_conflict/predicate/exact", not extra,
                  "no intersection beyond W/W, W/R, R/W is tested" if not extra else
                  "the group predicate also treats %s as a conflict (needless serialisation)" % sorted(extra), site=site, config=config)
    if "dephit" in want:
        report.ob(rule, "find_conflict/predicate/dep-pair", dep_pairs == set([("DEP", "ACC-ID")]),
                  "dependency intersection tested: %s (expected pending dependencies x ids of the group)" % sorted(dep_pairs), site=site, config=config)
    # decision: true iff any condition is true; the dependency condition sets the captured flag
    res_conds = [ct for ct, (x, y, cb) in cond_info.items() if not ("DEP" in x | y or "ACC-ID" in x | y)]
    dep_conds = [ct for ct, (x, y, cb) in cond_info.items() if ("DEP" in x | y or "ACC-ID" in x | y)]
    bad = []
    flagged_ok = True
    n_ret = 0
    for p in paths:
        if p.end != "return":
            continue
        n_ret += 1
        vals = dict((ct, cv) for (ct, cv, cn, cb) in p.conds)
        any_res = any(vals.get(c) == 1 for c in res_conds)
        any_dep = any(vals.get(c) == 1 for c in dep_conds)
        stores = [e for e in p.effects if e[0] == "store" and e[2][0] == "upvar"]
        # conditions of this path that are not recognised check_intersection calls (e.g. a helper
        # introduced by a refactoring): the "nothing intersects -> false" row cannot be judged then
        unknown = [ct for (ct, cv, cn, cb) in p.conds if ct not in cond_info and ct[0] in ("call", "bin", "un")]
        if p.ret not in (("int", 0), ("int", 1)):
            if "matrix" in want or "dephit" in want:
                bad.append("a path returns a non-constant %s" % (p.ret[:2],))
            continue
        if "matrix" in want and any_res and p.ret != ("int", 1):
            bad.append("a path on which a resource intersection is non-empty returns false")
        if "dephit" in want:
            if any_dep and p.ret != ("int", 1):
                bad.append("a group holding a pending dependency is not counted as conflicting")
            if any_dep and not any_res and not any(s_[3] == ("int", 1) for s_ in stores):
                bad.append("a dependency hit does not set the captured flag")
            if stores and not any_dep:
                bad.append("the captured flag is written on a path without a dependency hit")
                flagged_ok = False
        if "exact" in want and not any_res and not any_dep and not unknown and p.ret != ("int", 0):
            bad.append("a path without any intersection returns true")
    report.ob(rule, "find_conflict/predicate/decision", not bad and (n_ret >= 4 or not ("matrix" in want or "dephit" in want)),
              "; ".join(sorted(set(bad))) if bad else "predicate is true exactly when one of the tested intersections is non-empty (%d paths)" % n_ret,
              site=site, config=config)
    if "index" in want:
        # all accumulated operands are taken at [stage][group] of this very group
        problems = []
        for ct, (x, y, cb) in cond_info.items():
            for s_ in subterms(ct):
                if s_[0] == "call" and S.callee_at(b, s_[1]).name in ("index", "index_mut") and not S.callee_at(b, s_[1]).local:
                    fields, idx, base = S.table_access(b, s_)
                    if base[0] == "upvar" and base[1] != "new_dep":
                        if idx != [("upvar", "stage"), ("param", 2)]:
                            problems.append("operand %s is indexed by %s (expected [stage][group])" % (base[1], idx))
        report.ob(rule, "find_conflict/predicate/same-slot", not problems, "; ".join(problems) if problems else
                  "every accumulated operand is table[stage][group] for the predicate's own group", site=site, config=config)
        # captures map to find_conflict's parameters
        cr = prog.creation(b)
        ok = False
        detail = "closure creation not found"
        if cr:
            parent, agg, dest, _ = cr
            caps = dict(zip(agg[4], agg[3]))
            want_caps = {"ids": ("param", 1), "reads": ("param", 2), "writes": ("param", 3), "stage": ("param", 4)}
            ok = all(caps.get(k) == v for k, v in want_caps.items())
            detail = "predicate captures (ids, reads, writes, stage) = find_conflict's parameters" if ok else "captures %s" % caps
        report.ob(rule, "find_conflict/predicate/captures", ok, detail, site=site, config=config)
        # call site passes the builder's own tables and the stage being evaluated
        it = facts.one(A.SB + "::insertion_target")
        scan = None
        for c in facts.closures_of(it, False):
            for bb, t in c.normal_calls():
                if Callee(t["func"]).key == fc.key:
                    scan = (c, bb)
        if scan is None:
            raise AnchorError("no closure of insertion_target calls find_conflict")
        c, bb = scan
        report.touched(c, config)
        args = prog.bt(c).call_args(bb)
        tabs = []
        for a in args[:3]:
            fields, idx, base = S.table_access(c, a)
            tabs.append((S.crate_fields(fields), base))
        ok = (tabs[0] == ([(A.SB, acc["ID"])], ("upvar", "self")) and tabs[1] == ([(A.SB, acc["R"])], ("upvar", "self"))
              and tabs[2] == ([(A.SB, acc["W"])], ("upvar", "self")) and args[3] == ("param", 2))
        r5 = operand_roles(prog, facts, c, args[4], acc)
        r6 = operand_roles(prog, facts, c, args[5], acc)
        r7 = operand_roles(prog, facts, c, args[6], acc)
        ok = ok and r5 == set(["NEW-R"]) and r6 == set(["NEW-W"]) and r7 == set(["DEP"])
        report.ob(rule, "insertion_target/find_conflict-args", ok,
                  "find_conflict(self.ids, self.reads, self.writes, stage, declared reads, declared writes, pending deps)" if ok else
                  "find_conflict is called with %s, stage=%s, roles %s/%s/%s" % (tabs, args[3], sorted(r5), sorted(r6), sorted(r7)), site=c.loc(bb), config=config)


# ------------------------------------------------------------------ ALLGROUPS

def allgroups(ctx, report, rule, facts, config):
    prog = ctx.program(facts)
    fc = facts.one(A.SB + "::find_conflict")
    bt = prog.bt(fc)
    report.touched(fc, config)
    folds = [bb for bb, t in fc.normal_calls() if Callee(t["func"]).name == "fold"]
    ok = len(folds) == 1
    detail = "%d fold call(s)" % len(folds)
    if ok:
        a = bt.call_args(folds[0])
        recv, init, f = a
        okf = f[0] == "fnref" and f[1] == facts.one(A.CONFLICT + "::add").key
        oki = init[0] == "agg" and init[2] == A.CONFLICT + "::None"
        okr = False
        rng = None
        if _is_call(fc, recv, "filter") and S.callee_at(fc, recv[1]).trait in A.ITERATOR:
            rng = recv[2][0]
            if rng[0] == "agg" and rng[2] == "std::ops::Range::Range" and rng[3][0] == ("int", 0):
                end = rng[3][1]
                if _is_call(fc, end, "len"):
                    fields, idx, base = S.table_access(fc, end[2][0])
                    okr = base == ("param", 1) and idx == [("param", 4)]
        ok = okf and oki and okr
        detail = ("groups are folded over 0..len(ids[stage]) with filter(predicate).fold(Conflict::None, Conflict::add)" if ok else
                  "the scan over the groups of a stage is not `(0..ids[stage].len()).filter(pred).fold(None, add)`: range %s, init ok=%s, add ok=%s" % (rng, oki, okf))
    report.ob(rule, "find_conflict/all-groups", ok, detail, site=fc.loc(folds[0]) if folds else fc.loc(), config=config)
    # Conflict::add table
    add = facts.one(A.CONFLICT + "::add")
    report.touched(add, config)
    table = {}
    for p in enumerate_paths(add, facts):
        if p.end != "return":
            continue
        for (ct, cv, cn, cb) in p.conds:
            if ct[0] == "discr" and ct[1] == ("param", 1):
                table[cn] = p.ret
    want_ok = (table.get("None", ())[:3] == ("agg", "adt", A.CONFLICT + "::Single") and table.get("None")[3] == (("param", 2),)
               and table.get("Single", ())[:3] == ("agg", "adt", A.CONFLICT + "::Multiple")
               and table.get("Multiple", ())[:3] == ("agg", "adt", A.CONFLICT + "::Multiple"))
    report.ob(rule, "Conflict::add/table", want_ok, "None->Single(group), Single->Multiple, Multiple->Multiple" if want_ok else
              "Conflict::add maps %s" % dict((k, v[2] if v and v[0] == "agg" else v) for k, v in table.items()), site=add.loc(), config=config)


# ------------------------------------------------------------------ DEPGATE

def depgate(ctx, report, rule, facts, config):
    prog = ctx.program(facts)
    fc = facts.one(A.SB + "::find_conflict")
    report.touched(fc, config)
    paths = [p for p in enumerate_paths(fc, facts) if p.end == "return"]
    problems = []
    rows = []
    for p in paths:
        flag = None
        gt1 = None
        empty = None
        for (ct, cv, cn, cb) in p.conds:
            if ct[0] == "cell":
                flag = cv
            elif ct[0] == "bin" and ct[1] == "Gt" and _is_call(fc, ct[2], "len") and ct[2][2] == (("param", 7),) and ct[3] == ("int", 1):
                gt1 = cv
            elif _is_call(fc, ct, "is_empty") and ct[2] == (("param", 7),):
                empty = cv
            elif ct[0] == "bin" or ct[0] == "call":
                problems.append("unrecognised condition %s" % (ct[:2],))
        multiple = p.ret[0] == "agg" and p.ret[2] == A.CONFLICT + "::Multiple"
        folded = _is_call(fc, p.ret, "fold")
        rows.append((flag, gt1, empty, "Multiple" if multiple else ("fold" if folded else "?")))
        if flag is None:
            problems.append("a path does not test the dependency flag")
            continue
        expect_multiple = (flag == 1 and gt1 == 1) or (flag == 0 and empty == 0)
        if flag == 1 and gt1 is None:
            problems.append("with the flag set, `len(pending) > 1` is not tested")
        if flag == 0 and empty is None:
            problems.append("with the flag clear, `pending.is_empty()` is not tested")
        if expect_multiple and not multiple:
            problems.append("a stage that must be rejected (flag=%s, len>1=%s, empty=%s) is not reported as Multiple" % (flag, gt1, empty))
        if not expect_multiple and not folded:
            problems.append("an acceptable stage (flag=%s, len>1=%s, empty=%s) does not return the fold result" % (flag, gt1, empty))
    # the flag cell is the one captured by the predicate as its only captured &mut bool
    pred = facts.closures_of(fc, False)[0]
    cr = prog.creation(pred)
    if cr:
        parent, agg, dest, _ = cr
        muts = [n for n, c in zip(agg[4], pred.captures) if c["ty"] == "bool"]
        if len(muts) != 1:
            problems.append("predicate captures %d bool flag(s)" % len(muts))
    report.ob(rule, "find_conflict/gate", not problems and len(paths) == 4, "; ".join(sorted(set(problems))) if problems else
              "Multiple iff (hit and len(pending) > 1) or (no hit and pending non-empty); else the fold result; rows %s" % rows, site=fc.loc(), config=config)


# ------------------------------------------------------------------ ACCEPT / CAP / chain

def chain(ctx, facts):
    """The iterator chain of insertion_target: returns dict with the range
    term, the three closures and the adaptor names in order."""
    prog = ctx.program(facts)
    it = facts.one(A.SB + "::insertion_target")
    bt = prog.bt(it)
    ret = bt.local(0)
    names = []
    t = ret
    clos = []
    default = None
    while isinstance(t, tuple) and t and t[0] == "call":
        c = bt.callee(t[1])
        if c.local:
            break
        names.append(c.name)
        for a in t[2][1:]:
            if a[0] == "agg" and a[1] == "closure":
                clos.append((c.name, a[2]))
            elif a[0] == "closure":
                clos.append((c.name, a[1]))
            elif c.name in ("unwrap_or",):
                default = a
        t = t[2][0] if t[2] else None
    return {"body": it, "bt": bt, "names": list(reversed(names)), "closures": list(reversed(clos)), "range": t, "default": default, "ret": ret}


def accept(ctx, report, rule, facts, config, want=("chain", "accept", "cap")):
    prog = ctx.program(facts)
    ch = chain(ctx, facts)
    it = ch["body"]
    report.touched(it, config)
    site = it.loc()
    if "chain" in want:
        ok = ch["names"] == ["map", "find", "map", "unwrap_or"]
        report.ob(rule, "insertion_target/chain", ok,
                  "candidates: range.map(evaluate).find(accept).map(to_target).unwrap_or(NewStage)" if ok else
                  "the candidate scan is %s (expected map, find, map, unwrap_or: the first accepted stage wins)" % ch["names"], site=site, config=config)
        d = ch["default"]
        report.ob(rule, "insertion_target/fallback", bool(d) and d[0] == "agg" and d[2] == A.TARGET + "::NewStage",
                  "fallback is InsertionTarget::NewStage", site=site, config=config)
        rng = ch["range"]
        okr = isinstance(rng, tuple) and rng[0] == "agg" and rng[2] == "std::ops::Range::Range"
        report.ob(rule, "insertion_target/forward-range", okr, "candidates come from a forward half-open Range" if okr else "candidate source is %s" % (rng[:3] if isinstance(rng, tuple) else rng,), site=site, config=config)
    cl = dict((i, facts.bodies.get(k)) for i, (n, k) in enumerate(ch["closures"]))
    if len(cl) != 3 or any(v is None for v in cl.values()):
        raise AnchorError("insertion_target is expected to use three closures (evaluate, accept, to_target), found %s" % ch["closures"])
    ev, acc_c, to_t = cl[0], cl[1], cl[2]
    if "accept" in want or "cap" in want or "accept-sound" in want:
        report.touched(acc_c, config)
        table = {}
        for p in enumerate_paths(acc_c, facts):
            if p.end != "return":
                continue
            variant = None
            extra = []
            for (ct, cv, cn, cb) in p.conds:
                if ct[0] == "discr" and root(ct[1], None)[0] == ("param", 2):
                    variant = cn
                else:
                    extra.append((ct, cv))
            table.setdefault(variant, []).append((extra, p.ret))
        problems = []       # completeness: nothing acceptable is rejected for another reason (C10)
        sound = []          # soundness: nothing with several conflicts is accepted (C01/C02/C03)
        cap_ok = None
        if [r for _, r in table.get("None", [])] != [("int", 1)]:
            problems.append("a stage without any conflicting group is not always accepted")
        if [r for _, r in table.get("Multiple", [])] != [("int", 0)]:
            problems.append("a stage with several conflicting groups is not always rejected")
            sound.append("a stage with several conflicting groups is not always rejected")
        single = table.get("Single", [])
        k_found = None
        for extra, ret in single:
            lt = [(ct, cv) for ct, cv in extra if ct[0] == "bin" and ct[1] == "Lt"]
            if len(lt) != 1 or len(extra) != 1:
                problems.append("Single(g): unexpected guard structure %s" % [c[0][:2] for c in extra])
                continue
            (ct, cv) = lt[0]
            ln, k = ct[2], ct[3]
            okl = False
            if _is_call(acc_c, ln, "len"):
                fields, idx, base = S.table_access(acc_c, ln[2][0])
                cf = S.crate_fields(fields)
                okl = (cf == [(A.SB, "stages"), (A.STAGE, "groups")] and base == ("upvar", "self") and len(idx) == 2
                       and root(idx[0], None)[0] == ("param", 2) and idx[1][0] == "field" and idx[1][1][0] == "variant" and idx[1][1][2] == "Single")
            if not okl:
                problems.append("Single(g): the capacity guard does not measure stages[stage].groups[g].len()")
            kv = fold_int(k)
            k_found = kv
            if cv == 0 and ret != ("int", 0):
                problems.append("Single(g): a full group is not rejected")
            if cv == 1:
                if not (_is_call(acc_c, ret, "improves_balance") and ret[2][0] == ("upvar", "self")):
                    problems.append("Single(g): with room in the group the verdict is not improves_balance(..)")
                else:
                    a = ret[2]
                    if not (root(a[1], None)[0] == ("param", 2) and a[2][0] == "field" and a[2][1][0] == "variant"):
                        problems.append("Single(g): improves_balance is not asked about (stage, g)")
        if len(single) != 2:
            problems.append("Single(g): expected two outcomes (full / has room), found %d" % len(single))
        if "accept" in want:
            report.ob(rule, "insertion_target/accept-table", not problems, "; ".join(sorted(set(problems))) if problems else
                      "None -> accept; Multiple -> reject; Single(g) -> len(groups[g]) < K && improves_balance(stage, g)", site=acc_c.loc(), config=config)
        if "accept-sound" in want:
            report.ob(rule, "insertion_target/accept-sound", not sound, "; ".join(sorted(set(sound))) if sound else
                      "a stage with several conflicting groups is never accepted", site=acc_c.loc(), config=config)
        if "cap" in want:
            caps = set()
            for path_, fld in ((A.STAGE, "groups"), (A.SB, "ids")):
                ty = facts.adt_field(path_, fld)["ty"]
                import re
                m = re.findall(r"arrayvec::ArrayVec<.*, (\w+)>; \d+\]>", ty)
                for x in m:
                    if x.isdigit():
                        caps.add(int(x))
                    else:
                        for cpath, cst in facts.consts.items():
                            if cpath.rsplit("::", 1)[-1] == x and "int" in cst:
                                caps.add(cst["int"])
            ok = k_found is not None and len(caps) == 1 and k_found <= min(caps) - 1 and not [p_ for p_ in problems if "capacity" in p_ or "full group" in p_]
            report.ob(rule, "insertion_target/capacity", ok,
                      "a group is joined only while len < %s; ArrayVec capacity of both group tables is %s" % (k_found, sorted(caps)),
                      site=acc_c.loc(), config=config)
    if "accept" in want or "accept-sound" in want:
        # to_target: None -> Stage(s), Single(g) -> Group(s, g), Multiple -> unreachable
        report.touched(to_t, config)
        table = {}
        for p in enumerate_paths(to_t, facts):
            variant = None
            for (ct, cv, cn, cb) in p.conds:
                if ct[0] == "discr":
                    variant = cn
            table[variant] = (p.end, p.ret)
        pr = []
        e, r = table.get("None", (None, None))
        if not (e == "return" and r[0] == "agg" and r[2] == A.TARGET + "::Stage" and root(r[3][0], None) == (("param", 2), ["#0"])):
            pr.append("None is not mapped to Stage(stage)")
        e, r = table.get("Single", (None, None))
        if not (e == "return" and r[0] == "agg" and r[2] == A.TARGET + "::Group" and root(r[3][0], None) == (("param", 2), ["#0"])
                and r[3][1][0] == "field" and r[3][1][1][0] == "variant" and r[3][1][1][2] == "Single"):
            pr.append("Single(g) is not mapped to Group(stage, g)")
        e, r = table.get("Multiple", (None, None))
        if e != "diverge":
            pr.append("Multiple is mapped to a target")
        report.ob(rule, "insertion_target/to-target", not pr, "; ".join(pr) if pr else "None -> Stage(s); Single(g) -> Group(s, g); Multiple never reaches here", site=to_t.loc(), config=config)
        # evaluate: (stage, find_conflict(.., stage, ..)) for the closure's own stage
        report.touched(ev, config)
        ps = [p for p in enumerate_paths(ev, facts) if p.end == "return"]
        ok = len(ps) == 1
        if ok:
            r = ps[0].ret
            ok = (r[0] == "agg" and r[1] == "tuple" and r[3][0] == ("param", 2) and _is_call(ev, r[3][1], "find_conflict") and r[3][1][2][3] == ("param", 2))
        report.ob(rule, "insertion_target/evaluate", ok, "each candidate is (stage, find_conflict(.., stage, ..))" if ok else "the evaluated pair does not tie the verdict to its own stage", site=ev.loc(), config=config)
    return ch


def fold_int(t):
    """Fold a constant integer term (named constants are already literals in MIR)."""
    if not isinstance(t, tuple):
        return None
    if t[0] == "int":
        return t[1]
    if t[0] == "field" and t[2] == "0" and isinstance(t[1], tuple) and t[1][0] == "bin":
        return fold_int(t[1])
    if t[0] == "bin":
        a, b = fold_int(t[2]), fold_int(t[3])
        if a is None or b is None:
            return None
        op = t[1]
        if op.startswith("Sub"):
            return a - b
        if op.startswith("Add"):
            return a + b
        if op.startswith("Mul"):
            return a * b
    if t[0] == "cast":
        return fold_int(t[2])
    return None


def fold_like(t, base, inc):
    """t is `base + inc` (checked add: field 0 of AddWithOverflow)."""
    if isinstance(t, tuple) and t[0] == "field" and t[2] == "0" and isinstance(t[1], tuple) and t[1][0] == "bin":
        t = t[1]
    return isinstance(t, tuple) and t[0] == "bin" and t[1].startswith("Add") and t[2] == base and t[3] == ("int", inc)


# ------------------------------------------------------------------ barrier rules

def barrier(ctx, report, rule, facts, config, want=("set", "fwd", "range")):
    prog = ctx.program(facts)
    if "set" in want:
        ab = facts.one(A.SB + "::add_barrier")
        report.touched(ab, config)
        ps = [p for p in enumerate_paths(ab, facts) if p.end == "return"]
        ok = len(ps) == 1
        detail = "%d path(s)" % len(ps)
        if ok:
            # stores into other fields are not this rule's business
            stores = [e for e in ps[0].effects if e[0] == "store" and e[2] == ("field", ("param", 1), "barrier", A.SB)]
            ok = len(stores) == 1
            if ok:
                v = stores[0][3]
                fields, idx, base = S.table_access(ab, v[2][0]) if _is_call(ab, v, "len") else ([], [], None)
                ok = S.crate_fields(fields) == [(A.SB, "stages")] and not idx and base == ("param", 1)
            detail = "barrier = self.stages.len()" if ok else "add_barrier does not store len(self.stages) into `barrier` (stores: %s)" % [(s_[2], s_[3][:2]) for s_ in stores]
        report.ob(rule, "StagesBuilder::add_barrier", ok, detail, site=ab.loc(), config=config)
        # only writer of the field
        n = 0
        for b in sorted(facts.bodies.values(), key=lambda b: b.key):
            for bi, blk in enumerate(b.blocks):
                if blk["cleanup"]:
                    continue
                for st in blk["stmts"]:
                    if st["k"] == "assign":
                        pl = st["place"]
                        if pl["p"] and pl["p"][-1]["k"] == "field" and pl["p"][-1].get("adt") == A.SB and pl["p"][-1].get("name") == "barrier":
                            n += 1
                            report.ob(rule, "barrier-writer/%s" % b.qname, b.key == ab.key, "field `barrier` is assigned in %s" % b.qname, site=b.loc(bi), config=config)
                        rv = st["rv"]
                        if rv["k"] in ("ref", "rawptr") and rv.get("bk") in ("mut", "Mut"):
                            pp = rv["place"]["p"]
                            if pp and pp[-1]["k"] == "field" and pp[-1].get("adt") == A.SB and pp[-1].get("name") == "barrier":
                                report.ob(rule, "barrier-borrowed-mut/%s" % b.qname, False, "field `barrier` is mutably borrowed in %s" % b.qname, site=b.loc(bi), config=config)
        report.floor(rule, "writers of `barrier`", n, 1, config=config)
    if "fwd" in want:
        b = facts.one(A.DB + "::add_barrier")
        report.touched(b, config)
        bt = prog.bt(b)
        cs = [bb for bb, t in b.normal_calls() if Callee(t["func"]).key == facts.one(A.SB + "::add_barrier").key
              and bt.call_args(bb)[0] == ("field", ("param", 1), "stages_builder", A.DB)]
        cnt = bt.cfg.count(lambda x: x in cs) if cs else (0, 0)
        report.ob(rule, "DispatcherBuilder::add_barrier", cnt == (1, 1), "forwards to self.stages_builder.add_barrier() min %s / max %s time(s) per call" % cnt, site=b.loc(), config=config)
        w = facts.one(A.DB + "::with_barrier")
        report.touched(w, config)
        bt = prog.bt(w)
        cs = [bb for bb, t in w.normal_calls() if Callee(t["func"]).key == b.key]
        cnt = bt.cfg.count(lambda x: x in cs) if cs else (0, 0)
        report.ob(rule, "DispatcherBuilder::with_barrier", cnt == (1, 1) and bt.local(0) == ("param", 1), "calls add_barrier min %s / max %s time(s) and returns self" % cnt, site=w.loc(), config=config)
    if "range" in want:
        ch = chain(ctx, facts)
        it = ch["body"]
        rng = ch["range"]
        ok = False
        detail = "candidate range not recognised: %s" % (rng[:3] if isinstance(rng, tuple) else rng,)
        if isinstance(rng, tuple) and rng[0] == "agg" and rng[2] == "std::ops::Range::Range":
            lo, hi = rng[3]
            oklo = lo == ("field", ("param", 1), "barrier", A.SB)
            okhi = _is_call(it, hi, "len") and S.table_access(it, hi[2][0])[2] == ("param", 1) and S.crate_fields(S.table_access(it, hi[2][0])[0]) == [(A.SB, "stages")]
            ok = oklo and okhi
            detail = "candidate stages are self.barrier..self.stages.len()" if ok else "candidate stages are %s..%s (expected self.barrier..self.stages.len())" % (lo, hi[:2] if isinstance(hi, tuple) else hi)
        report.ob(rule, "insertion_target/range", ok, detail, site=it.loc(), config=config)
        # every Stage/Group target index originates from that range: evaluate and to_target pass the stage through (ACCEPT);
        # here: the only constructions of Stage/Group targets are in the to_target closure
        n = 0
        for b in sorted(facts.bodies.values(), key=lambda b: b.key):
            for bi, blk in enumerate(b.blocks):
                for st in blk["stmts"]:
                    if st["k"] == "assign" and st["rv"]["k"] == "agg" and st["rv"].get("adt") == A.TARGET and st["rv"]["variant"] in ("Stage", "Group"):
                        n += 1
                        okb = b.key == ch["closures"][2][1]
                        report.ob(rule, "target-built/%s/%s" % (b.qname, st["rv"]["variant"]), okb,
                                  "InsertionTarget::%s is constructed in %s" % (st["rv"]["variant"], b.qname), site=b.loc(bi), config=config)
        report.floor(rule, "constructions of Stage/Group targets", n, 2, config=config)


# ------------------------------------------------------------------ dependency bookkeeping (C02 / C10)

def _remove_ids_sites(ctx, facts):
    prog = ctx.program(facts)
    rid = facts.one(A.SB + "::remove_ids")
    return rid, facts.callers().get(rid.key, [])


def dep_order(ctx, report, rule, facts, config):
    """C02.ORDER: in the evaluate closure find_conflict(s, .., dep) dominates
    remove_ids(s, dep): same stage, same list."""
    prog = ctx.program(facts)
    ch = chain(ctx, facts)
    ev = facts.bodies[ch["closures"][0][1]]
    report.touched(ev, config)
    bt = prog.bt(ev)
    fcs = [bb for bb, t in ev.normal_calls() if Callee(t["func"]).name == "find_conflict"]
    rms = [bb for bb, t in ev.normal_calls() if Callee(t["func"]).name == "remove_ids"]
    ok = len(fcs) == 1 and len(rms) == 1 and bt.cfg.dominates(fcs[0], rms[0]) and fcs[0] != rms[0]
    detail = "find_conflict %s, remove_ids %s" % (fcs, rms)
    if ok:
        fa = bt.call_args(fcs[0])
        ra = bt.call_args(rms[0])
        ok = fa[3] == ra[1] == ("param", 2) and fa[6] == ra[2] == ("upvar", "new_dep") and ra[0] == ("upvar", "self")
        detail = "the stage is judged against the pending list before its own ids are crossed off (same stage, same list)" if ok else \
            "find_conflict(stage=%s, dep=%s) vs remove_ids(stage=%s, dep=%s)" % (fa[3], fa[6], ra[1], ra[2])
    else:
        detail = "a stage's ids are crossed off the pending list before (or without) judging the stage: " + detail
    report.ob(rule, "evaluate/find_conflict-before-remove_ids", ok, detail, site=ev.loc(), config=config)


def crossoff(ctx, report, rule, facts, config, want=("own-stage", "all-occurrences")):
    """remove_ids(stage, dep): entries are removed only when equal to an id of
    ids[stage] (C02.CROSSOFF) and every equal entry goes (C10.ALLOCC)."""
    prog = ctx.program(facts)
    rid = facts.one(A.SB + "::remove_ids")
    report.touched(rid, config)
    bt = prog.bt(rid)
    trs = [t for t in traversals(prog, rid) if t.kind == "for"]
    problems = []
    tr = None
    for t_ in trs:
        fields, idx, base = S.table_access(rid, t_.source)
        # flatten(iter(ids[stage]))
        if S.crate_fields(fields) == [(A.SB, "ids")] and base == ("param", 1):
            tr = t_
            if idx != [("param", 2)]:
                problems.append("ids are read from ids[%s], not from the `stage` argument" % (idx,))
            if not t_.full:
                problems.append("the ids of the stage are not fully traversed: " + t_.why)
            if "Flatten<" not in (t_.iter_ty or ""):
                # accepted alternative: an inner full loop over each group
                inner = [u for u in trs if root(u.source, bt, facts.crate) == (("elem", t_.header), [])]
                if len(inner) == 1 and inner[0].full:
                    tr = inner[0]
                else:
                    problems.append("the traversal does not reach the ids inside the groups of the stage (%s)" % t_.iter_ty)
    if tr is None:
        problems.append("no traversal of self.ids[stage] found")
    removers = []
    for bb, t in rid.normal_calls():
        c = Callee(t["func"])
        if c.local or not t["args"]:
            continue
        args = bt.call_args(bb)
        if root(args[0], bt, facts.crate)[0] == ("param", 3) and c.name in S.SHAPE_MUTATORS:
            removers.append((bb, c, args))
    if "own-stage" in want:
        for bb, c, args in removers:
            if tr is None or bb not in tr.loop:
                problems.append("the pending list is modified by `%s` outside the loop over ids[stage] (%s)" % (c.name, rid.loc(bb)))
        # the closure that selects entries compares with the loop element
        sel = []
        for cb in facts.closures_of(rid, False):
            cr = prog.creation(cb)
            if not cr:
                continue
            parent, agg, dest, _ = cr
            caps = dict(zip(agg[4], agg[3]))
            cmp_ok = False
            for bb, t in cb.normal_calls():
                cc = Callee(t["func"])
                if cc.trait == "std::cmp::PartialEq" and cc.name in ("eq", "ne"):
                    a = prog.bt(cb).call_args(bb)
                    bases = set()
                    for x in a:
                        b_, p_ = root(x, prog.bt(cb), facts.crate)
                        bases.add(b_)
                    if ("param", 2) in bases and any(b_[0] == "upvar" for b_ in bases if isinstance(b_, tuple)):
                        up = [b_ for b_ in bases if b_[0] == "upvar"][0]
                        src = caps.get(up[1])
                        if tr is not None and src is not None and root(src, bt, facts.crate)[0] == ("elem", tr.header):
                            cmp_ok = True
                    sel.append((cb, cc.name, cmp_ok))
        if not any(ok_ for _, _, ok_ in sel):
            problems.append("no selection closure compares a pending entry with the id read from ids[stage]")
        report.ob(rule, "remove_ids/own-stage", not problems, "; ".join(problems) if problems else
                  "entries are removed inside a full traversal of ids[stage] (flattened) and only when equal to the id read there", site=rid.loc(), config=config)
    if "all-occurrences" in want:
        pr = []
        names = [c.name for _, c, _ in removers]
        if not removers:
            pr.append("remove_ids never removes anything")
        elif all(n in ("retain", "retain_mut") for n in names):
            pass  # retain removes every matching entry
        elif "remove" in names or "swap_remove" in names:
            # accepted only if the removal is itself repeated until no entry is left, or the list is duplicate-free by construction
            dedup = _dep_list_deduped(ctx, facts)
            inner_loops = [t_ for t_ in traversals(prog, rid) if tr is not None and t_.header in tr.loop and t_.header != tr.header]
            while_loops = [h for h, blocks in bt.cfg.loops() if tr is not None and h in tr.loop and h != tr.header and set(blocks) < set(tr.loop)
                           and any(bb in blocks for bb, c, _ in removers)]
            if not dedup and not while_loops:
                pr.append("a finished dependency is crossed off with a single `%s` of the first match: a list naming the same system twice keeps a stale entry and forces a needless stage" % [n for n in names if n in ("remove", "swap_remove")][0])
        else:
            pr.append("unrecognised removal idiom %s" % names)
        report.ob(rule, "remove_ids/all-occurrences", not pr, "; ".join(pr) if pr else "every equal entry is removed (%s)" % "/".join(sorted(set(names))), site=rid.loc(removers[0][0]) if removers else rid.loc(), config=config)


def _dep_list_deduped(ctx, facts):
    """Is the dependency list made duplicate-free (sort + dedup) before placement?"""
    prog = ctx.program(facts)
    for q in (A.SB + "::insert", A.DB + "::add"):
        b = facts.one(q)
        bt = prog.bt(b)
        for bb, t in b.normal_calls():
            c = Callee(t["func"])
            if c.name in ("dedup", "dedup_by_key") and not c.local:
                a = bt.call_args(bb)
                r_, p_ = root(a[0], bt, facts.crate)
                if (q.endswith("insert") and r_ == ("param", 2)) or (q.endswith("add") and isinstance(r_, tuple) and r_[0] == "call" and bt.callee(r_[1]).name == "collect"):
                    return True
    return False


def depcover(ctx, report, rule, facts, config):
    """C10.DEPCOVER: the stages whose ids are crossed off the pending list
    cover every stage in front of the candidate being judged: the ranges that
    feed remove_ids' stage argument chain from constant 0 to the scan range."""
    prog = ctx.program(facts)
    rid, sites = _remove_ids_sites(ctx, facts)
    ch = chain(ctx, facts)
    it = ch["body"]
    report.touched(it, config)
    ranges = []  # (lo term, hi term, where, body)
    problems = []
    for cb, bb in sites:
        bt = prog.bt(cb)
        args = bt.call_args(bb)
        st = args[1]
        rng = None
        if cb.is_closure and st == ("param", 2):
            # element of the adaptor's receiver
            for parent, pbb, j in prog.closure_uses(cb):
                pa = prog.bt(parent).call_args(pbb)
                if j >= 1 and pa[0][0] == "agg" and pa[0][2] == "std::ops::Range::Range":
                    rng = (pa[0][3][0], pa[0][3][1], parent, pbb, "scan")
        else:
            b_, p_ = root(st, bt, facts.crate)
            if isinstance(b_, tuple) and b_[0] == "elem":
                for tr in traversals(prog, cb):
                    if tr.header == b_[1] and isinstance(tr.source, tuple) and tr.source[0] == "agg" and tr.source[2] == "std::ops::Range::Range":
                        if not tr.full:
                            problems.append("the pre-scan cross-off loop is not a full traversal: " + tr.why)
                        rng = (tr.source[3][0], tr.source[3][1], cb, tr.header, "loop")
        if rng is None:
            problems.append("remove_ids at %s is applied to a stage that does not come from a range (%s)" % (cb.loc(bb), st))
        else:
            ranges.append(rng)
    # chain from 0
    cur = ("int", 0)
    used = []
    todo = list(ranges)
    progress = True
    while progress:
        progress = False
        for r in list(todo):
            if r[0] == cur:
                used.append(r)
                todo.remove(r)
                cur = r[1]
                progress = True
    scan = [r for r in ranges if r[4] == "scan"]
    covered_to_scan_start = bool(scan) and any(u is scan[0] for u in used)
    if not scan:
        problems.append("the candidate scan does not cross ids off at all")
    elif not covered_to_scan_start:
        problems.append("the ids of stages 0..%s are never crossed off the pending dependency list: a dependency on a system in front of the barrier "
                        "keeps every later stage rejected and forces a stage of its own" % _short(scan[0][0]))
    # the pre-scan cross-off must happen before the scan starts
    if scan and covered_to_scan_start:
        for u in used:
            if u[4] == "loop" and u[2].key == it.key:
                scan_bb = scan[0][3]
                if not prog.bt(it).cfg.dominates(u[3], scan_bb):
                    problems.append("the pre-scan cross-off does not dominate the scan")
    report.ob(rule, "remove_ids/coverage", not problems, "; ".join(problems) if problems else
              "ids are crossed off for stages %s" % " then ".join("%s..%s" % (_short(u[0]), _short(u[1])) for u in used), site=it.loc(), config=config)
    report.floor(rule, "remove_ids call sites", len(sites), 1, config=config)


def _short(t):
    if not isinstance(t, tuple):
        return str(t)
    if t[0] == "int":
        return str(t[1])
    if t[0] == "field":
        return "self." + t[2] if t[1] == ("param", 1) else "%s.%s" % (_short(t[1]), t[2])
    if t[0] == "call":
        return "call@bb%d(..)" % t[1]
    return t[0]


def width(ctx, report, rule, facts, config):
    """C10.WIDTH: max_threads = max over all stages of the number of groups."""
    prog = ctx.program(facts)
    sm = facts.one(A.STAGE + "::max_threads")
    report.touched(sm, config)
    ret = prog.bt(sm).local(0)
    fields, idx, base = S.table_access(sm, ret[2][0]) if _is_call(sm, ret, "len") else ([], [], None)
    ok = S.crate_fields(fields) == [(A.STAGE, "groups")] and not idx and base == ("param", 1)
    report.ob(rule, "Stage::max_threads", ok, "returns self.groups.len()" if ok else "returns %s (expected the number of groups)" % (ret,), site=sm.loc(), config=config)
    dm = facts.one(A.SD + "::max_threads")
    report.touched(dm, config)
    bt = prog.bt(dm)
    ret = bt.local(0)
    names = []
    t = ret
    fnrefs = []
    while isinstance(t, tuple) and t and t[0] == "call":
        c = bt.callee(t[1])
        names.append(c.name)
        for a in t[2][1:]:
            if a[0] == "fnref":
                fnrefs.append(a[1])
            elif a[0] == "int":
                fnrefs.append(a)
        t = t[2][0] if t[2] else None
    ok = names in (["unwrap_or", "max", "map", "iter", "deref"], ["unwrap_or", "max", "map", "iter"])
    fold_max = names in (["fold", "map", "iter", "deref"], ["fold", "map", "iter"]) and any(
        isinstance(f_, str) and f_.endswith("::max") or (isinstance(f_, str) and "cmp::Ord" in f_) for f_ in fnrefs) or (
        names[:1] == ["fold"] and any(isinstance(f_, str) and "max" in f_.rsplit("::", 1)[-1] for f_ in fnrefs))
    ok = (ok or fold_max) and sm.key in fnrefs and ("int", 0) in fnrefs and t == ("field", ("param", 1), "stages", A.SD)
    report.ob(rule, "SendDispatcher::max_threads", ok, "self.stages.iter().map(Stage::max_threads).max().unwrap_or(0)" if ok else
              "max_threads is computed as %s over %s" % (list(reversed(names)), t), site=dm.loc(), config=config)
    d = facts.one(A.DISP + "::max_threads")
    bt = prog.bt(d)
    ret = bt.local(0)
    ok = _is_call(d, ret, "max_threads") and ret[2] == (("field", ("param", 1), "inner", A.DISP),)
    report.ob(rule, "Dispatcher::max_threads", ok, "forwards to self.inner.max_threads()", site=d.loc(), config=config)


# ------------------------------------------------------------------ the intersection primitive itself

def intersect_body(ctx, report, rule, facts, config):
    """check_intersection(i, j) is `exists a in i, exists b in j: b == a`: `any` over the whole of `i`, for each
    element `any` over a fresh clone of the whole of `j`, compared with PartialEq::eq; no adaptor in between."""
    prog = ctx.program(facts)
    b = facts.one(A.F_CHECK_INTERSECTION)
    report.touched(b, config)
    bt = prog.bt(b)
    problems = []
    ret = bt.local(0)
    if not (_is_call(b, ret, "any") and bt.callee(ret[1]).trait in A.ITERATOR and ret[2][0] == ("param", 1)):
        problems.append("the result is not `i.any(..)` over the whole first iterator (%s)" % (ret[:2],))
    cl1 = facts.closures_of(b, False)
    if len(cl1) != 1:
        problems.append("expected one closure in check_intersection")
    else:
        c1 = cl1[0]
        report.touched(c1, config)
        bt1 = prog.bt(c1)
        r1 = bt1.local(0)
        ok1 = (_is_call(c1, r1, "any") and bt1.callee(r1[1]).trait in A.ITERATOR and _is_call(c1, r1[2][0], "clone") and r1[2][0][2] == (("upvar", "j"),))
        if not ok1:
            problems.append("each element of `i` is not tested with `j.clone().any(..)` over the whole second iterator")
        cr = prog.creation(c1)
        if not (cr and dict(zip(cr[1][4], cr[1][3])).get("j") == ("param", 2)):
            problems.append("the inner scan does not run over the second argument")
        cl2 = facts.closures_of(c1, False)
        if len(cl2) != 1:
            problems.append("expected one innermost closure")
        else:
            c2 = cl2[0]
            report.touched(c2, config)
            bt2 = prog.bt(c2)
            r2 = bt2.local(0)
            ok2 = (_is_call(c2, r2, "eq") and bt2.callee(r2[1]).trait in ("std::cmp::PartialEq", "core::cmp::PartialEq")
                   and set([root(x, bt2, facts.crate)[0] for x in r2[2]]) == set([("param", 2), ("upvar", "elem_i")]))
            if not ok2:
                problems.append("elements are not compared with `==` (element of j against the current element of i)")
            cr2 = prog.creation(c2)
            if not (cr2 and root(dict(zip(cr2[1][4], cr2[1][3])).get("elem_i"), bt1, facts.crate)[0] == ("param", 2)):
                problems.append("the compared element is not the current element of `i`")
    report.ob(rule, "check_intersection/body", not problems, "; ".join(problems) if problems else
              "i.any(|a| j.clone().any(|b| *b == *a)): full scan of both sides, equality only", site=b.loc(), config=config)
    # ids are compared with the compiler-derived equality over all their fields
    for adt in (A.RESID, A.SYSID):
        ims = [im for im in facts.impls if im.get("trait") == "std::cmp::PartialEq" and im.get("self_head") == adt]
        ok = len(ims) == 1 and ims[0]["auto_derived"]
        report.ob(rule, "derived-eq/%s" % adt.rsplit("::", 1)[1], ok, "#[derive(PartialEq)] over all fields" if ok else
                  "%s has a hand-written PartialEq: conflicts between ids that differ in an ignored field would be missed or invented" % adt, config=config)
