"""Rules on DispatcherBuilder::add / next_id (C02.IDS, C18.REJECT, C18.EMPTY,
C18.NOEXTRA, C18.ARITH)."""
import re

from . import anchors as A
from . import shared as S
from . import placement as P
from .facts import Callee, AnchorError
from .paths import enumerate_paths
from .shapes import root
from .terms import subterms

PANIC_FNS = set(["panic_fmt", "panic", "panic_display", "unreachable_display", "panic_explicit", "assert_failed", "expect_failed",
                 "unwrap_failed", "panic_str", "panic_nounwind", "begin_panic", "panic_cold_explicit", "panic_cold_display"])
PANICKY_METHODS = set(["unwrap", "expect", "unwrap_err", "expect_err", "unwrap_unchecked"])


def const_strings(body):
    out = []
    for blk in body.blocks:
        for st in blk["stmts"]:
            if st["k"] == "assign":
                rv = st["rv"]
                for k in ("op", "a", "b"):
                    o = rv.get(k)
                    if isinstance(o, dict) and o.get("k") == "const" and "val" in o:
                        out.append(o["val"])
        t = blk["term"]
        if t["k"] == "call":
            for a in t["args"]:
                if a.get("k") == "const" and "val" in a:
                    out.append(a["val"])
    return out


def ids(ctx, report, rule, facts, config, rejected_leaves_map=False):
    """C02.IDS: add() draws one fresh id, resolves every dependency name
    through the map before its own name is entered, and gives the same id to
    the map and to insert."""
    prog = ctx.program(facts)
    add = facts.one(A.DB + "::add")
    report.touched(add, config)
    paths = [p for p in enumerate_paths(add, facts) if p.end == "return"]
    problems = []
    for p in paths:
        calls = p.calls()
        nid = [e for e in calls if e[2].name == "next_id" and e[2].self_head == A.DB]
        ins = [e for e in calls if e[2].name == "insert" and e[2].self_head == A.SB]
        col = [e for e in calls if e[2].name == "collect"]
        ent = [e for e in calls if e[2].name == "entry" and "HashMap" in e[2].path]
        vin = [e for e in calls if e[2].name == "insert" and "VacantEntry" in e[2].path]
        if len(nid) != 1:
            problems.append("next_id is called %d time(s) on a path" % len(nid))
            continue
        idt = ("call", nid[0][1], nid[0][3])
        if len(ins) != 1:
            problems.append("StagesBuilder::insert is called %d time(s) on a path" % len(ins))
            continue
        a = ins[0][3]
        if a[2] != idt:
            problems.append("the id handed to insert is not the fresh id")
        if not (a[0] == ("field", ("param", 1), "stages_builder", A.DB) and a[3] == ("param", 2)):
            problems.append("insert is not called as self.stages_builder.insert(deps, id, system)")
        if len(col) != 1 or a[1] != ("call", col[0][1], col[0][3]):
            problems.append("the dependency list handed to insert is not the one collected from `dep`")
        else:
            # collected from dep.iter().map(lookup)
            src = col[0][3][0]
            okd = P._is_call(add, src, "map") and root(src[2][0], prog.bt(add), facts.crate)[0] == ("param", 4)
            if not okd:
                problems.append("dependencies are not collected from every entry of `dep`")
        for v in vin:
            if v[3][1] != idt:
                problems.append("the id entered into the name map is not the fresh id")
            if col and p.blocks.index(col[0][1]) > p.blocks.index(v[1]):
                problems.append("the system's own name is entered before its dependencies are resolved")
        for e in ent:
            if col and p.blocks.index(col[0][1]) > p.blocks.index(e[1]):
                problems.append("the name map is modified before the dependencies are resolved")
    # a registration that is rejected (panics) must leave the name map as it was: every change of the
    # map lies on a path that goes on to place the system under the same id
    for p in (enumerate_paths(add, facts) if rejected_leaves_map else []):
        muts = []
        for e in p.calls():
            c = e[2]
            if c.local or not e[3]:
                continue
            if c.name == "insert" and "VacantEntry" in c.path:
                muts.append(e)
            elif c.name in ("insert", "remove", "clear", "retain", "extend", "drain") and ("HashMap" in c.path or "AHashMap" in c.path):
                f_, i_, base = S.table_access(add, e[3][0])
                if S.crate_fields(f_)[-1:] == [(A.DB, "map")]:
                    muts.append(e)
        placed = [e for e in p.calls() if e[2].name == "insert" and e[2].self_head == A.SB]
        if muts and (p.end != "return" or len(placed) != 1):
            problems.append("the name map is changed by `%s` on a path that does not place the system (a rejected registration leaves a stale name: the printed plan no longer matches what runs)" % muts[0][2].name)
    report.ob(rule, "add/ids", not problems and len(paths) >= 2, "; ".join(sorted(set(problems))) if problems else
              "one fresh id per call, dependencies resolved first, same id for the name map and the placement (%d paths)" % len(paths), site=add.loc(), config=config)
    # the lookup closure: map.get(name) on the captured map
    look = [c for c in facts.closures_of(add, False)]
    ok = False
    if len(look) == 1:
        lb = look[0]
        report.touched(lb, config)
        bt = prog.bt(lb)
        gets = [bb for bb, t in lb.normal_calls() if Callee(t["func"]).name == "get" and "HashMap" in Callee(t["func"]).path]
        ok = len(gets) == 1 and bt.call_args(gets[0])[0][0] == "upvar" and root(bt.call_args(gets[0])[1], bt, facts.crate)[0] == ("param", 2)
        cr = prog.creation(lb)
        if ok and cr:
            caps = dict(zip(cr[1][4], cr[1][3]))
            ok = list(caps.values()) == [("field", ("param", 1), "map", A.DB)]
    report.ob(rule, "add/lookup", ok, "each dependency name is looked up with self.map.get(name)" if ok else "dependency names are not resolved through self.map.get", site=add.loc(), config=config)
    # next_id: returns SystemId(current_id), stores current_id + 1
    nb = facts.one(A.DB + "::next_id")
    report.touched(nb, config)
    ps = [p for p in enumerate_paths(nb, facts) if p.end == "return"]
    ok = len(ps) == 1
    if ok:
        p = ps[0]
        cur = ("field", ("param", 1), "current_id", A.DB)
        st = [e for e in p.effects if e[0] == "store" and e[2] == cur]
        ok = (p.ret[0] == "agg" and p.ret[2] == A.SYSID + "::SystemId" and p.ret[3] == (cur,) and len(st) == 1 and P.fold_like(st[0][3], cur, 1))
    report.ob(rule, "next_id", ok, "returns SystemId(current_id) and stores current_id + 1" if ok else "next_id does not hand out consecutive fresh ids", site=nb.loc(), config=config)
    # nobody else writes current_id or the map
    n = 0
    for b in sorted(facts.bodies.values(), key=lambda b: b.key):
        for bi, blk in enumerate(b.blocks):
            if blk["cleanup"]:
                continue
            for st in blk["stmts"]:
                if st["k"] == "assign":
                    pp = st["place"]["p"]
                    if pp and pp[-1]["k"] == "field" and pp[-1].get("adt") == A.DB and pp[-1].get("name") == "current_id":
                        n += 1
                        report.ob(rule, "current_id-writer/%s" % b.qname, b.key == nb.key, "current_id is assigned in %s" % b.qname, site=b.loc(bi), config=config)
    report.floor(rule, "writers of current_id", n, 1, config=config)


def reject(ctx, report, rule, facts, config):
    """C18.REJECT / EMPTY: the two documented panics are exactly guarded."""
    prog = ctx.program(facts)
    add = facts.one(A.DB + "::add")
    report.touched(add, config)
    all_paths = enumerate_paths(add, facts)
    problems = []
    dup_seen = False
    n_ok_paths = 0
    for p in all_paths:
        is_empty = None
        entry_variant = None
        for (ct, cv, cn, cb) in p.conds:
            if P._is_call(add, ct, "is_empty") and ct[2] == (("param", 3),):
                is_empty = cv
            elif ct[0] == "discr" and P._is_call(add, ct[1], "entry"):
                entry_variant = cn
        vin = [e for e in p.calls() if e[2].name == "insert" and "VacantEntry" in e[2].path]
        ins = [e for e in p.calls() if e[2].name == "insert" and e[2].self_head == A.SB]
        ent = [e for e in p.calls() if e[2].name == "entry" and "HashMap" in e[2].path]
        if p.end == "diverge":
            last = p.calls()[-1]
            if last[2].name not in PANIC_FNS:
                # a diverging callee that is not a panic function: the dependency lookup closure panics inside collect -> not visible here
                problems.append("add diverges in %s" % last[2].short())
                continue
            if not (is_empty == 0 and entry_variant == "Occupied"):
                problems.append("add panics on a path that is not (name non-empty, name already registered): is_empty=%s entry=%s" % (is_empty, entry_variant))
            else:
                dup_seen = True
                strs = " ".join(const_strings(add))
                if "same name" not in strs:
                    problems.append("the duplicate-name panic does not carry the documented message")
                # the message formats `name`
                fmt = [e for e in p.calls() if e[2].name in ("new_display", "new_debug")]
                if not any(root(e[3][0], None)[0] == ("param", 3) for e in fmt):
                    problems.append("the duplicate-name panic does not quote the offending name")
            if ins:
                problems.append("the system is inserted before the duplicate-name panic")
        elif p.end == "return":
            n_ok_paths += 1
            if len(ins) != 1:
                problems.append("a returning path inserts the system %d time(s)" % len(ins))
            if is_empty == 1:
                if ent or vin:
                    problems.append("an empty name touches the name map")
            elif is_empty == 0:
                if entry_variant != "Vacant" or len(vin) != 1:
                    problems.append("a non-empty name is accepted without being entered into a vacant slot of the name map")
                elif ent and ent[0][3][0] is not None:
                    key = ent[0][3][1]
                    if not (P._is_call(add, key, "to_owned") and key[2] == (("param", 3),)):
                        problems.append("the name map entry is not keyed by `name`")
            else:
                problems.append("a returning path does not test name.is_empty()")
            if vin and ins and p.blocks.index(vin[0][1]) > p.blocks.index(ins[0][1]):
                problems.append("the name is registered after the system was placed")
    if not dup_seen:
        problems.append("no path of add rejects a duplicate non-empty name")
    report.ob(rule, "add/duplicate-name", not problems and n_ok_paths >= 2, "; ".join(sorted(set(problems))) if problems else
              "panics exactly when a non-empty name is already registered (message quotes the name), before the system is placed; empty names never touch the map",
              site=add.loc(), config=config)
    # unknown dependency: lookup closure -> unwrap_or_else(|| panic!("No such system ..", name))
    look = facts.closures_of(add, False)
    pr = []
    if len(look) != 1:
        pr.append("expected one lookup closure in add, found %d" % len(look))
    else:
        lb = look[0]
        report.touched(lb, config)
        ps = enumerate_paths(lb, facts)
        rets = [p for p in ps if p.end == "return"]
        if len(rets) != 1:
            pr.append("lookup closure has %d returning paths" % len(rets))
        else:
            r = rets[0].ret
            b_, p_ = root(r, None)
            if not (P._is_call(lb, b_, "unwrap_or_else") and P._is_call(lb, b_[2][0], "get")):
                pr.append("a dependency name that is not in the map does not reach the panic (lookup result is %s)" % (r[:2],))
            else:
                inner = [c for c in facts.closures_of(lb, False)]
                if len(inner) != 1:
                    pr.append("unwrap_or_else handler not found")
                else:
                    ib = inner[0]
                    report.touched(ib, config)
                    ips = enumerate_paths(ib, facts)
                    if not ips or any(p.end != "diverge" or p.calls()[-1][2].name not in PANIC_FNS for p in ips):
                        pr.append("the handler for an unknown dependency can return")
                    if "No such system" not in " ".join(const_strings(ib)):
                        pr.append("the unknown-dependency panic does not carry the documented message")
                    fm = [e for p in ips for e in p.calls() if e[2].name in ("new_display", "new_debug")]
                    if not any(root(e[3][0], None)[0] == ("upvar", "x") or root(e[3][0], None)[0][0] == "upvar" for e in fm):
                        pr.append("the unknown-dependency panic does not quote the offending name")
                    # handler captures the name being looked up
                    cr = prog.creation(ib)
                    if cr:
                        caps = list(cr[1][3])
                        if not caps or root(caps[0], None)[0] != ("param", 2):
                            pr.append("the handler does not capture the looked-up name")
    report.ob(rule, "add/unknown-dependency", not pr, "; ".join(pr) if pr else
              "map.get(name).unwrap_or_else(|| panic!(\"No such system registered (..)\", name)): panics exactly on a missing name, quoting it", site=add.loc(), config=config)


def noextra(ctx, report, rule, facts, config):
    """C18.NOEXTRA: the registration methods that must be total contain no panic construct."""
    names = ["add_thread_local", "with_thread_local", "add_barrier", "with_barrier", "new", "is_empty", "num_systems", "has_system", "contains"]
    bodies = [facts.one(A.DB + "::" + n) for n in names] + [facts.one(A.SB + "::add_barrier")]
    n = 0
    for b in bodies:
        report.touched(b, config)
        bad = panic_constructs(b)
        n += 1
        report.ob(rule, "total/%s" % b.qname, not bad, "no panic construct" if not bad else "contains %s" % ", ".join("%s at %s" % (w, b.loc(bb)) for bb, w in bad),
                  site=b.loc(bad[0][0]) if bad else b.loc(), config=config)
    report.floor(rule, "total registration methods", n, 10, config=config)


def panic_constructs(body, allow_overflow=False):
    """(bb, what) for every construct of the body that can panic by itself."""
    out = []
    for bb, blk in enumerate(body.blocks):
        if blk["cleanup"]:
            continue
        t = blk["term"]
        if t["k"] == "call":
            c = Callee(t["func"])
            if c.name in PANIC_FNS and c.crate in ("core", "std"):
                out.append((bb, "panic (%s)" % c.name))
            elif c.name in PANICKY_METHODS and not c.local and ("Option" in c.path or "Result" in c.path):
                out.append((bb, "%s()" % c.name))
            elif c.name in ("index", "index_mut") and not c.local:
                out.append((bb, "indexing (%s)" % (c.self_arg_s or c.path)[:60]))
            elif t["target"] is None and not c.local:
                out.append((bb, "diverging call %s" % c.short()))
        elif t["k"] == "assert":
            if t["msg"] in ("null", "misaligned"):
                continue
            if t["msg"].startswith("overflow") and allow_overflow:
                continue
            out.append((bb, "%s check" % t["msg"]))
    return out


def arith(ctx, report, rule, facts, config):
    """C18.ARITH: the u8 accumulation of running times and the i8 casts in
    improves_balance cannot overflow: (K + 1) * max(RunningTime) <= 127."""
    rt = facts.adt(A.C + "::system::RunningTime")
    mx = max(v["discr"] for v in rt["variants"])
    mn = min(v["discr"] for v in rt["variants"])
    prog = ctx.program(facts)
    k, k_site = P.group_bound(ctx, facts)
    ok = k is not None and mn >= 0 and (k + 1) * mx <= 127
    report.ob(rule, "running-time-arithmetic", ok, "group size <= %s, RunningTime in %s..%s: accumulated time <= %s, candidate time <= %s <= 127" % (
        k, mn, mx, None if k is None else k * mx, None if k is None else (k + 1) * mx), site=k_site, config=config)
    # every system's time enters as `new_time as u8` of that enum
    ins = facts.one(A.SB + "::insert")
    bt = prog.bt(ins)
    rts = [bb for bb, t in ins.normal_calls() if Callee(t["func"]).name == "running_time" and Callee(t["func"]).trait == A.T_SYSTEM]
    report.ob(rule, "running-time-source", len(rts) == 1, "insert reads the hint from System::running_time once", site=ins.loc(), config=config)
