"""Rules on DispatcherBuilder::add / next_id (C02.IDS, C18.REJECT, C18.EMPTY,
C18.NOEXTRA, C18.ARITH)."""
import re

from . import anchors as A
from . import shared as S
from . import placement as P
from .facts import Callee, AnchorError
from .paths import enumerate_paths
from .shapes import root
from .terms import subterms

PANIC_FNS = set(["panic_fmt", "panic", "panic_display", "unreachable_display", "panic_explicit", "assert_failed", "expect_failed",
                 "unwrap_failed", "panic_str", "panic_nounwind", "begin_panic", "panic_cold_explicit", "panic_cold_display"])
PANICKY_METHODS = set(["unwrap", "expect", "unwrap_err", "expect_err", "unwrap_unchecked"])


def const_strings(body):
    out = []
    for blk in body.blocks:
        for st in blk["stmts"]:
            if st["k"] == "assign":
                rv = st["rv"]
                for k in ("op", "a", "b"):
                    o = rv.get(k)
                    if isinstance(o, dict) and o.get("k") == "const" and "val" in o:
                        out.append(o["val"])
        t = blk["term"]
        if t["k"] == "call":
            for a in t["args"]:
                if a.get("k") == "const" and "val" in a:
                    out.append(a["val"])
    return out


NAME_P = 3   # position of the `name` parameter of the registration entry being looked at (set by _entries' users)
DEP_P = 4    # position of its `dep` parameter


class _Entry(object):
    def __init__(self, body, ev, ends, name_p, dep_p):
        self.body, self.ev, self.ends, self.name_p, self.dep_p = body, ev, ends, name_p, dep_p
        self.label = body.name


def _params_by_type(b):
    names = [i for i in range(1, b.arg_count + 1) if b.locals[i]["ty"].replace("'_ ", "").replace(" ", "") in ("&str",) or re.match(r"^&('\w+ )?str$", b.locals[i]["ty"])]
    deps = [i for i in range(1, b.arg_count + 1) if re.match(r"^&('\w+ )?\[&('\w+ )?str\]$", b.locals[i]["ty"])]
    return names, deps


def _entries(ctx, facts):
    """The registration entries: every method of DispatcherBuilder that hands a system to StagesBuilder::insert itself
    (rather than through another entry).  On today's tree that is `add`; `add_batch` goes through `add`."""
    from . import semq as Q
    add = facts.one(A.DB + "::add")
    nid = facts.one(A.DB + "::next_id")
    ins = facts.one(A.SB + "::insert")
    out = []
    for b in sorted(facts.find(self_head=A.DB, container="inherent"), key=lambda b: b.key):
        if b.is_closure or b.key in (nid.key,):
            continue
        cone = facts.cone([b], stop=lambda x: x.key == ins.key or (x.key == add.key and b.key != add.key))
        if not any(Callee(t["func"]).key == ins.key or Callee(t["func"]).resolved_key == ins.key for x in cone.values() for bb, t in x.normal_calls()):
            continue
        if not b.api and S.owned_by(facts, b, set(x.key for x in facts.find(self_head=A.DB, container="inherent") if x.api)):
            continue   # a private helper of an entry: looked at inside the entry
        # an entry other than `add` may do more than registering (add_batch builds the inner dispatcher first): what it does
        # besides is kept out of the picture
        extra = [add.key] + [x.key for x in facts.bodies.values() if not x.is_closure and (
            (x.self_head == A.DB and x.name in ("build", "build_async", "create_thread_pool")) or (x.self_head == A.SB and x.name in ("fetch_all_reads", "fetch_all_writes"))
            or (x.self_head == A.BCS and x.name == "create") or (x.self_head == A.BACC and x.name == "new"))] if b.key != add.key else []
        ev, ends = Q.sem(ctx, facts, b, opaque=[nid.key, ins.key] + extra)
        if not any(x[0] == "call" and x[2].key == ins.key for e in ends for x in _deep_events(e.path.events)):
            continue
        names, deps = _params_by_type(b)
        if len(names) != 1 or len(deps) != 1:
            raise AnchorError("registration entry %s: expected one `name: &str` and one `dep: &[&str]` parameter, found %d / %d" % (b.qname, len(names), len(deps)))
        out.append(_Entry(b, ev, ends, names[0], deps[0]))
    if not [m for m in out if m.body.key == add.key]:
        raise AnchorError("DispatcherBuilder::add does not place systems through StagesBuilder::insert")
    return add, nid, ins, out


def _add_model(ctx, facts):
    add, nid, ins, entries = _entries(ctx, facts)
    m = [m for m in entries if m.body.key == add.key][0]
    return add, nid, ins, m.ev, m.ends


def _deep_events(events):
    """Events of a path including those of the loop iterations by which its loops were left."""
    out = []
    for x in events:
        out.append(x)
        if x[0] == "loop" and x[2] is not None:
            out.extend(_deep_events(x[1].iters[x[2]].path.events))
    return out


def _strings(events):
    out = []
    for x in _deep_events(events):
        if x[0] == "call":
            for a in x[3]:
                for s_ in subterms(a):
                    if s_[0] == "const" and isinstance(s_[1], str):
                        out.append(s_[1])
    return " ".join(out)


def _map_field(ev, t):
    from . import semq as Q
    f_, i_, base = Q.table_access(ev, t)
    return Q.crate_fields(f_)[-1:] == [(A.DB, "map")] and base == ("param", 1)


def _is_name(ev, t):
    """`t` is the `name` parameter of add (possibly made owned)."""
    from . import semq as Q
    s = Q.strip(ev, t, extra=("to_owned", "to_string", "into", "from", "as_str", "borrow"))
    return s == ("param", NAME_P)


def _name_state(ev, e):
    """What the path knows about `name` being in the map: 'absent' / 'present' / None; plus whether is_empty was decided."""
    from . import semq as Q
    state = None
    for (ct, cv, cn, cs) in e.path.conds:
        if ct[0] == "discr" and Q.is_call(ev, ct[1], "entry") and _map_field(ev, ct[1][2][0]) and _is_name(ev, ct[1][2][1]):
            v = e.path.variant(ct[1])
            state = {"Vacant": "absent", "Occupied": "present"}.get(v, state)
        elif ct[0] == "discr" and Q.is_call(ev, ct[1], "get") and _map_field(ev, ct[1][2][0]) and _is_name(ev, ct[1][2][1]):
            v = e.path.variant(ct[1])
            state = {"None": "absent", "Some": "present"}.get(v, state)
        elif Q.is_call(ev, ct, "contains_key") and _map_field(ev, ct[2][0]) and _is_name(ev, ct[2][1]):
            state = "present" if cv == 1 else "absent"
    return state


def _name_inserts(ev, events):
    """Insertions of `name` into the map among the events: list of (event, id value term)."""
    from . import semq as Q
    out = []
    for x in events:
        if x[0] != "call" or x[2].local or not x[3]:
            continue
        c = x[2]
        if c.name == "insert" and "VacantEntry" in c.path:
            out.append((x, x[3][1]))
        elif c.name == "insert" and ("HashMap" in c.path) and _map_field(ev, x[3][0]) and len(x[3]) == 3 and _is_name(ev, x[3][1]):
            out.append((x, x[3][2]))
    return out


def _dep_loop(ev, e):
    """The traversal of the `dep` parameter on this path: (Loop, index of the way it was left by, position) or None."""
    from . import semq as Q
    hits = [(pos, x) for pos, x in enumerate(e.path.events) if x[0] == "loop" and x[1].source is not None and Q.strip(ev, x[1].source) == ("param", DEP_P)]
    if len(hits) != 1:
        return None
    pos, x = hits[0]
    return x[1], x[2], pos


def _lookup_ways(ev, L):
    """Problems with how one step of the dependency traversal resolves a name."""
    from . import semq as Q
    pr = []
    for it in L.iters:
        if it.end == "done":
            continue
        gets = [c for c in Q.calls_in(it.path.events, lambda c: c.name == "get" and not c.local and "HashMap" in c.path)]
        if len(gets) != 1 or not _map_field(ev, gets[0][3][0]) or Q.strip(ev, gets[0][3][1]) != L.elem:
            pr.append("a dependency name is not resolved by exactly one self.map.get(name)")
            continue
        g = gets[0][4]
        v = it.path.variant(g)
        if it.end == "continue":
            if v != "Some":
                pr.append("a dependency name that is not in the map does not reach the panic")
                continue
            want = ("field", ("variant", g, "Some"), "0", "std::option::Option")
            ys = [x[2] for x in it.path.events if x[0] == "yield"] + [c[3][1] for c in Q.calls_in(it.path.events, lambda c: c.name == "push" and not c.local) if len(c[3]) == 2]
            if len(ys) != 1 or Q.strip(ev, ys[0]) != want:
                pr.append("the id found for a dependency name is not what enters the dependency list")
        elif it.end in ("break", "diverge"):
            if v != "None":
                pr.append("the dependency traversal stops although the name was found")
        else:
            pr.append("the dependency traversal can return")
    return pr


def ids(ctx, report, rule, facts, config, rejected_leaves_map=False):
    """C02.IDS: add() draws one fresh id, resolves every dependency name through the map before its own name is
    entered, and gives the same id to the map and to insert."""
    from . import semq as Q
    global NAME_P, DEP_P
    add, nidb, insb, entries = _entries(ctx, facts)
    for M in entries:
        NAME_P, DEP_P = M.name_p, M.dep_p
        _ids_one(ctx, report, rule, facts, config, M, add, nidb, insb, rejected_leaves_map)
    NAME_P, DEP_P = 3, 4
    _ids_rest(ctx, report, rule, facts, config, nidb)


def _ids_one(ctx, report, rule, facts, config, M, addb, nidb, insb, rejected_leaves_map):
    from . import semq as Q
    add, ev, ends = M.body, M.ev, M.ends
    report.touched(add, config)
    rets = [e for e in ends if e.kind == "return"]
    problems = []
    lookup = []
    for e in rets:
        calls = [x for x in e.path.events if x[0] == "call"]
        pos = dict((id(x), i) for i, x in enumerate(e.path.events))
        nid = [x for x in calls if x[2].key == nidb.key]
        ins = [x for x in calls if x[2].key == insb.key]
        ent = [x for x in calls if x[2].name == "entry" and "HashMap" in x[2].path]
        vin_pairs = _name_inserts(ev, calls)
        vin = [x for x, _ in vin_pairs]
        if len(nid) != 1:
            problems.append("next_id is called %d time(s) on a path" % len(nid))
            continue
        idt = nid[0][4]
        if len(ins) != 1:
            problems.append("StagesBuilder::insert is called %d time(s) on a path" % len(ins))
            continue
        a = ins[0][3]
        if Q.strip(ev, a[2]) != idt:
            problems.append("the id handed to insert is not the fresh id")
        if not (a[0] == ("field", ("param", 1), "stages_builder", A.DB) and (a[3] == ("param", 2) or add.key != addb.key)):
            problems.append("insert is not called as self.stages_builder.insert(deps, id, system)")
        dl = _dep_loop(ev, e)
        if dl is None:
            problems.append("dependencies are not collected from every entry of `dep`")
        else:
            L, idx, lpos = dl
            if idx is None or L.iters[idx].end != "done" or L.stages and [n for n, _ in L.stages if n != "map"]:
                problems.append("dependencies are not collected from every entry of `dep`")
            lst = Q.strip(ev, a[1])
            built_here = (lst[0] == "call" and lst[1] == L.site) or any(
                Q.strip(ev, c[3][0]) == lst for it in L.iters for c in Q.calls_in(it.path.events, lambda c: c.name == "push" and not c.local))
            if not built_here:
                problems.append("the dependency list handed to insert is not the one collected from `dep`")
            lookup.extend(_lookup_ways(ev, L))
            for v in vin:
                if pos[id(v)] < lpos:
                    problems.append("the system's own name is entered before its dependencies are resolved")
            for x in ent:
                if pos[id(x)] < lpos:
                    problems.append("the name map is modified before the dependencies are resolved")
        for v, idv in vin_pairs:
            if Q.strip(ev, idv) != idt:
                problems.append("the id entered into the name map is not the fresh id")
    # a registration that is rejected (panics) must leave the name map as it was: every change of the
    # map lies on a path that goes on to place the system under the same id
    for e in (ends if rejected_leaves_map else []):
        muts = []
        for x in _deep_events(e.path.events):
            if x[0] != "call" or x[2].local or not x[3]:
                continue
            c = x[2]
            if c.name == "insert" and "VacantEntry" in c.path:
                muts.append(x)
            elif c.name in ("insert", "remove", "clear", "retain", "extend", "drain") and ("HashMap" in c.path or "AHashMap" in c.path) and _map_field(ev, x[3][0]):
                muts.append(x)
        placed = [x for x in e.path.events if x[0] == "call" and x[2].key == insb.key]
        if muts and (e.kind != "return" or len(placed) != 1):
            problems.append("the name map is changed by `%s` on a path that does not place the system (a rejected registration leaves a stale name: the printed plan no longer matches what runs)" % muts[0][2].name)
    report.ob(rule, "%s/ids" % M.label, not problems and len(rets) >= 2, "; ".join(sorted(set(problems))) if problems else
              "one fresh id per call, dependencies resolved first, same id for the name map and the placement (%d paths)" % len(rets), site=add.loc(), config=config)
    report.ob(rule, "%s/lookup" % M.label, not lookup and bool(rets), "each dependency name is looked up with self.map.get(name)" if not lookup else "; ".join(sorted(set(lookup))), site=add.loc(), config=config)


def _ids_rest(ctx, report, rule, facts, config, nidb):
    from . import semq as Q
    # next_id: returns SystemId(current_id), stores current_id + 1
    nb = nidb
    report.touched(nb, config)
    ev2, ends2 = Q.sem(ctx, facts, A.DB + "::next_id")
    r2 = [e for e in ends2 if e.kind == "return"]
    ok = len(r2) == 1
    if ok:
        e = r2[0]
        cur = ("field", ("param", 1), "current_id", A.DB)
        st = [x for x in e.path.events if x[0] == "store" and x[2] == cur]
        ok = (e.ret[0] == "agg" and e.ret[2] == A.SYSID + "::SystemId" and e.ret[3] == (cur,) and len(st) == 1 and P.fold_like(st[0][3], cur, 1))
    report.ob(rule, "next_id", ok, "returns SystemId(current_id) and stores current_id + 1" if ok else "next_id does not hand out consecutive fresh ids", site=nb.loc(), config=config)
    # nobody else writes current_id or the map
    n = 0
    for b in sorted(facts.bodies.values(), key=lambda b: b.key):
        for bi, blk in enumerate(b.blocks):
            if blk["cleanup"]:
                continue
            for st in blk["stmts"]:
                if st["k"] == "assign":
                    pp = st["place"]["p"]
                    rv_ = st["rv"]
                    if rv_.get("k") in ("ref", "rawptr") and str(rv_.get("bk", "")).lower().startswith("mut"):
                        pp = rv_["place"]["p"]    # an exclusive borrow of the counter is a way to write it
                    if pp and pp[-1]["k"] == "field" and pp[-1].get("adt") == A.DB and pp[-1].get("name") == "current_id":
                        n += 1
                        report.ob(rule, "current_id-writer/%s" % b.qname, b.key == nb.key, "current_id is assigned in %s" % b.qname, site=b.loc(bi), config=config)
    report.floor(rule, "writers of current_id", n, 1, config=config)


def reject(ctx, report, rule, facts, config):
    """C18.REJECT / EMPTY: the two documented panics are exactly guarded."""
    global NAME_P, DEP_P
    add, nidb, insb, entries = _entries(ctx, facts)
    for M in entries:
        NAME_P, DEP_P = M.name_p, M.dep_p
        _reject_one(ctx, report, rule, facts, config, M, insb)
    NAME_P, DEP_P = 3, 4
    _forwarders(ctx, report, rule, facts, config, add, [m.body.key for m in entries])
    _map_writers(ctx, report, rule, facts, config, set(m.body.key for m in entries))


MAP_MUTATORS = set(["insert", "remove", "remove_entry", "clear", "retain", "drain", "entry", "extend", "get_mut", "values_mut", "iter_mut", "try_insert", "extract_if"])


def _map_writers(ctx, report, rule, facts, config, entry_keys):
    """The name map is what the duplicate test and the dependency lookup consult: it says which names are taken only if nothing but
    the registration entries (and helpers only they reach) ever changes it."""
    from . import inventory as I
    n = 0
    for b in sorted(facts.bodies.values(), key=lambda b: b.key):
        for bb, t in b.normal_calls():
            c = Callee(t["func"])
            if c.local or c.name not in MAP_MUTATORS:
                continue
            ty = I.recv_ty(t)
            if not (("SystemId" in ty or "SystemId" in c.inst_path) and ("HashMap<std::string::String" in ty or "HashMap::<std::string::String" in c.inst_path)):
                continue
            n += 1
            r = facts.bodies.get(b.root_key, b) if b.is_closure and b.root_key else b
            ok = S.owned_by(facts, r, entry_keys)
            report.ob(rule, "name-map-writer/%s/%s" % (r.qname, c.name), ok, "the name map is changed (%s) in a registration entry" % c.name if ok else
                      "the name map is changed through `%s` in %s, which is not a registration entry: the duplicate test and the dependency lookup would no longer see the names of the registered systems" % (c.name, r.qname),
                      site=b.loc(bb), config=config)
    report.floor(rule, "writes to the name map", n, 1, config=config)


def _forwarders(ctx, report, rule, facts, config, add, entry_keys):
    """A method of the builder that registers through another entry (`add_batch` -> `add`) hands its own `name` and `dep` on
    unchanged: otherwise what is checked for the entry is not what the caller asked for."""
    from . import semq as Q
    n = 0
    for b in sorted(facts.find(self_head=A.DB, container="inherent"), key=lambda b: b.key):
        if b.is_closure or b.key in entry_keys:
            continue
        names, deps = _params_by_type(b)
        if len(names) != 1 or len(deps) != 1:
            continue
        if not any(Callee(t["func"]).key == add.key or Callee(t["func"]).resolved_key == add.key for bb, t in b.normal_calls()):
            continue
        n += 1
        report.touched(b, config)
        ev, ends = Q.sem(ctx, facts, b, opaque=[add.key, A.DB + "::build", A.SB + "::fetch_all_reads", A.SB + "::fetch_all_writes"])
        an, ad = _params_by_type(add)
        ok = bool(Q.returns(ends))
        for e in Q.returns(ends):
            cs = [x for x in _deep_events(e.path.events) if x[0] == "call" and x[2].key == add.key]
            if len(cs) != 1 or Q.strip(ev, cs[0][3][an[0] - 1]) != ("param", names[0]) or Q.strip(ev, cs[0][3][ad[0] - 1]) != ("param", deps[0]) or Q.strip(ev, cs[0][3][0]) != ("param", 1):
                ok = False
        report.ob(rule, "%s/forwards" % b.name, ok, "registers through add(.., name, dep) with its own name and dep, once on every way" if ok else
                  "%s does not hand its own name and dependency list to add exactly once" % b.name, site=b.loc(), config=config)
    report.floor(rule, "methods registering through add", n, 1, config=config)


def _reject_one(ctx, report, rule, facts, config, M, insb):
    from . import semq as Q
    add, ev, ends = M.body, M.ev, M.ends
    report.touched(add, config)
    problems = []
    pr = []
    dup_seen = False
    unk_seen = False
    n_ok_paths = 0
    for e in ends:
        is_empty = None
        for (ct, cv, cn, cs) in e.path.conds:
            if Q.is_call(ev, ct, "is_empty") and Q.strip(ev, ct[2][0]) == ("param", NAME_P):
                is_empty = cv
        entry_variant = {"absent": "Vacant", "present": "Occupied"}.get(_name_state(ev, e))
        deep = _deep_events(e.path.events)
        calls = [x for x in e.path.events if x[0] == "call"]
        vin = [x for x, _ in _name_inserts(ev, calls)]
        ins = [x for x in calls if x[2].key == insb.key]
        ent = [x for x in calls if not x[2].local and x[2].name in ("entry", "contains_key", "get", "insert", "remove") and "HashMap" in x[2].path
               and x[3] and _map_field(ev, x[3][0]) and len(x[3]) > 1 and _is_name(ev, x[3][1])]
        pos = dict((id(x), i) for i, x in enumerate(e.path.events))
        if e.kind == "diverge":
            dcalls = [x for x in deep if x[0] == "call"]
            last = dcalls[-1] if dcalls else None
            if last is None or last[2].name not in PANIC_FNS:
                if [x for x in deep if x[0] == "panic"]:
                    problems.append("add panics through %s()" % [x for x in deep if x[0] == "panic"][-1][2])
                else:
                    problems.append("add diverges in %s" % (last[2].short() if last else "?"))
                continue
            dl = _dep_loop(ev, e)
            unknown = None
            if dl is not None and dl[1] is not None and dl[0].iters[dl[1]].end in ("break", "diverge"):
                L = dl[0]
                for (ct, cv, cn, cs) in dl[0].iters[dl[1]].path.conds:
                    if ct[0] == "discr" and Q.is_call(ev, ct[1], "get") and _map_field(ev, ct[1][2][0]) and Q.strip(ev, ct[1][2][1]) == L.elem:
                        unknown = dl[0].iters[dl[1]].path.variant(ct[1])
            if unknown == "None":
                unk_seen = True
                if "No such system" not in _strings(e.path.events):
                    pr.append("the unknown-dependency panic does not carry the documented message")
                fm = [x for x in deep if x[0] == "call" and x[2].name in ("new_display", "new_debug")]
                if not any(Q.strip(ev, x[3][0]) == dl[0].elem for x in fm):
                    pr.append("the unknown-dependency panic does not quote the offending name")
                if ins:
                    pr.append("the system is inserted before the unknown-dependency panic")
            elif is_empty == 0 and entry_variant == "Occupied":
                dup_seen = True
                if "same name" not in _strings(e.path.events):
                    problems.append("the duplicate-name panic does not carry the documented message")
                fm = [x for x in deep if x[0] == "call" and x[2].name in ("new_display", "new_debug")]
                if not any(Q.strip(ev, x[3][0]) == ("param", NAME_P) for x in fm):
                    problems.append("the duplicate-name panic does not quote the offending name")
                if ins:
                    problems.append("the system is inserted before the duplicate-name panic")
            else:
                problems.append("add panics on a path that is not (name non-empty, name already registered): is_empty=%s entry=%s" % (is_empty, entry_variant))
        elif e.kind == "return":
            n_ok_paths += 1
            if len(ins) != 1:
                problems.append("a returning path inserts the system %d time(s)" % len(ins))
            if is_empty == 1:
                if ent or vin:
                    problems.append("an empty name touches the name map")
            elif is_empty == 0:
                if entry_variant != "Vacant" or len(vin) != 1:
                    problems.append("a non-empty name is accepted without being entered into a vacant slot of the name map")
            else:
                problems.append("a returning path does not test name.is_empty()")
            if vin and ins and pos[id(vin[0])] > pos[id(ins[0])]:
                problems.append("the name is registered after the system was placed")
    if not dup_seen:
        problems.append("no path of add rejects a duplicate non-empty name")
    if not unk_seen:
        pr.append("a dependency name that is not in the map does not reach the panic")
    # no step of the dependency traversal lets a missing name through
    for e in ends:
        dl = _dep_loop(ev, e)
        if dl is not None:
            pr.extend(_lookup_ways(ev, dl[0]))
            break
    # a registration cannot depend on itself: the own name enters the map only after every dependency name was looked up
    for e in ends:
        if e.kind != "return":
            continue
        dl = _dep_loop(ev, e)
        calls_ = [x for x in e.path.events if x[0] == "call"]
        posn = dict((id(x), i) for i, x in enumerate(e.path.events))
        for x, _ in _name_inserts(ev, calls_):
            if dl is None or posn[id(x)] < dl[2]:
                pr.append("the system's own name is entered before its dependencies are resolved: a registration naming itself as a dependency is accepted")
    report.ob(rule, "%s/duplicate-name" % M.label, not problems and n_ok_paths >= 2, "; ".join(sorted(set(problems))) if problems else
              "panics exactly when a non-empty name is already registered (message quotes the name), before the system is placed; empty names never touch the map",
              site=add.loc(), config=config)
    report.ob(rule, "%s/unknown-dependency" % M.label, not pr, "; ".join(sorted(set(pr))) if pr else
              "a dependency name missing from the map panics with \"No such system registered (..)\", quoting it; found names yield their id", site=add.loc(), config=config)


def noextra(ctx, report, rule, facts, config):
    """C18.NOEXTRA: the registration methods that must be total contain no panic construct."""
    names = ["add_thread_local", "with_thread_local", "add_barrier", "with_barrier", "new", "is_empty", "num_systems", "has_system", "contains"]
    bodies = [facts.one(A.DB + "::" + n) for n in names] + [facts.one(A.SB + "::add_barrier")]
    n = 0
    for b in bodies:
        report.touched(b, config)
        bad = panic_constructs(b)
        n += 1
        report.ob(rule, "total/%s" % b.qname, not bad, "no panic construct" if not bad else "contains %s" % ", ".join("%s at %s" % (w, b.loc(bb)) for bb, w in bad),
                  site=b.loc(bad[0][0]) if bad else b.loc(), config=config)
    report.floor(rule, "total registration methods", n, 10, config=config)


def panic_constructs(body, allow_overflow=False):
    """(bb, what) for every construct of the body that can panic by itself."""
    out = []
    for bb, blk in enumerate(body.blocks):
        if blk["cleanup"]:
            continue
        t = blk["term"]
        if t["k"] == "call":
            c = Callee(t["func"])
            if c.name in PANIC_FNS and c.crate in ("core", "std"):
                out.append((bb, "panic (%s)" % c.name))
            elif c.name in PANICKY_METHODS and not c.local and ("Option" in c.path or "Result" in c.path):
                out.append((bb, "%s()" % c.name))
            elif c.name in ("index", "index_mut") and not c.local:
                out.append((bb, "indexing (%s)" % (c.self_arg_s or c.path)[:60]))
            elif t["target"] is None and not c.local:
                out.append((bb, "diverging call %s" % c.short()))
        elif t["k"] == "assert":
            if t["msg"] in ("null", "misaligned"):
                continue
            if t["msg"].startswith("overflow") and allow_overflow:
                continue
            out.append((bb, "%s check" % t["msg"]))
    return out


def arith(ctx, report, rule, facts, config):
    """C18.ARITH: the u8 accumulation of running times and the i8 casts in
    improves_balance cannot overflow: (K + 1) * max(RunningTime) <= 127."""
    rt = facts.adt(A.C + "::system::RunningTime")
    mx = max(v["discr"] for v in rt["variants"])
    mn = min(v["discr"] for v in rt["variants"])
    prog = ctx.program(facts)
    k, k_site = P.group_bound(ctx, facts)
    ok = k is not None and mn >= 0 and (k + 1) * mx <= 127
    report.ob(rule, "running-time-arithmetic", ok, "group size <= %s, RunningTime in %s..%s: accumulated time <= %s, candidate time <= %s <= 127" % (
        k, mn, mx, None if k is None else k * mx, None if k is None else (k + 1) * mx), site=k_site, config=config)
    # every system's time enters as `new_time as u8` of that enum
    ins = facts.one(A.SB + "::insert")
    from . import semq as Q
    ev, ends = Q.sem(ctx, facts, ins, opaque=P.OPAQUE_INS)
    cnt = [len(Q.calls_in(e.path.events, lambda c: c.name == "running_time" and c.trait == A.T_SYSTEM, deep=True)) for e in Q.returns(ends)]
    report.ob(rule, "running-time-source", bool(cnt) and all(c == 1 for c in cnt), "insert reads the hint from System::running_time once on every way (%s)" % cnt, site=ins.loc(), config=config)
