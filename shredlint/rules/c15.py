"""C15 - Async dispatcher: completion is observable and never overtaken."""
from .. import anchors as A
from .. import fanout as F
from .. import poolrules as R
from . import c12

PROP = "C15"
EXPLANATION = (
    "Typestate Data::Inner (world and stages at home) / Data::Rx (in flight), decided structurally: (GATE) the state enum is "
    "inspected and rebuilt only inside `impl Data`; every accessor (setup, wait, wait_without_tl, world, world_mut, res, mut_res) calls "
    "Data::inner() before anything else on every path and returns a reference rooted in it; dispatch goes through Data::sender, in "
    "which inner() dominates the mem::replace that installs Rx; Rx is constructed only there; (BLOCK) inner()'s Rx arm uses the blocking "
    "Receiver::recv and installs the received state, inner_noblock uses try_recv with Empty->None, running() = "
    "inner_noblock().is_none(); (JOB) the spawned closure runs the full stage loop with execute before its single Sender::send of the "
    "same state, exactly one spawn per dispatch; (TL) thread-local systems run only in wait on the caller after inner(). Channel and "
    "pool timing are trusted (std mpsc, rayon).")
ASSUMPTIONS = ["std::sync::mpsc: recv blocks until a value or disconnect; rayon::ThreadPool::spawn runs the closure exactly once"]
TRUSTED = ["rustc nightly MIR construction", "shred-facts driver", "shredlint analyses"]
TECHNIQUE = 'static: typestate gate (who inspects Data, blocking inner() on every path of every accessor, inner() dominates replace in sender), state tables of inner / inner_noblock over the structured evaluation (with store forwarding through *self), job ordering (full stage loop, then one send of what sender() handed out), compile_fail witness'
RULE_TEXT = "one obligation per accessor, per state-inspecting body, per decision-table row of Data::inner / inner_noblock, per job ordering site"


def _run_rules(ctx, report):
    for config in ctx.configs:
        if not ctx.parallel(config):
            report.note("config %s: AsyncDispatcher is not compiled without the `parallel` feature" % config)
            continue
        facts = ctx.facts(config)
        report.guard("C15.GATE", R.async_gate, ctx, report, "C15.GATE", facts, config)
        report.guard("C15.BLOCK", R.async_block, ctx, report, "C15.BLOCK", facts, config)
        report.guard("C15.JOB", R.async_job, ctx, report, "C15.JOB", facts, config)
        report.guard("C15.JOB", F.check_family, ctx, report, "C15.JOB", facts, config, (F.RUN, F.SETUP), lambda i: i.startswith("AsyncDispatcher"))
        report.guard("C15.TL", c12.order, ctx, report, facts, config, "C15.TL")
        report.guard("C15.TL", c12.where, ctx, report, facts, config, "C15.TL")


ENCAPSULATED_NOTE = (" (ENCAPSULATED) The premise of all of these - the crate's own code is the only thing that touches this state - is an obligation "
                     "of its own: no field of the types the state lives in can be named outside the crate (effective visibility), and no function a "
                     "user can call hands out `&mut` to one of them.")
EXPLANATION = EXPLANATION + ENCAPSULATED_NOTE
TECHNIQUE = TECHNIQUE + "; encapsulation inventory on rustc's effective visibilities (fields of state types, `&mut` results of callable functions)"


def run(ctx, report):
    _run_rules(ctx, report)
    from .. import shared as _S
    report.guard("C15.CONFIGS", _S.configurations, ctx, report, "C15.CONFIGS")
    for config in ctx.configs:
        report.guard("C15.ENCAPSULATED", _S.encapsulated, ctx, report, "C15.ENCAPSULATED", ctx.facts(config), config, "C15")
