"""C16 - Par/Seq trees: structure is honoured, conflicts are rejected in debug builds."""
from .. import anchors as A
from .. import fanout as F
from .. import shared as S
from .. import semq as Q
from ..facts import Callee
from ..paths import enumerate_paths
from .. import placement as PL
from ..shapes import root, TRANSPARENT
from ..semcov import coverage, Src, SELF

PROP = "C16"
EXPLANATION = (
    "Static structural obligations on src/dispatch/par_seq.rs (feature `parallel`): (SEQ) Seq::run calls head.run and tail.run "
    "exactly once each on every path, head first; (PAR) Par::run hands exactly one head-closure and one tail-closure to exactly one "
    "of pool.join / rayon::join on every path, each closure running its child once; (ACC) reads/writes/setup of Par and Seq "
    "forward once to head and tail with the same accumulator, leaves forward to the system's accessor by matching name; (CHECK) "
    "in the dev profile Par::with intersects exactly {(old writes,new reads),(old writes,new writes),(old reads,new writes)} and "
    "panics iff one of them intersects; with/new wire head/tail as documented; every other function of the crate that builds a two-child Par value (another constructor, a Default impl, a merge) is held to the "
    "same table between exactly the two children it puts side by side; any other node type found in the crate (it implements RunWithPool and keeps children) owes the same accumulation and coverage. "
    "Overlap at run time is rayon's contract.")
ASSUMPTIONS = ["rayon::join / ThreadPool::join run both closures exactly once and return after both finished",
               "checked in the dev profile (debug assertions on), as the property states"]
TRUSTED = ["rustc nightly MIR construction", "shred-facts driver", "shredlint analyses"]
TECHNIQUE = 'static: FANOUT coverage of Par/Seq run/setup/reads/writes (incl. join closures), head-before-tail order and join nesting per way of the structured evaluation, decision table of the debug conflict check in Par::with with operand roles, wiring terms, compile_fail witness'
RULE_TEXT = "one obligation per (node method, child), per path of Par::with, per wiring site"


def _child(ev, t):
    """'head' / 'tail' if the receiver term is that child of self."""
    f_, i_, base = Q.table_access(ev, t)
    cf = Q.crate_fields(f_)
    if base == ("param", 1) and len(cf) == 1 and not i_ and cf[0][1] in ("head", "tail"):
        return cf[0][1]
    return None


def seq_order(ctx, report, facts, config):
    rule = "C16.SEQ"
    for name in ("run", "setup"):
        b = F.timpl(facts, A.T_RUNWITHPOOL, A.SEQ, name)
        report.touched(b, config)
        ev, ends = Q.sem(ctx, facts, b)
        rets = Q.returns(ends)
        ok = bool(rets)
        same = True
        seen = []
        for e in rets:
            cs = [(x, _child(ev, x[3][0])) for x in Q.calls_in(e.path.events, lambda c: c.name == name and c.trait == A.T_RUNWITHPOOL, deep=True) if x[3]]
            order = [w for _, w in cs]
            seen.append(order)
            if order != ["head", "tail"] or Q.all_loops([e]) or any(x[0] in ("once",) for x in e.path.events):
                ok = False
            elif name == "run":
                same = same and all(tuple(Q.strip(ev, a) for a in x[3][1:]) == (("param", 2), ("param", 3)) for x, _ in cs)
        report.ob(rule, "Seq::%s/head-before-tail" % name, ok, "head.%s then tail.%s on every way, on the calling thread" % (name, name) if ok else
                  "Seq::%s does not run head strictly before tail (order of child calls per way: %s)" % (name, seen), site=b.loc(), config=config)
        if name == "run" and ok:
            # both children get the same world and pool
            report.ob(rule, "Seq::run/same-args", same, "children receive (world, pool)", site=b.loc(), config=config)


def par_join(ctx, report, facts, config):
    rule = "C16.PAR"
    b = F.timpl(facts, A.T_RUNWITHPOOL, A.PAR, "run")
    report.touched(b, config)
    ev, ends = Q.sem(ctx, facts, b)
    rets = Q.returns(ends)
    counts = []
    inside = True
    for e in rets:
        depth = 0
        n = 0
        for x in e.path.events:
            if x[0] == "once":
                depth += 1
                n += 1 if x[2] == "join" else 0
            elif x[0] == "once-end":
                depth -= 1
            elif x[0] == "call" and x[2].name == "run" and x[2].trait == A.T_RUNWITHPOOL and x[3] and _child(ev, x[3][0]) and n and depth == 0:
                inside = False
        counts.append(n)
    # running the children one after the other is allowed by the statement ("may overlap"); what is not
    # allowed is a path that joins twice or a join on some paths only while others run nothing (FANOUT decides that)
    ok = bool(rets) and (all(c == 1 for c in counts) or all(c == 0 for c in counts))
    report.ob(rule, "Par::run/one-join", ok, "join calls per way through: %s" % counts, site=b.loc(), config=config)
    report.ob(rule, "Par::run/join-runs-children", inside, "where a join is used, the children run inside it" if inside else
              "a child is run outside the join on a way that joins", site=b.loc(), config=config)


def acc(ctx, report, facts, config):
    rule = "C16.ACC"
    prog = ctx.program(facts)
    n = 0
    nodes = [(A.PAR, "Par", ("head", "tail")), (A.SEQ, "Seq", ("head", "tail"))]
    # any other node type of the crate (it implements RunWithPool and keeps children) owes the same accumulation
    for head, fls in sorted(F.found_carriers(facts).items()):
        if any(im.get("trait") == A.T_RUNWITHPOOL and im.get("self_head") == head for im in facts.impls):
            nodes.append((head, head.rsplit("::", 1)[-1], tuple(fls)))
    for head, hn, children in nodes:
        for name in ("reads", "writes"):
            b = F.timpl(facts, A.T_RUNWITHPOOL, head, name)
            report.touched(b, config)
            bt = prog.bt(b)
            for child in children:
                cov = coverage(prog, b, Src(SELF, [child]), {name})
                report.ob(rule, "%s::%s/%s" % (hn, name, child), cov.status == "once", cov.detail, site=b.loc(), config=config)
                n += 1
                # no cross-over: head.writes inside reads
                other = "writes" if name == "reads" else "reads"
                cov2 = coverage(prog, b, Src(SELF, [child]), {other})
                report.ob(rule, "%s::%s/%s/no-%s" % (hn, name, child, other), cov2.status == "never",
                          "`%s` is not called on %s inside `%s`" % (other, child, name) if cov2.status == "never" else "`%s` of %s is collected into the %s accumulator" % (other, child, name),
                          site=b.loc(), config=config)
            ev, ends = Q.sem(ctx, facts, b)
            oka = bool(Q.returns(ends))
            for e in Q.returns(ends):
                accs = [x[3][1] for x in Q.calls_in(e.path.events, lambda c: c.name == name and c.trait == A.T_RUNWITHPOOL, deep=True) if len(x[3]) == 2]
                if not (len(accs) == len(children) and all(Q.strip(ev, a) == ("param", 2) for a in accs)):
                    oka = False
            report.ob(rule, "%s::%s/accumulator" % (hn, name), oka,
                      "every child appends to the caller's vector", site=b.loc(), config=config)
    # leaves
    for name in ("reads", "writes"):
        b = F.blanket(facts, A.T_RUNWITHPOOL, name)
        report.touched(b, config)
        ev, ends = Q.sem(ctx, facts, b)
        rets = Q.returns(ends)
        ok = bool(rets)
        detail = "%s.extend(self.accessor().%s())" % (name, name)
        for e in rets:
            ext = Q.calls_in(e.path.events, lambda c: c.name in ("extend", "append", "extend_from_slice", "push") and not c.local, deep=True)
            if len(ext) != 1 or Q.all_loops([e]) or ext[0][2].name == "push":
                ok = False
                detail = "leaf `%s` makes %d append(s) on a way through (expected one extend with the accessor's %s)" % (name, len(ext), name)
                continue
            tgt, v = ext[0][3][0], Q.strip(ev, ext[0][3][1], extra=("into_iter",))
            okv = Q.is_call(ev, v, name) and Q.callee_of(ev, v).trait == A.T_ACCESSOR and len(v[2]) == 1
            if okv:
                # accessor of self, however the AccessorCow is looked into
                a = Q.strip(ev, v[2][0])
                while isinstance(a, tuple) and a and a[0] in ("field", "variant"):
                    a = Q.strip(ev, a[1])
                okv = Q.is_call(ev, a, "accessor") and Q.callee_of(ev, a).trait == A.T_SYSTEM and Q.strip(ev, a[2][0]) == ("param", 1)
            if not (okv and Q.strip(ev, tgt) == ("param", 2)):
                ok = False
                detail = "leaf `%s` does not append self.accessor().%s() to the out-parameter" % (name, name)
        report.ob(rule, "leaf::%s" % name, ok, detail, site=b.loc(), config=config)
    report.floor(rule, "node accumulation obligations", n, 8, config=config)


def _top_args(ty):
    """Top-level generic arguments of a type string."""
    if "<" not in ty:
        return []
    inner = ty[ty.index("<") + 1:ty.rindex(">")]
    out, depth, cur = [], 0, ""
    for ch in inner:
        if ch in "<([":
            depth += 1
        elif ch in ">)]":
            depth -= 1
        if ch == "," and depth == 0:
            out.append(cur.strip())
            cur = ""
        else:
            cur += ch
    if cur.strip():
        out.append(cur.strip())
    return [a for a in out if not a.startswith("'")]


def _pair_of(ev, ret):
    """The two children of the parallel pair a returned Par tree puts side by side: the (head, tail) of the outermost Par record
    whose tail is not Nil.  None if the value holds no such pair (a one-child node)."""
    t = ret
    for _ in range(6):
        o = Q.record(ev, t, A.PAR + "::Par")
        if o is None:
            return None
        tl = Q.strip(ev, o.get("tail"))
        if isinstance(tl, tuple) and tl and tl[0] == "agg" and tl[2] == A.NIL + "::Nil":
            t = o.get("head")
            continue
        return Q.strip(ev, o.get("head")), tl
    return None


def par_builders(facts):
    """Functions of the crate (other than Par::new / Par::with) that build a Par node with two children."""
    out = {}
    for b in facts.bodies.values():
        for blk in b.blocks:
            if blk["cleanup"]:
                continue
            for st in blk["stmts"]:
                if st["k"] == "assign" and st["rv"]["k"] == "agg" and st["rv"].get("adt") == A.PAR:
                    args = _top_args(st["place"].get("ty", ""))
                    if len(args) == 2 and args[1] not in (A.NIL, "Nil"):
                        r = facts.bodies.get(b.root_key, b) if b.is_closure and b.root_key else b
                        out[r.key] = r
    return out


def check(ctx, report, facts, config):
    rule = "C16.CHECK"
    b = facts.one(name="with", self_head=A.PAR, container="inherent")
    _table(ctx, report, facts, config, rule, b, "Par::with", True)
    others = [x for x in par_builders(facts).values() if x.key != b.key]
    for x in sorted(others, key=lambda x: x.key):
        # any other way to put two children side by side owes the same debug check between exactly those two children
        _table(ctx, report, facts, config, rule, x, x.qname, False)
    report.ob(rule, "Par/builders", True, "two-child Par nodes are built in Par::with and %d other function(s), each held to the conflict table" % len(others), config=config)
    _wiring(ctx, report, facts, config, rule)


def _table(ctx, report, facts, config, rule, b, label, strict):
    report.touched(b, config)
    ev, ends = Q.sem(ctx, facts, b, opaque=[A.F_CHECK_INTERSECTION])
    expected = set([frozenset(["OLD-W", "NEW-R"]), frozenset(["OLD-W", "NEW-W"]), frozenset(["OLD-R", "NEW-W"])])
    if strict:
        old_t, new_t = ("field", ("param", 1), "head", A.PAR), ("param", 2)
    else:
        pairs = set()
        for e in Q.returns(ends):
            pr = _pair_of(ev, e.ret)
            if pr is not None:
                pairs.add(pr)
        if not pairs:
            report.ob(rule, "%s/pair" % label, True, "no way through returns a two-child Par node", site=b.loc(), config=config)
            return
        if len(pairs) != 1:
            report.ob(rule, "%s/pair" % label, False, "different ways through put different children side by side: not decided", site=b.loc(), config=config)
            return
        old_t, new_t = list(pairs)[0]
    seen_pairs = set()
    n_checks = set()
    n_ret = n_div = 0
    for e in ends:
        roles = {}
        for x in e.path.events:
            if x[0] == "call" and x[2].trait == A.T_RUNWITHPOOL and x[2].name in ("reads", "writes") and len(x[3]) == 2:
                who = Q.strip(ev, x[3][0])
                if who == old_t:
                    side = "OLD"
                elif who == new_t:
                    side = "NEW"
                else:
                    side = "?"
                key = Q.strip(ev, x[3][1])
                role = "%s-%s" % (side, "R" if x[2].name == "reads" else "W")
                roles[key] = role if key not in roles else "mixed"
        conds = []
        for (ct, cv, cn, cs) in e.path.conds:
            if Q.is_call(ev, ct, "check_intersection") and Q.callee_of(ev, ct).key == A.F_CHECK_INTERSECTION:
                # an operand may be a chain of several lists: the test then covers every pair of leaves
                for la in Q.leaves(ev, ct[2][0], order_free=True):
                    for lb in Q.leaves(ev, ct[2][1], order_free=True):
                        pair = frozenset([roles.get(Q.strip(ev, la, extra=("rev",)), "?"), roles.get(Q.strip(ev, lb, extra=("rev",)), "?")])
                        conds.append((pair, cv))
                        seen_pairs.add(pair)
                n_checks.add(ct)
        anyhit = any(v == 1 for _, v in conds)
        if e.kind == "return":
            n_ret += 1
            if anyhit:
                report.ob(rule, "%s/accepts-conflict" % label, False, "a path on which %s intersect returns normally" % sorted(sorted(x) for x, v in conds if v == 1), site=b.loc(), config=config)
            elif set(x for x, _ in conds) != expected:
                report.ob(rule, "%s/accept-path" % label, False, "the accepting path tests %s (expected W/R, W/W, R/W)" % sorted(sorted(x) for x, _ in conds), site=b.loc(), config=config)
            else:
                report.ob(rule, "%s/accept-path" % label, True, "accepts only after all three intersections are empty", site=b.loc(), config=config)
                if not strict:
                    continue
                ret = e.ret
                o = Q.record(ev, ret, A.PAR + "::Par")
                i = Q.record(ev, o.get("head"), A.PAR + "::Par") if o else None
                tl = Q.strip(ev, o.get("tail")) if o else None
                ok = bool(i is not None and Q.strip(ev, i.get("head")) == ("field", ("param", 1), "head", A.PAR) and Q.strip(ev, i.get("tail")) == ("param", 2)
                          and isinstance(tl, tuple) and tl[0] == "agg" and tl[2] == A.NIL + "::Nil")
                report.ob(rule, "%s/wiring" % label, ok, "returns Par { head: Par { head: self.head, tail: sys }, tail: Nil }" if ok else "unexpected result %s" % (ret[:3],), site=b.loc(), config=config)
        elif e.kind == "diverge":
            n_div += 1
            if not anyhit:
                report.ob(rule, "%s/spurious-panic" % label, False, "a path without any intersection panics", site=b.loc(), config=config)
    report.ob(rule, "%s/matrix" % label, seen_pairs == expected,
              "intersections tested: %s" % sorted(sorted(x) for x in seen_pairs), site=b.loc(), config=config)
    report.ob(rule, "%s/outcomes" % label, n_ret >= 1 and n_div >= max(1, len(n_checks)), "%d accepting path(s), %d rejecting path(s) (expected at least 1 and one per intersection test, %d)" % (n_ret, n_div, len(n_checks)), site=b.loc(), config=config)


def _wiring(ctx, report, facts, config, rule):
    # Seq::with / new wiring
    def nested(ev, r, head, hn, inner_head, inner_tail):
        o = Q.record(ev, r, head + "::" + hn)
        if o is None:
            return False
        i = Q.record(ev, o.get("head"), head + "::" + hn)
        t = Q.strip(ev, o.get("tail"))
        return (i is not None and Q.strip(ev, i.get("head")) == inner_head and Q.strip(ev, i.get("tail")) == inner_tail
                and isinstance(t, tuple) and t[0] == "agg" and t[2] == A.NIL + "::Nil")

    sw = facts.one(name="with", self_head=A.SEQ, container="inherent")
    ev2, ends2 = Q.sem(ctx, facts, sw)
    ok = bool(Q.returns(ends2)) and all(nested(ev2, e.ret, A.SEQ, "Seq", ("field", ("param", 1), "head", A.SEQ), ("param", 2)) for e in Q.returns(ends2))
    report.ob(rule, "Seq::with/wiring", ok, "returns Seq { head: Seq { head: self.head, tail: sys }, tail: Nil }" if ok else "unexpected %s" % ([e.ret for e in Q.returns(ends2)],), site=sw.loc(), config=config)
    for head, hn in ((A.PAR, "Par"), (A.SEQ, "Seq")):
        nb = facts.one(name="new", self_head=head, container="inherent")
        ev2, ends2 = Q.sem(ctx, facts, nb)
        ok = bool(Q.returns(ends2))
        for e in Q.returns(ends2):
            o = Q.record(ev2, e.ret, head + "::" + hn)
            t = Q.strip(ev2, o.get("tail")) if o else None
            if not (o and Q.strip(ev2, o.get("head")) == ("param", 1) and isinstance(t, tuple) and t[0] == "agg" and t[2] == A.NIL + "::Nil"):
                ok = False
        report.ob(rule, "%s::new/wiring" % hn, ok, "returns %s { head, tail: Nil }" % hn, site=nb.loc(), config=config)
    # Nil is an empty system
    nil = facts.one(name="run", trait=A.T_SYSTEM, self_head=A.NIL)
    ev2, ends2 = Q.sem(ctx, facts, nil)
    cs = sorted(set(x[2].name for e in ends2 for x in Q.calls_in(e.path.events, lambda c: True, deep=True)))
    report.ob(rule, "Nil::run", not cs and bool(Q.returns(ends2)), "Nil::run is empty" if not cs else "Nil::run calls %s" % cs, site=nil.loc(), config=config)


def macros(ctx, report, rule="C16.MACRO"):
    """par![a, b, c,] expands to Par::new(a).with(b).with(c), seq! likewise with Seq (checked on the probe crate's expansions)."""
    try:
        fs = [f for f in ctx.all_facts("probe") if f.crate == "shred_probe"]
    except Exception as e:
        report.ob(rule, "EXTRACT", False, "probe crate could not be analysed: %s" % str(e)[-300:], config="probe")
        return
    f = fs[0]
    prog = ctx.program(f)
    for fn, head in (("macro_par3", A.PAR), ("macro_seq3", A.SEQ)):
        bs = f.find(qname="shred_probe::positive::" + fn)
        if len(bs) != 1:
            report.ob(rule, fn, False, "probe function %s not found" % fn, config="probe")
            continue
        b = bs[0]
        bt = prog.bt(b)
        t = bt.local(0)
        chain = []
        while isinstance(t, tuple) and t and t[0] == "call":
            c = bt.callee(t[1])
            chain.append((c.name, c.self_head, t[2][1:] if len(t[2]) > 1 else t[2][:1] if c.name == "new" else ()))
            t = t[2][0] if t[2] and c.name != "new" else None
        chain.reverse()
        want = [("new", head, (("param", 1),)), ("with", head, (("param", 2),)), ("with", head, (("param", 3),))]
        report.ob(rule, fn, chain == want, "%s![a, b, c,] = %s::new(a).with(b).with(c)" % (fn[6:9], head.rsplit("::", 1)[1]) if chain == want else
                  "macro expands to %s" % (chain,), site=b.loc(), config="probe")


def _run_rules(ctx, report):
    for config in ctx.configs:
        if not ctx.parallel(config):
            report.note("config %s: par_seq module is not compiled without the `parallel` feature" % config)
            continue
        facts = ctx.facts(config)
        only = lambda ident: any(x in ident for x in ("Par", "Seq", "RunWithPool"))
        report.guard("C16.FANOUT", F.check_family, ctx, report, "C16.FANOUT", facts, config, (F.RUN, F.SETUP), only)
        report.guard("C16.UNLISTED", F.unlisted, ctx, report, "C16.UNLISTED", facts, config, (F.RUN, F.SETUP),
                     lambda r: r.trait == A.T_RUNWITHPOOL or r.self_head in (A.PAR, A.SEQ, A.PARSEQ))
        report.guard("C16.SEQ", seq_order, ctx, report, facts, config)
        report.guard("C16.PAR", par_join, ctx, report, facts, config)
        report.guard("C16.ACC", acc, ctx, report, facts, config)
        report.guard("C16.CHECK", check, ctx, report, facts, config)
        report.guard("C16.CHECK", PL.intersect_body, ctx, report, "C16.CHECK", facts, config)
    report.guard("C16.MACRO", macros, ctx, report)


ENCAPSULATED_NOTE = (" (ENCAPSULATED) The premise of all of these - the crate's own code is the only thing that touches this state - is an obligation "
                     "of its own: no field of the types the state lives in can be named outside the crate (effective visibility), and no function a "
                     "user can call hands out `&mut` to one of them.")
EXPLANATION = EXPLANATION + ENCAPSULATED_NOTE
TECHNIQUE = TECHNIQUE + "; encapsulation inventory on rustc's effective visibilities (fields of state types, `&mut` results of callable functions)"


def run(ctx, report):
    _run_rules(ctx, report)
    from .. import shared as _S
    report.guard("C16.CONFIGS", _S.configurations, ctx, report, "C16.CONFIGS")
    for config in ctx.configs:
        report.guard("C16.ENCAPSULATED", _S.encapsulated, ctx, report, "C16.ENCAPSULATED", ctx.facts(config), config, "C16")
