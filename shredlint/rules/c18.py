"""C18 - Builder accepts all well-formed registrations, rejects the two ill-formed ones."""
from .. import anchors as A
from .. import shared as S
from .. import placement as P
from .. import builderrules as B

PROP = "C18"
EXPLANATION = (
    "(The name map is written only in the registration entries - who-may-write inventory - and with / with_batch are exactly add / add_batch.) "
    "Static structural obligations: (REJECT) in DispatcherBuilder::add the unknown-dependency panic is reached exactly from the None "
    "arm of map.get(name) and the duplicate-name panic exactly on an occupied entry under a non-empty name; both quote the name and "
    "precede placement; (EMPTY) empty names never touch the name map; (CAP) a group is joined only while its length is below K with "
    "K <= ArrayVec capacity - 1 (constants folded from MIR and type facts), new groups start empty; (ARITH) (K+1) * max(RunningTime) "
    "<= 127 bounds the u8 accumulation and i8 casts; (LOCKSTEP) the five builder tables keep equal shape so an index valid in one is "
    "valid in all; (NOEXTRA) add_thread_local, add_barrier, with_* and the queries contain no panic construct. General freedom from "
    "index panics, lock poisoning and OS failures are not decided.")
ASSUMPTIONS = ["thread-pool creation and RwLock poisoning are environmental", "HashMap entry API semantics"]
TRUSTED = ["rustc nightly MIR construction and constant evaluation", "shred-facts driver", "shredlint analyses"]
TECHNIQUE = 'static: decision tables of DispatcherBuilder::add (two panics exactly guarded, names quoted, before placement), capacity and arithmetic constants folded from MIR/type facts, lock-step inventory, panic-construct scan of total methods'
RULE_TEXT = "one obligation per path class of add, per guard constant, per lock-step mutation site and per total method"


def _run_rules(ctx, report):
    for config in ctx.configs:
        facts = ctx.facts(config)
        report.guard("C18.REJECT", B.reject, ctx, report, "C18.REJECT", facts, config)
        report.guard("C18.CAP", P.accept, ctx, report, "C18.CAP", facts, config, ("cap", "accept"))
        report.guard("C18.CAP", S.slot, ctx, report, "C18.CAP", facts, config)
        report.guard("C18.ARITH", B.arith, ctx, report, "C18.ARITH", facts, config)
        report.guard("C18.LOCKSTEP", S.lockstep, ctx, report, "C18.LOCKSTEP", facts, config)
        from .. import placement as _PL
        report.guard("C18.TOTAL", _PL.intersect_body, ctx, report, "C18.TOTAL", facts, config)
        report.guard("C18.NOEXTRA", B.noextra, ctx, report, "C18.NOEXTRA", facts, config)


ENCAPSULATED_NOTE = (" (ENCAPSULATED) The premise of all of these - the crate's own code is the only thing that touches this state - is an obligation "
                     "of its own: no field of the types the state lives in can be named outside the crate (effective visibility), and no function a "
                     "user can call hands out `&mut` to one of them.")
EXPLANATION = EXPLANATION + ENCAPSULATED_NOTE
TECHNIQUE = TECHNIQUE + "; encapsulation inventory on rustc's effective visibilities (fields of state types, `&mut` results of callable functions)"


def run(ctx, report):
    _run_rules(ctx, report)
    from .. import shared as _S
    for config in ctx.configs:
        report.guard("C18.REJECT", _S.chaining, ctx, report, "C18.REJECT", ctx.facts(config), config, [('with', 'add'), ('with_batch', 'add_batch')])
    report.guard("C18.CONFIGS", _S.configurations, ctx, report, "C18.CONFIGS")
    for config in ctx.configs:
        report.guard("C18.ENCAPSULATED", _S.encapsulated, ctx, report, "C18.ENCAPSULATED", ctx.facts(config), config, "C18")
