"""C14 - A panicking system is contained: propagated, nothing leaked, reusable."""
from .. import anchors as A
from .. import fanout as F
from .. import shared as S
from .. import poolrules as R
from .. import positives as P

PROP = "C14"
EXPLANATION = (
    "(DEPS: that no dependant of a panicking system runs in that dispatch rests on the placement of dependants behind what they depend on - the obligations of C02 are imported as C14.DEPS.*.) "
    "(NOSWALLOW also covers std::thread spawn / scope / join inside the run cone: a system run on a thread of its own ends its panic in the join handle; RELEASE also forbids re-making a guard-derived reference through a raw pointer or transmutation.) "
    "Propagation order and 'siblings finish first' are rayon's contract (trusted). Decided structurally: (NOSWALLOW) no catch_unwind, "
    "resume_unwind or panic-hook manipulation anywhere in the crate, so a panic leaves run_now, the group loop, the stage loop and "
    "dispatch; dependents are later in the group or in later stages (C02), which unwinding skips; (RELEASE) guards own their cell borrow, "
    "have no Drop impl of their own and are never forgotten/leaked; the blanket run_now moves the fetched data into run; (INTACT) no body "
    "of the synchronous dispatch cone moves out of, replaces or reshapes stages/groups/thread_local/inner dispatcher, so the dispatcher is "
    "structurally unchanged after unwinding; (LOCK) the pool slot is only read-locked during dispatch (std poisons only write guards); "
    "(ONCE) exactly-once on the next dispatch is C04's FANOUT. The payload that arrives, two simultaneous panics and the async "
    "dispatcher after a background panic are not decided.")
ASSUMPTIONS = ["rayon re-raises a job panic in the caller after sibling jobs ended", "atomic_refcell guards release in Drop during unwinding"]
TRUSTED = ["rustc nightly MIR construction", "shred-facts driver", "shredlint analyses"]
TECHNIQUE = 'static: zero-count inventories with positive examples (catch_unwind, guard leaks), structural-intactness scan of the dispatch cone and of the dispatch entry points evaluated with their helpers in place, lock-kind inventory, FANOUT coverage for the next dispatch'
RULE_TEXT = "one obligation per body of the dispatch cone, per guard type, per lock site, per zero-count class (positive examples in the probe crate, thorough)"

ONCE_IDS = ("Stage::execute", "Stage::execute_seq", "SendDispatcher::dispatch", "SendDispatcher::dispatch_par", "SendDispatcher::dispatch_seq",
            "Dispatcher::dispatch", "Dispatcher::dispatch_thread_local", "<T as RunNow>::run_now", "<BatchControllerSystem as System>::run")


def _run_rules(ctx, report):
    for config in ctx.configs:
        facts = ctx.facts(config)
        report.guard("C14.NOSWALLOW", R.noswallow, ctx, report, "C14.NOSWALLOW", facts, config)
        report.guard("C14.RELEASE", R.release, ctx, report, "C14.RELEASE", facts, config)
        report.guard("C14.INTACT", R.intact, ctx, report, "C14.INTACT", facts, config)
        report.guard("C14.INTACT", R.intact_flow, ctx, report, "C14.INTACT", facts, config)
        report.guard("C14.LOCK", R.lock, ctx, report, "C14.LOCK", facts, config)
        report.guard("C14.ONCE", F.check_family, ctx, report, "C14.ONCE", facts, config, (F.RUN,), lambda i: i in ONCE_IDS)
        # "no system that depends on the panicking one runs in that dispatch" holds because a dependant is placed in a later
        # stage, or later in the same group, than what it depends on: the placement obligations of C02, imported
        from . import c02
        c02.rules(ctx, report, facts, config, pfx="C14.DEPS")
    P.check(ctx, report, "C14.NOSWALLOW", ["catch_unwind", "resume_unwind", "panic_hook", "thread_handoff"])
    P.check(ctx, report, "C14.RELEASE", ["forget_guard", "manually_drop_guard", "leak_guard", "launder_guard"])
    P.check(ctx, report, "C14.LOCK", ["write_lock"])


ENCAPSULATED_NOTE = (" (ENCAPSULATED) The premise of all of these - the crate's own code is the only thing that touches this state - is an obligation "
                     "of its own: no field of the types the state lives in can be named outside the crate (effective visibility), and no function a "
                     "user can call hands out `&mut` to one of them.")
EXPLANATION = EXPLANATION + ENCAPSULATED_NOTE
TECHNIQUE = TECHNIQUE + "; encapsulation inventory on rustc's effective visibilities (fields of state types, `&mut` results of callable functions)"


def run(ctx, report):
    _run_rules(ctx, report)
    from .. import shared as _S
    report.guard("C14.CONFIGS", _S.configurations, ctx, report, "C14.CONFIGS")
    for config in ctx.configs:
        report.guard("C14.ENCAPSULATED", _S.encapsulated, ctx, report, "C14.ENCAPSULATED", ctx.facts(config), config, "C14")
