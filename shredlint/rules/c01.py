"""C01 - Isolation: conflicting systems never run at the same time."""
from .. import anchors as A
from .. import fanout as F
from .. import shared as S
from .. import placement as P

PROP = "C01"
EXPLANATION = (
    "Leaves of an induction over registrations, each decided on the type-checked MIR: (MATRIX) the per-group predicate of "
    "find_conflict intersects exactly {(new writes, accumulated writes), (new writes, accumulated reads), (new reads, accumulated "
    "writes)} - roles derived by value flow from Accessor::reads/writes in insert to the check_intersection operands - and is true "
    "whenever one is non-empty; (ALLGROUPS) it is folded over all groups of the stage with Conflict::add; (ACCEPT) a candidate is "
    "accepted only as None->Stage(s) or Single(g)->Group(s,g), never on Multiple; (SLOT/LOCKSTEP) the box, id and declared sets are "
    "written once at the slot the target denotes and the five tables keep equal shape; (EXEC) stages run sequentially, whole groups go "
    "to rayon's for_each, members run in order, and no other pool-crossing call exists. Interleavings themselves, rayon and "
    "atomic_refcell are trusted; C06/C07 (declared = borrowed, batch = union) are decided by their own checks.")
ASSUMPTIONS = ["systems fetch only what they declare (C06 decides this for library-provided system data)",
               "rayon for_each/install/join semantics", "atomic_refcell as run-time backstop"]
TRUSTED = ["rustc nightly MIR construction", "shred-facts driver", "shredlint analyses (origins, decision tables, coverage)"]
TECHNIQUE = 'static: structured evaluation (interprocedural path tabulation with loop objects and std-combinator models) of insert / insertion_target / find_conflict: roles of check_intersection operands derived from Accessor::reads/writes in insert, per-group decision table, accept table of the candidate scan, slot and lock-step obligations on MIR, FANOUT coverage of the run family, rayon call inventory'
RULE_TEXT = "one obligation per decision-table row, operand role pair, table write, lock-step mutation site, run-family fan-out and rayon call site"

EXEC_IDS = ("Stage::execute", "Stage::execute_seq", "SendDispatcher::dispatch", "SendDispatcher::dispatch_par", "SendDispatcher::dispatch_seq",
            "AsyncDispatcher::dispatch", "Dispatcher::dispatch", "Dispatcher::dispatch_par", "Dispatcher::dispatch_seq")


def rules(ctx, report, facts, config, pfx="C01"):
    # the plan separates what systems *declare*: for the data types the library provides, declared = borrowed is C06's, imported
    from .. import datarules as _D
    report.guard(pfx + ".DECL", _D.all_impls, ctx, report, facts, config, pfx + ".DECL", only_kinds=("leaf", "tuple"))
    report.guard(pfx + ".MATRIX", P.matrix, ctx, report, pfx + ".MATRIX", facts, config, ("matrix", "index"))
    report.guard(pfx + ".ALLGROUPS", P.allgroups, ctx, report, pfx + ".ALLGROUPS", facts, config)
    report.guard(pfx + ".INTERSECT", P.intersect_body, ctx, report, pfx + ".INTERSECT", facts, config)
    report.guard(pfx + ".ACCEPT", P.accept, ctx, report, pfx + ".ACCEPT", facts, config, ("chain", "accept-sound"))
    report.guard(pfx + ".SLOT", S.slot, ctx, report, pfx + ".SLOT", facts, config)
    report.guard(pfx + ".LOCKSTEP", S.lockstep, ctx, report, pfx + ".LOCKSTEP", facts, config)
    report.guard(pfx + ".EXEC", F.check_family, ctx, report, pfx + ".EXEC", facts, config, (F.RUN,), lambda i: i in EXEC_IDS)
    report.guard(pfx + ".EXEC", S.pool_inventory, ctx, report, pfx + ".EXEC", facts, config, True)


def _run_rules(ctx, report):
    for config in ctx.configs:
        rules(ctx, report, ctx.facts(config), config)
    if ctx.tier == "thorough":
        from .. import positives as POS
        POS.engine(ctx, report, "C01.ENGINE")


ENCAPSULATED_NOTE = (" (ENCAPSULATED) The premise of all of these - the crate's own code is the only thing that touches this state - is an obligation "
                     "of its own: no field of the types the state lives in can be named outside the crate (effective visibility), and no function a "
                     "user can call hands out `&mut` to one of them.")
EXPLANATION = EXPLANATION + ENCAPSULATED_NOTE
TECHNIQUE = TECHNIQUE + "; encapsulation inventory on rustc's effective visibilities (fields of state types, `&mut` results of callable functions)"


def run(ctx, report):
    _run_rules(ctx, report)
    from .. import shared as _S
    report.guard("C01.CONFIGS", _S.configurations, ctx, report, "C01.CONFIGS")
    for config in ctx.configs:
        report.guard("C01.ENCAPSULATED", _S.encapsulated, ctx, report, "C01.ENCAPSULATED", ctx.facts(config), config, "C01")
