"""C19 - The plan is a deterministic function of the registration sequence."""
from .. import anchors as A
from .. import inventory as I
from .. import positives as P
from ..facts import Callee

PROP = "C19"
EXPLANATION = (
    "Determinism is decided as the absence of nondeterminism sources in the placement cone (the call cone of DispatcherBuilder::add, "
    "add_batch and StagesBuilder::insert inside the crate, and of every function of the crate that leads to them): (NOHASHITER) no iteration over a hash map or set - names are used only "
    "through get/entry/contains_key; (EQONLY) ResourceId and SystemId are consulted only by order-insensitive consumers: equality, "
    "sort followed by dedup, extend, clone; no comparison, max/min, binary search or hashing of ids; names are looked up and compared as wholes, never taken apart (only is_empty, which means unnamed); (NOENV) no clock, thread id, "
    "random state, environment, type name or pointer-to-integer source; (CFG, thorough) the placement bodies have identical call "
    "skeletons in all four feature configurations. A future membership-only use of Ord would need an allow-list line.")
ASSUMPTIONS = ["slice::sort and Vec::dedup are deterministic; TypeId ordering is fixed within one build"]
TRUSTED = ["rustc nightly MIR construction", "shred-facts driver", "shredlint call-cone construction (over-approximate: unresolved trait calls reach every in-crate impl)"]
TECHNIQUE = 'static: zero-count inventories over the placement call cone (hash iteration, ordering or hashing of ids incl. generic helpers, environment sources, pointer-to-integer casts) with positive examples; cross-configuration skeleton comparison'
RULE_TEXT = "one obligation per body of the placement cone and per inventory class; zero-count classes are backed by positive examples in the probe crate (thorough)"

ID_TYPES = ("shred::world::ResourceId", "shred::dispatch::dispatcher::SystemId")
import re
NUMERIC = re.compile(r"[<\[ ,&](u8|u16|u32|u64|usize|i8|i16|i32|i64|isize)[>\], ]")


def cone(ctx, facts):
    roots = [facts.one(A.DB + "::add"), facts.one(A.DB + "::add_batch"), facts.one(A.SB + "::insert")]
    # add_batch builds the inner dispatcher: building (pool creation, wiring) places nothing
    build = facts.one(A.DB + "::build")
    # whatever in the crate leads to a placement (a wrapper around add, another registration entry) decides what is placed
    # and with which dependencies: it belongs to the function from registrations to plans as well
    callers = facts.callers()
    seen = set(r.key for r in roots)
    todo = list(roots)
    while todo:
        x = todo.pop()
        for cb, bb in callers.get(x.key, []):
            r = facts.bodies.get(cb.root_key, cb) if cb.is_closure and cb.root_key else cb
            if r.key not in seen and r.key != build.key:
                seen.add(r.key)
                roots.append(r)
                todo.append(r)
    # calls through std traits (IntoIterator, Clone, Debug, ..) are followed where they resolve; an unresolved one in generic
    # code is not taken to reach every in-crate impl of that trait (an `IntoIterator for &World` somewhere is not placement code)
    return facts.cone(roots, stop=lambda b: b.key == build.key, foreign_traits=False)


def _sorted_for_dedup(ctx, facts, b):
    """On every returning way through the function, each `sort` of a vector is followed by a `dedup` of the same vector."""
    from .. import semq as Q
    from ..worldrules import _deep_all
    fn = facts.bodies.get(b.root_key, b) if b.is_closure and b.root_key else b
    try:
        ev, ends = Q.sem(ctx, facts, fn, only=[])
    except Exception:
        return False
    n = 0
    for e in Q.returns(ends):
        evs = [x for x in _deep_all(e.path.events) if x[0] == "call" and not x[2].local and x[3]]
        for i, x in enumerate(evs):
            if x[2].name in ("sort", "sort_unstable"):
                r = Q.strip(ev, x[3][0])
                if not any(y[2].name in ("dedup", "dedup_by", "dedup_by_key") and Q.strip(ev, y[3][0]) == r for y in evs[i + 1:]):
                    return False
                n += 1
    return n >= 1


def scan(ctx, report, facts, config, pfx="C19"):
    cn = cone(ctx, facts)
    report.floor(pfx + ".NOHASHITER", "bodies in the placement cone", len(cn), 40, config=config)
    n_sort = 0
    for b in sorted(cn.values(), key=lambda b: b.key):
        report.touched(b, config)
        hi = I.hash_iterations(b)
        report.ob(pfx + ".NOHASHITER", b.qname, not hi, "no hash-map iteration" if not hi else
                  "iterates a hash container (%s): the plan would depend on hash order" % hi[0][1].short(), site=b.loc(hi[0][0]) if hi else b.loc(), config=config)
        ou = I.order_uses(b, ("",))  # every ordering-consulting call of the body
        bad = []
        for bb, c in ou:
            if c.name in ("sort", "sort_unstable") and _sorted_for_dedup(ctx, facts, b):
                n_sort += 1
                # followed by dedup on the same vector on every way: the accepted idiom for "make it a set"
                # (whether written on ids directly or in a generic helper the placement code calls with ids)
                continue
            if b.container == "trait_impl" and b.trait in ("std::cmp::Ord", "std::cmp::PartialOrd") and (b.raw.get("span", {}).get("exp")):
                continue  # inside the derived comparison itself
            if not any(ty in c.inst_path for ty in ID_TYPES) and NUMERIC.search(c.inst_path):
                continue  # ordering of plain numbers (running times, counts) is part of the documented heuristic
            # ids, or a generic element type that the placement code instantiates with ids
            bad.append((bb, c))
        # explicit hashing anywhere in the placement cone (also through a generic helper): the value of a hash
        # depends on the concrete type ids / dynamic ids, which the plan must not
        if not (b.container == "trait_impl" and b.trait in ("std::hash::Hash", "core::hash::Hash")):
            bad += I.explicit_hashing(b)
        report.ob(pfx + ".EQONLY", b.qname, not bad, "ids are only compared for equality / sorted for dedup" if not bad else
                  "an id is consulted through %s: the plan would depend on the (compiler-dependent) order or hash of ids" % bad[0][1].short(),
                  site=b.loc(bad[0][0]) if bad else b.loc(), config=config)
        env = I.marked_calls(b, I.ENV_MARKS) + [(bb, k) for bb, k in I.ptr_to_int_casts(b)]
        # the fetch_panic! message uses type_name: only reachable on the panic path of World::fetch, not in the placement cone
        report.ob(pfx + ".NOENV", b.qname, not env, "no environment source" if not env else
                  "reads an environment-dependent source (%s)" % (env[0][1].short() if hasattr(env[0][1], "short") else env[0][1]),
                  site=b.loc(env[0][0]) if env else b.loc(), config=config)
    report.floor(pfx + ".EQONLY", "sort-for-dedup sites in the placement cone", n_sort, 1, config=config)
    # names: the map is only touched through get / entry / contains_key / len / is_empty in the whole crate's placement code
    add = facts.one(A.DB + "::add")
    names_used = set()
    for b in cn.values():
        for bb, t in b.normal_calls():
            c = Callee(t["func"])
            if c.local:
                continue   # a helper of the crate that is handed the map: its own body is in the cone and is looked at there
            ty = I.recv_ty(t)
            # the builder's name map: names to system ids (another String-keyed map somewhere in the crate is not it)
            if ("SystemId" in ty or "SystemId" in c.inst_path) and ("AHashMap<std::string::String" in ty or "HashMap<std::string::String" in ty or "HashMap::<std::string::String" in c.inst_path):
                names_used.add(c.name)
    # names are opaque labels: looked up and compared as wholes, never taken apart (a plan that depends on how a name is spelt
    # is not a function of the registration sequence up to renaming); "" alone is special: it means unnamed
    STR_IMPLS = ("core::str::<impl str>::", "alloc::str::<impl str>::", "std::string::String::", "alloc::string::String::")
    STR_OK = set(["is_empty", "as_str", "to_owned", "to_string", "new", "from", "into_string", "into_boxed_str", "as_ref", "borrow", "clone"])
    n_str = 0
    for b in sorted(cn.values(), key=lambda b: b.key):
        for bb, t in b.normal_calls():
            c = Callee(t["func"])
            if not c.local and (c.path.startswith(STR_IMPLS) or "::str::<impl str>::" in c.path or "::string::String::" in c.path):
                n_str += 1
                if c.name not in STR_OK:
                    report.ob(pfx + ".EQONLY", "name-inspected/%s" % b.qname, False, "a name is taken apart through %s: the plan would depend on how systems are spelt, not only on which names are equal" % c.short(), site=b.loc(bb), config=config)
    report.ob(pfx + ".EQONLY", "names-opaque", True, "%d string operation(s) in the placement cone looked at" % n_str, config=config)
    report.floor(pfx + ".EQONLY", "string operations in the placement cone", n_str, 1, config=config)
    allowed = set(["get", "entry", "contains_key", "deref", "deref_mut", "len", "is_empty", "insert"])
    report.ob(pfx + ".NOHASHITER", "name-map-api", names_used <= allowed, "name map used through %s" % sorted(names_used), site=add.loc(), config=config)


def skeleton(ctx, facts):
    cn = cone(ctx, facts)
    out = {}
    for b in cn.values():
        if "::dispatch::stage::" in b.key or b.qname in (A.DB + "::add", A.DB + "::next_id", A.F_CHECK_INTERSECTION):
            out[b.qname] = [Callee(t["func"]).short() for bb, t in b.normal_calls()]
    return out


def _run_rules(ctx, report):
    sk = {}
    for config in ctx.configs:
        facts = ctx.facts(config)
        report.guard("C19.SCAN", scan, ctx, report, facts, config)
        try:
            sk[config] = skeleton(ctx, facts)
        except Exception as e:
            report.ob("C19.CFG", "ANCHOR", False, str(e), config=config)
    P.check(ctx, report, "C19.NOHASHITER", ["hash_iteration"])
    P.check(ctx, report, "C19.EQONLY", ["order_on_ids", "hash_on_ids"])
    P.check(ctx, report, "C19.NOENV", ["env_calls", "ptr_to_int"])
    if len(sk) > 1 and "default" in sk:
        ref = sk["default"]
        for config, s_ in sorted(sk.items()):
            if config == "default":
                continue
            for q in sorted(set(ref) | set(s_)):
                report.ob("C19.CFG", "skeleton/%s" % q, ref.get(q) == s_.get(q),
                          "placement body has the same call skeleton as in the default configuration" if ref.get(q) == s_.get(q) else
                          "placement body differs between feature configurations", config=config)


ENCAPSULATED_NOTE = (" (ENCAPSULATED) The premise of all of these - the crate's own code is the only thing that touches this state - is an obligation "
                     "of its own: no field of the types the state lives in can be named outside the crate (effective visibility), and no function a "
                     "user can call hands out `&mut` to one of them.")
EXPLANATION = EXPLANATION + ENCAPSULATED_NOTE
TECHNIQUE = TECHNIQUE + "; encapsulation inventory on rustc's effective visibilities (fields of state types, `&mut` results of callable functions)"


def run(ctx, report):
    _run_rules(ctx, report)
    from .. import shared as _S
    report.guard("C19.CONFIGS", _S.configurations, ctx, report, "C19.CONFIGS")
    for config in ctx.configs:
        report.guard("C19.ENCAPSULATED", _S.encapsulated, ctx, report, "C19.ENCAPSULATED", ctx.facts(config), config, "C19")
