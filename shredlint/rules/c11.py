"""C11 - Side-by-side systems really run in parallel."""
from .. import anchors as A
from .. import shared as S
from .. import poolrules as R
from .. import positives as P

PROP = "C11"
EXPLANATION = (
    "Real overlap is rayon's doing (trusted: for_each over n <= idle-threads items is split to single items that idle workers steal). "
    "shred's obligations are structural and are exactly the suite-invisible mutants: (PAR) with feature `parallel`, Stage::execute runs "
    "groups only as items of rayon's for_each over par_iter_mut(groups), members inside; (ROUTE) SendDispatcher::dispatch calls "
    "dispatch_par, whose install closure and the async job call execute, never execute_seq, and Stage::execute is called nowhere but inside what is handed to the pool's install / spawn (decided in every caller, for private helpers in theirs); (POOL) the receiver of install/spawn "
    "originates from field thread_pool, add_pool stores its argument there, build/build_async fill the pool slot with create_thread_pool() only when it is empty "
    "and never overwrite a supplied pool, create_thread_pool is ThreadPoolBuilder::new().build() with no thread cap anywhere in the "
    "crate; (SHARE) add_batch gives the inner builder a clone of the outer pool slot before building it; (LOCK) only read locks are held "
    "during dispatch, so nested batch dispatches do not block each other. That all siblings are inside run simultaneously is not decided.")
ASSUMPTIONS = ["rayon work-stealing runs independent for_each items on idle workers", "std RwLock read locks are shared"]
TRUSTED = ["rustc nightly MIR construction", "shred-facts driver", "shredlint analyses"]
TECHNIQUE = 'static: coverage shape of Stage::execute (rayon for_each over whole groups), routing coverage, provenance of the pool term of every install / spawn crossing (structured evaluation, helpers looked into), pool crossings owned by the audited entry points and counted per way through them, fill-only-if-empty rule on the pool slot (structured evaluation), thread-cap zero-count with positive example, lock-site inventory'
RULE_TEXT = "one obligation per routing site, pool origin, pool-configuration call and lock site; zero-count classes (thread caps) have positive examples in the probe crate (thorough)"


def _run_rules(ctx, report):
    for config in ctx.configs:
        if not ctx.parallel(config):
            report.note("config %s: no thread pool without the `parallel` feature; dispatch is sequential by definition" % config)
            continue
        facts = ctx.facts(config)
        report.guard("C11.PAR", R.par_shape, ctx, report, "C11.PAR", facts, config)
        report.guard("C11.PAR", R.execute_in_pool, ctx, report, "C11.PAR", facts, config)
        report.guard("C11.POOL", R.pool_source, ctx, report, "C11.POOL", facts, config)
        report.guard("C11.SHARE", S.build_wiring, ctx, report, "C11.SHARE", facts, config)
        report.guard("C11.SHARE", R.pool_share, ctx, report, "C11.SHARE", facts, config)
        report.guard("C11.LOCK", R.lock, ctx, report, "C11.LOCK", facts, config)
        report.guard("C11.INVENTORY", S.pool_inventory, ctx, report, "C11.INVENTORY", facts, config)
    P.check(ctx, report, "C11.POOL", ["num_threads"])
    P.check(ctx, report, "C11.LOCK", ["write_lock"])


ENCAPSULATED_NOTE = (" (ENCAPSULATED) The premise of all of these - the crate's own code is the only thing that touches this state - is an obligation "
                     "of its own: no field of the types the state lives in can be named outside the crate (effective visibility), and no function a "
                     "user can call hands out `&mut` to one of them.")
EXPLANATION = EXPLANATION + ENCAPSULATED_NOTE
TECHNIQUE = TECHNIQUE + "; encapsulation inventory on rustc's effective visibilities (fields of state types, `&mut` results of callable functions)"


def run(ctx, report):
    _run_rules(ctx, report)
    from .. import shared as _S
    for config in ctx.configs:
        if ctx.parallel(config):
            report.guard("C11.POOL", _S.chaining, ctx, report, "C11.POOL", ctx.facts(config), config, [('with_pool', 'add_pool')])
    report.guard("C11.CONFIGS", _S.configurations, ctx, report, "C11.CONFIGS")
    for config in ctx.configs:
        report.guard("C11.ENCAPSULATED", _S.encapsulated, ctx, report, "C11.ENCAPSULATED", ctx.facts(config), config, "C11")
