"""C04 - Every registered system runs exactly once per dispatch."""
from .. import anchors as A
from .. import fanout as F
from .. import shared as S
from .. import placement as P
from .. import positives as POS
from ..facts import Callee
from ..shapes import traversals, root, Src, SELF
from ..cfg import INF

PROP = "C04"
EXPLANATION = (
    "Static structural obligations: (INSERT/LOCKSTEP) StagesBuilder::insert pushes the boxed system exactly once on every "
    "path, at the slot its target denotes, and nothing else changes the shape of the executed list; (BUILD) build moves the "
    "stage list and the thread-local list unchanged into the dispatcher; (FANOUT) every run-family entry point (execute, "
    "dispatch*, run_now, batch run, MultiDispatcher::run, Par/Seq run) reaches every element of every carrier field exactly "
    "once on every normal path through full-forward traversals; (UNLISTED) any other method of a carrier - or of a type found to keep systems: it implements System / RunNow / RunWithPool / "
    "BatchController and holds a carrier, a RunNow object or a bounded type parameter, also inside a container - that hands systems to the run family covers each carrier field path "
    "completely or not at all on every way through (a library adaptor not known to visit every element once fails closed); (BUILD) the chaining twins with / with_batch / with_thread_local "
    "do exactly what add / add_batch / add_thread_local do. Decides the shape, not run-time counts; user controllers are out of scope.")
ASSUMPTIONS = ["rayon's for_each/install/join run each closure/item exactly once", "user-written BatchController::run dispatches as often as it intends"]
TRUSTED = ["rustc nightly MIR construction (mir-opt-level=0)", "shred-facts driver", "shredlint analyses"]
TECHNIQUE = 'static: FANOUT coverage over the structured evaluation (exactly one call per carrier field on every path; helpers, closures handed to rayon install/join/spawn and std combinators evaluated in place; loops of any spelling must be full traversals), path tabulation of insert, lock-step mutation inventory, build wiring terms, capacity constants'
RULE_TEXT = "one obligation per (run-family method, carrier field), per path of insert, per shape-changing call site on the lock-step tables, per wiring site"


def batch_run(ctx, report, facts, config, rule="C04.FANOUT"):
    from .. import semq as Q
    prog = ctx.program(facts)
    # BatchControllerSystem::run passes &mut self.dispatcher and the fetched world to the controller
    b = F.timpl(facts, A.T_SYSTEM, A.BCS, "run")
    ev, ends = Q.sem(ctx, facts, b)
    ok, seen = Q.forwards_once(ev, ends, lambda c, x: c.trait == A.T_BATCHCTRL and c.name == "run")
    detail = "controller.run(data.0, &mut self.dispatcher)"
    if not ok:
        detail = "not exactly one controller.run and nothing else on every way: %s" % (seen,)
    else:
        for e in Q.returns(ends):
            x = Q.calls_in(e.path.events, lambda c: c.trait == A.T_BATCHCTRL and c.name == "run")[0]
            a = [Q.strip(ev, y) for y in x[3]]
            if not (len(a) == 3 and a[0] == ("field", ("param", 1), "controller", A.BCS) and a[2] == ("field", ("param", 1), "dispatcher", A.BCS)
                    and a[1][0] == "field" and a[1][1] == ("param", 2) and a[1][2] == "0"):
                ok = False
                detail = "controller.run is not given (data.0, &mut self.dispatcher): %s" % (a,)
    report.ob(rule, "RUN/<BatchControllerSystem as System>::run/dispatcher-arg", ok, detail, site=b.loc(), config=config)
    # MultiDispatcher::run: plan once, then exactly n dispatches
    from .. import semq as Q
    from ..semcov import LIFECYCLE_NAMES, sroot
    from ..sem import Evaluator, Policy
    b = F.timpl(facts, A.T_BATCHCTRL, A.MD, "run")
    report.touched(b, config)
    ev = Evaluator(facts, Policy(opaque_names=LIFECYCLE_NAMES | set(["plan", "system_data"])))
    ends = ev.eval(b)
    rets = [e for e in ends if e.kind == "return"]
    problems = []
    if not rets:
        problems.append("no normal path")
    is_plan = lambda c: c.name == "plan" and c.trait == A.T_MULTICTRL
    is_disp = lambda c: c.name in F.LIFECYCLE[F.RUN] and c.self_head == A.DISP
    for e in rets:
        events = e.path.events
        plans = [(i_, x) for i_, x in enumerate(events) if x[0] == "call" and is_plan(x[2])]
        loops = [(i_, x) for i_, x in enumerate(events) if x[0] == "loop"]
        if len(plans) != 1 or Q.calls_in([x for _, x in loops], is_plan, deep=True):
            problems.append("`plan` is not called exactly once on every path")
            continue
        ppos, pcall = plans[0]
        if len(loops) != 1:
            problems.append("expected exactly one loop, found %d" % len(loops))
        else:
            lpos, lx = loops[0]
            L = lx[1]
            if not Q.is_full(L) or L.kind == "while" or L.stages:
                problems.append("loop is not a full-forward traversal")
            rng = Q.range_of(L)
            if not (rng is not None and rng[0] == ("int", 0) and Q.strip(ev, rng[1]) == pcall[4]):
                problems.append("loop range is not the half-open 0..n with n = result of `plan` (found %s)" % ((L.source or ("?",))[:3],))
            if ppos > lpos:
                problems.append("`plan` does not precede the loop")
            for it in L.iters:
                if it.end != "continue":
                    continue
                ds = Q.calls_in(it.path.events, is_disp, deep=True)
                if len(ds) != 1:
                    problems.append("dispatch calls per loop iteration: %d (expected exactly 1)" % len(ds))
                for d in ds:
                    if sroot(ev, d[3][0]) != (("param", 3), []) or d[2].name != "dispatch":
                        problems.append("loop body does not call `dispatcher.dispatch(world)` on the dispatcher parameter")
        outer = [x for x in events if x[0] == "call" and is_disp(x[2])]
        if outer:
            problems.append("inner dispatcher is dispatched outside the planned loop at %s" % ev.loc(outer[0][1]))
        # the plan data is released before the first inner dispatch: it is moved into `plan`
        site = pcall[1]
        pb = ev.body_of(site)
        op = pb.blocks[site[1]]["term"]["args"][1] if isinstance(site[1], int) else {}
        data = Q.strip(ev, pcall[3][1]) if len(pcall[3]) > 1 else None
        if not (op.get("k") == "move" and Q.is_call(ev, data, "system_data")):
            problems.append("the plan's system data is not moved into `plan` (it would still be borrowed during the inner dispatches)")
        wc = [x[2].name for x in Q.calls_in(events, lambda c: c.self_head == A.WORLD or c.trait in (A.T_SYSDATA, A.T_DYNSYSDATA), deep=True)]
        if wc != ["system_data"]:
            problems.append("the controller borrows from the world through %s (expected a single system_data() moved into plan): a borrow kept across the inner dispatches conflicts with the inner systems" % wc)
    report.ob(rule, "RUN/<MultiDispatcher as BatchController>::run/loop", not problems,
              "; ".join(sorted(set(problems))) if problems else "plan once, data moved into plan, `for _ in 0..n` with one dispatcher.dispatch(world) per iteration",
              site=b.loc(), config=config)
    # blanket RunNow::run_now: one fetch, moved into the single run
    b = F.blanket(facts, A.T_RUNNOW, "run_now")
    report.touched(b, config)
    ev, ends = Q.sem(ctx, facts, b)
    rets = Q.returns(ends)
    ok = bool(rets)
    detail = "self.run(fetch(&self.accessor(), world)): one fetch, handed to the single run"
    for e in rets:
        fetches = Q.calls_in(e.path.events, lambda c: c.name == "fetch" and c.trait == A.T_DYNSYSDATA, deep=True)
        runs = Q.calls_in(e.path.events, lambda c: c.name == "run" and c.trait == A.T_SYSTEM, deep=True)
        if len(fetches) != 1 or len(runs) != 1 or Q.all_loops([e]):
            ok = False
            detail = "%d fetch / %d run on a way through" % (len(fetches), len(runs))
            continue
        f, r = fetches[0], runs[0]
        acc = Q.strip(ev, f[3][0]) if f[3] else None
        while isinstance(acc, tuple) and acc and acc[0] in ("field", "variant"):
            acc = Q.strip(ev, acc[1])   # whichever way the AccessorCow is looked into
        if not (len(r[3]) == 2 and Q.strip(ev, r[3][0]) == ("param", 1) and r[3][1] == f[4]):
            ok = False
            detail = "run does not receive the fetched data (or does not run the system itself)"
        elif not (Q.is_call(ev, acc, "accessor") and Q.callee_of(ev, acc).trait == A.T_SYSTEM and Q.strip(ev, acc[2][0]) == ("param", 1) and len(f[3]) == 2 and Q.strip(ev, f[3][1]) == ("param", 2)):
            ok = False
            detail = "the data is not fetched with the system's own accessor from the world it is given"
    report.ob(rule, "RUN/<T as RunNow>::run_now/fetch-run", ok, detail, site=b.loc(), config=config)


def _run_rules(ctx, report):
    for config in ctx.configs:
        facts = ctx.facts(config)
        report.guard("C04.FANOUT", F.check_family, ctx, report, "C04.FANOUT", facts, config, (F.RUN,))
        report.guard("C04.UNLISTED", F.unlisted, ctx, report, "C04.UNLISTED", facts, config, (F.RUN,))
        report.guard("C04.FANOUT", F.carrier_inventory, ctx, report, "C04.FANOUT", facts, config)
        report.guard("C04.FANOUT", batch_run, ctx, report, facts, config)
        from . import c07
        report.guard("C04.BATCH", c07.assembly, ctx, report, facts, config, "C04.BATCH")
        report.guard("C04.INSERT", S.slot, ctx, report, "C04.INSERT", facts, config)
        report.guard("C04.LOCKSTEP", S.lockstep, ctx, report, "C04.LOCKSTEP", facts, config)
        report.guard("C04.BUILD", S.build_wiring, ctx, report, "C04.BUILD", facts, config)
        report.guard("C04.CAP", P.accept, ctx, report, "C04.CAP", facts, config, ("cap",))
    POS.check(ctx, report, "C04.FANOUT", ["partial_traversals"])


ENCAPSULATED_NOTE = (" (ENCAPSULATED) The premise of all of these - the crate's own code is the only thing that touches this state - is an obligation "
                     "of its own: no field of the types the state lives in can be named outside the crate (effective visibility), and no function a "
                     "user can call hands out `&mut` to one of them.")
EXPLANATION = EXPLANATION + ENCAPSULATED_NOTE
TECHNIQUE = TECHNIQUE + "; encapsulation inventory on rustc's effective visibilities (fields of state types, `&mut` results of callable functions)"


def run(ctx, report):
    _run_rules(ctx, report)
    from .. import shared as _S
    for config in ctx.configs:
        report.guard("C04.BUILD", _S.chaining, ctx, report, "C04.BUILD", ctx.facts(config), config, [('with', 'add'), ('with_batch', 'add_batch'), ('with_thread_local', 'add_thread_local')])
    report.guard("C04.CONFIGS", _S.configurations, ctx, report, "C04.CONFIGS")
    for config in ctx.configs:
        report.guard("C04.ENCAPSULATED", _S.encapsulated, ctx, report, "C04.ENCAPSULATED", ctx.facts(config), config, "C04")
