"""C09 - World is a faithful typed map: values keep their type, slot and identity."""
from .. import anchors as A
from .. import worldrules as W

PROP = "C09"
EXPLANATION = (
    "Invariant TYPED: the box stored under a key has the concrete type named by the key's type id; unchecked downcasts rely on it. "
    "Decided structurally: (ASSERT) in every World method that takes a ResourceId and a Resource type parameter, "
    "id.assert_same_type_id::<T>() dominates every access to the table, and that function returns iff the type ids of "
    "ResourceId::new::<R>() and self are equal; (INSERT) every insertion into the table stores Box::<R>::new under the asserted id or "
    "ResourceId::new::<R>() of the same R; every Entry<X> that is built wraps resources.entry(ResourceId::new::<X>()) and its vacant "
    "slot receives a Box::<X>; (GUARD) every Fetch<X> / FetchMut<X> that is built wraps a cell that is visibly the slot of X (found "
    "under ResourceId::new::<X>() or an id asserted for X, the slot of an Entry<X>, the cell of another guard of X), private "
    "constructors being decided in each of their callers; (DOWNCAST) every unchecked downcast to X is applied to the content of a "
    "guard of X, to what the table holds under ResourceId::new::<X>(), or behind is::<X>(); "
    "(KEY) wrappers use the id of their own type, raw operations use their id parameter, ResourceId constructors wire both fields and "
    "Eq/Hash are compiler-derived over both; (ONCE) the only Box::from_raw is fed by Box::into_raw of the same box. HashMap's own "
    "semantics are delegated to std.")
ASSUMPTIONS = ["std HashMap: insert replaces, remove returns the stored value, entry never overwrites an occupied slot", "TypeId uniquely names a type"]
TRUSTED = ["rustc nightly MIR construction", "shred-facts driver", "shredlint analyses"]
TECHNIQUE = 'static: dominance of assert_same_type_id over table access, decision table of the assertion, key/value terms of every table insertion, provenance of the cell behind every guard / entry construction and of the value behind every unchecked downcast (structured evaluation, helpers decided in their callers), constructor wiring, derived Eq/Hash check, compile_fail witness'
RULE_TEXT = "one obligation per id-taking method, insertion site, guard construction site, unchecked downcast site, key wiring site"


def _run_rules(ctx, report):
    for config in ctx.configs:
        facts = ctx.facts(config)
        report.guard("C09.ASSERT", W.assert_rules, ctx, report, "C09.ASSERT", facts, config)
        report.guard("C09.INSERT", W.insert_rules, ctx, report, "C09.INSERT", facts, config)
        report.guard("C09.GUARD", W.guard_rules, ctx, report, "C09.GUARD", facts, config)
        # "entry-or-insert never overwrites" as the library itself relies on it: its setup code reaches the table only through
        # the entry API (C13's NOCLOBBER, imported)
        from . import c13 as _c13
        report.guard("C09.ENTRY", _c13.noclobber, ctx, report, facts, config, "C09.ENTRY")


ENCAPSULATED_NOTE = (" (ENCAPSULATED) The premise of all of these - the crate's own code is the only thing that touches this state - is an obligation "
                     "of its own: no field of the types the state lives in can be named outside the crate (effective visibility), and no function a "
                     "user can call hands out `&mut` to one of them.")
EXPLANATION = EXPLANATION + ENCAPSULATED_NOTE
TECHNIQUE = TECHNIQUE + "; encapsulation inventory on rustc's effective visibilities (fields of state types, `&mut` results of callable functions)"


def run(ctx, report):
    _run_rules(ctx, report)
    from .. import shared as _S
    report.guard("C09.CONFIGS", _S.configurations, ctx, report, "C09.CONFIGS")
    for config in ctx.configs:
        report.guard("C09.ENCAPSULATED", _S.encapsulated, ctx, report, "C09.ENCAPSULATED", ctx.facts(config), config, "C09")
