"""C12 - Thread-local systems: calling thread, after all others, in registration order."""
from .. import anchors as A
from .. import fanout as F
from .. import shared as S
from ..facts import Callee
from ..paths import enumerate_paths
from ..shapes import traversals, root, SELF

PROP = "C12"
EXPLANATION = (
    "Static structural obligations: (WHERE) the `thread_local` lists are touched only by the audited bodies, never by a "
    "closure, and their elements reach run_now only in Dispatcher::dispatch_thread_local and AsyncDispatcher::wait; (ORDER) "
    "in Dispatcher::dispatch the ordinary dispatch dominates the thread-local loop, in wait the blocking Data::inner() "
    "dominates it; (SEQ) registration appends, both loops are full-forward; (CONVERT) try_into_sendable returns Ok(self.inner) "
    "exactly when thread_local.is_empty(), else Err(self); (AUTO) every `unsafe impl Send` is audited field by field under the "
    "impl's own where-clauses with the compiler's trait solver. Thread identity at run time is not observed.")
ASSUMPTIONS = ["rustc's auto-trait checking guarantees that a !Send value is not moved to another thread unless an unsafe impl says so"]
TRUSTED = ["rustc nightly MIR construction and trait solver", "shred-facts driver", "shredlint analyses"]
TECHNIQUE = 'static: chaining twin with_thread_local = add_thread_local (one call with the same arguments, or the same tabulation in place); who-touches-thread_local inventory, pool-nesting and order of every place that runs thread-local systems (structured evaluation of the dispatch entry points), FANOUT coverage of the thread-local loops, decision table of try_into_sendable, trait-solver audit of unsafe impl Send fields (rustc_private), compile_fail witnesses'
RULE_TEXT = "one obligation per body touching a thread_local list, per ordering site, per path of try_into_sendable, per field of every unsafe auto-trait impl"

ALLOWED_TOUCH = {
    A.DISP + "::setup": "setup fan-out",
    A.DISP + "::dispose": "dispose fan-out",
    A.DISP + "::dispatch_thread_local": "the thread-local loop on the caller",
    A.DISP + "::dispatch": "runs the ordinary, then the thread-local systems (context decided by C12.ORDER)",
    A.DISP + "::try_into_sendable": "emptiness test / drop",
    A.AD + "::setup": "setup fan-out",
    A.AD + "::wait": "the thread-local loop on the caller",
    A.DB + "::add_thread_local": "registration",
    A.DB + "::build": "moved into the dispatcher",
    A.DB + "::build_async": "moved into the dispatcher",
    "<" + A.DB + " as std::default::Default>::default": "derived Default",
}


def touches(body, adts, field):
    """Blocks of `body` where a place projects field `field` of one of `adts`."""
    hits = []

    def place(p, bb):
        for e in p.get("p", []):
            if e["k"] == "field" and e.get("name") == field and e.get("adt") in adts:
                hits.append(bb)

    def operand(o, bb):
        if isinstance(o, dict) and "place" in o:
            place(o["place"], bb)

    for bb, blk in enumerate(body.blocks):
        if blk["cleanup"]:
            continue
        for st in blk["stmts"]:
            if st["k"] != "assign":
                continue
            place(st["place"], bb)
            rv = st["rv"]
            if "place" in rv:
                place(rv["place"], bb)
            for k in ("op", "a", "b"):
                if k in rv:
                    operand(rv[k], bb)
            for o in rv.get("ops", []):
                operand(o, bb)
        t = blk["term"]
        if t["k"] == "call":
            for a in t["args"]:
                operand(a, bb)
            place(t["dest"], bb)
        elif t["k"] == "drop":
            place(t["place"], bb)
    return hits


OBSERVERS = frozenset(["len", "is_empty", "capacity"])
VIEWS = frozenset(["deref", "as_ref", "as_slice", "borrow"])


def _only_observes(ctx, facts, fn):
    """Every use of a thread-local list in `fn` asks it for its length (or emptiness): no system is reached, moved or run, the
    list is not changed and not handed out."""
    from .. import semq as Q
    from ..worldrules import _deep_all
    from ..terms import subterms
    try:
        ev, ends = Q.sem(ctx, facts, fn)
    except Exception:
        return False

    def is_list(t):
        f_, i_, base = Q.table_access(ev, t)
        cf = Q.crate_fields(f_)
        return bool(cf) and cf[-1][1] == "thread_local" and cf[-1][0] in (A.DISP, A.AD, A.DB)

    def mentions(t):
        """the list itself occurs in the term - outside the answers of len / is_empty, which are plain numbers"""
        if not isinstance(t, tuple) or not t:
            return False
        if t[0] == "field" and len(t) > 3 and t[2] == "thread_local" and t[3] in (A.DISP, A.AD, A.DB):
            return True
        if t[0] == "call":
            c = ev.callee(t[1])
            if c is not None and not c.local and c.name in OBSERVERS and len(t[2]) == 1 and is_list(t[2][0]):
                return False
        return any(mentions(x) for x in t[1:] if isinstance(x, tuple))

    seen = False
    for e in ends:
        for x in _deep_all(e.path.events):
            if x[0] == "loop":
                if x[1].source is not None and mentions(x[1].source):
                    return False
            elif x[0] == "store":
                if mentions(x[2]) or mentions(x[3]):
                    return False
            elif x[0] == "call":
                for a in x[3]:
                    if mentions(a):
                        if x[2].local or not (x[2].name in OBSERVERS or x[2].name in VIEWS) or not is_list(a) or a is not x[3][0]:
                            return False
                        seen = seen or x[2].name in OBSERVERS
        # the answer may be computed from the length, but the list itself (or a view of it) must not leave
        if e.ret is not None and mentions(e.ret):
            return False
    return seen


def where(ctx, report, facts, config, rule="C12.WHERE"):
    prog = ctx.program(facts)
    n = 0
    by_q = dict((b.qname, b) for b in facts.bodies.values())
    audited_cone = facts.cone([by_q[q] for q in ALLOWED_TOUCH if q in by_q])
    for b in sorted(facts.bodies.values(), key=lambda b: b.key):
        hits = touches(b, (A.DISP, A.AD, A.DB), "thread_local")
        if not hits:
            continue
        n += 1
        report.touched(b, config)
        rootb = b
        while rootb.is_closure and rootb.parent_key in facts.bodies:
            rootb = facts.bodies[rootb.parent_key]
        ok = rootb.qname in ALLOWED_TOUCH
        why = ALLOWED_TOUCH.get(rootb.qname)
        if not ok and rootb.self_head == A.DB and not touches(b, (A.DISP, A.AD), "thread_local") and S.registers_thread_local(ctx, facts, rootb)[0]:
            # a method of the builder that only registers (one boxed push on every way): nothing is run here
            ok = True
            why = "registration"
        if not ok and _only_observes(ctx, facts, rootb):
            ok = True
            why = "only asks the list for its length"
        if not ok and rootb.key in audited_cone and not rootb.api:
            # a private helper only the audited bodies call: where it runs is decided by C12.CTX on its callers
            ok = True
            why = "private helper of the audited bodies"
        report.ob(rule, "touch/%s" % b.qname, ok,
                  why or "the thread-local list is accessed in %s, which is not one of the audited bodies" % b.qname, site=b.loc(hits[0]), config=config)
    report.floor(rule, "bodies touching thread_local", n, 8 if ctx.parallel(config) else 6, config=config)


CTX_OPAQUE = set(["run_now", "run", "execute", "execute_seq", "setup", "dispose", "inner", "sender", "inner_noblock", "reads", "writes"])


def _walk_ctx(ev, events, depth, hits, order, is_tl, is_inner):
    """Visit events with the pool-nesting depth: `hits` gets (depth, site) for everything that runs thread-local
    systems, `order` the sequence of ('tl' | 'inner') markers at the top level."""
    from ..semcov import sroot
    for x in events:
        if x[0] == "once":
            depth += 1
        elif x[0] == "once-end":
            depth -= 1
        elif x[0] == "call":
            if x[3] and is_tl(sroot(ev, x[3][0])) and x[2].name in F.LIFECYCLE[F.RUN]:
                hits.append((depth, ev.loc(x[1])))
                order.append("tl")
            elif x[3] and is_inner(sroot(ev, x[3][0])):
                order.append("inner")
        elif x[0] == "loop":
            L = x[1]
            r = sroot(ev, L.source) if L.source is not None else (None, [])
            d2 = depth + (1 if L.kind == "model:par_for_each" else 0)
            if is_tl(r):
                sub = []
                for it in L.iters:
                    _walk_ctx(ev, it.path.events, d2, sub, [], lambda r_: r_[0] == L.elem or is_tl(r_), is_inner)
                if sub or True:
                    hits.append((d2, ev.loc(L.site)))
                    order.append("tl")
            else:
                if is_inner(r):
                    order.append("inner")
                # what a loop over something else (an index range, say) does to either list is done where the loop stands
                subs = []
                for it in L.iters:
                    sub = []
                    _walk_ctx(ev, it.path.events, d2, hits, sub, is_tl, is_inner)
                    subs.append(sub)
                longest = max(subs, key=len) if subs else []
                order.extend(longest)
    return depth


def context(ctx, report, facts, config, rule="C12.CTX"):
    """Wherever thread-local systems are run, it is on the calling thread (outside every rayon install / join / spawn /
    scope / parallel for_each), and after the ordinary systems of the same dispatch."""
    from ..sem import Evaluator, Policy
    entries = [(A.DISP + "::dispatch", ["inner"]), (A.DISP + "::dispatch_par", ["inner"]), (A.DISP + "::dispatch_seq", ["inner"]),
               (A.DISP + "::dispatch_thread_local", ["inner"])]
    if ctx.parallel(config):
        entries.append((A.AD + "::wait", ["data"]))
        entries.append((A.AD + "::dispatch", ["data"]))
    n_tl = 0
    for q, inner_path in entries:
        b = facts.maybe(q)
        if b is None:
            if q.endswith("dispatch_par") and not ctx.parallel(config):
                continue
            report.ob(rule, "ANCHOR/%s" % q, False, "anchor %s not found" % q, config=config)
            continue
        report.touched(b, config)
        ev = Evaluator(facts, Policy(opaque_names=CTX_OPAQUE))
        ends = [e for e in ev.eval(b) if e.kind == "return"]
        pr = []
        for e in ends:
            hits, order_ = [], []
            is_tl = lambda r: r[0] == SELF and r[1][:1] == ["thread_local"]
            is_inner = lambda r: r[0] == SELF and r[1][:1] == inner_path or (isinstance(r[0], tuple) and r[0][:1] == ("call",) and ev.callee(r[0][1]) is not None and ev.callee(r[0][1]).name in ("inner", "sender"))
            _walk_ctx(ev, e.path.events, 0, hits, order_, is_tl, is_inner)
            for d_, site in hits:
                n_tl += 1
                if d_ > 0:
                    pr.append("thread-local systems are run inside a thread-pool combinator (%s): they can leave the calling thread" % site)
            if "tl" in order_ and "inner" in order_[order_.index("tl"):]:
                pr.append("ordinary systems are dispatched after the thread-local ones")
            from ..semcov import _known_empty, Src
            no_tl = _known_empty(ev, e, Src(SELF, ["thread_local"]))
            if q.endswith("::dispatch") and q.startswith(A.DISP) and (("tl" not in order_ and not no_tl) or "inner" not in order_):
                pr.append("a dispatch does not run both the ordinary and the thread-local systems")
            if q.endswith("::wait") and (("tl" not in order_ and not no_tl) or "inner" not in order_):
                pr.append("wait does not take the state back before running the thread-local systems")
        report.ob(rule, q.replace(A.C + "::dispatch::", ""), not pr and bool(ends),
                  "thread-local systems run on the caller, after the ordinary ones" if not pr else "; ".join(sorted(set(pr))), site=b.loc(), config=config)
    report.floor(rule, "places where thread-local systems are run", n_tl, 2, config=config)


def order(ctx, report, facts, config, rule="C12.ORDER"):
    context(ctx, report, facts, config, rule)


def convert(ctx, report, facts, config, rule="C12.CONVERT"):
    """try_into_sendable: Ok(inner) exactly when there is no thread-local system, else the dispatcher back."""
    from .. import semq as Q
    b = facts.one(A.DISP + "::try_into_sendable")
    report.touched(b, config)
    ev, ends = Q.sem(ctx, facts, b)
    seen = set()
    for e in ends:
        if e.kind != "return":
            report.ob(rule, "can-panic", False, "try_into_sendable can panic", site=b.loc(), config=config)
            continue
        decided = None
        for (ct, cv, cn, cs) in e.path.conds:
            if Q.is_call(ev, ct, "is_empty"):
                f_, i_, base = Q.table_access(ev, ct[2][0])
                if Q.crate_fields(f_) == [(A.DISP, "thread_local")] and base == ("param", 1):
                    decided = cv
            else:
                nc = Q.norm_cmp(ct, cv)
                if nc is not None and nc[2][0] == "int" and Q.is_call(ev, nc[1], "len"):
                    f_, i_, base = Q.table_access(ev, nc[1][2][0])
                    if Q.crate_fields(f_) == [(A.DISP, "thread_local")] and base == ("param", 1):
                        zero = [n for n in (0, 1, 2) if Q.holds_for(nc[0], n, nc[2][1])]
                        decided = 1 if zero == [0] else (0 if 0 not in zero else None)
        if decided is None:
            report.ob(rule, "undecided-path", False, "a path of try_into_sendable does not test thread_local.is_empty()", site=b.loc(), config=config)
            continue
        ret = e.ret
        if decided == 1:
            ok = ret[0] == "agg" and ret[2] == "std::result::Result::Ok" and Q.strip(ev, ret[3][0]) == ("field", ("param", 1), "inner", A.DISP)
            report.ob(rule, "empty->Ok(self.inner)", ok, "returns Ok(self.inner) when thread_local is empty" if ok else "does not return Ok(self.inner) when thread_local is empty", site=b.loc(), config=config)
            seen.add("empty")
        else:
            ok = ret[0] == "agg" and ret[2] == "std::result::Result::Err" and Q.strip(ev, ret[3][0]) == ("param", 1)
            report.ob(rule, "non-empty->Err(self)", ok, "returns Err(self) when thread_local is not empty" if ok else "does not hand the dispatcher back when thread-local systems exist", site=b.loc(), config=config)
            seen.add("nonempty")
    report.ob(rule, "both-outcomes", seen == set(["empty", "nonempty"]), "outcomes seen: %s" % sorted(seen), site=b.loc(), config=config)


def auto(ctx, report, facts, config, rule="C12.AUTO", traits=("std::marker::Send",)):
    prog = ctx.program(facts)
    constructed = set()
    for b in facts.bodies.values():
        for blk in b.blocks:
            for st in blk["stmts"]:
                if st["k"] == "assign" and st["rv"]["k"] == "agg" and st["rv"].get("agg") == "adt":
                    constructed.add(st["rv"]["adt"])
    n = 0
    for im in facts.impls:
        if not im.get("unsafe") or im.get("trait") not in traits:
            continue
        n += 1
        head = im["self_head"]
        tr = im["trait"].rsplit("::", 1)[1]
        site = "%s:%d" % (im["span"]["file"], im["span"]["line"])
        fields = im.get("auto_fields")
        if fields is None:
            report.ob(rule, "%s/%s" % (head, tr), False, "unsafe impl of %s for a non-ADT type cannot be audited" % tr, site=site, config=config)
            continue
        never_built = head not in constructed
        for f in fields:
            inst = "%s/%s/field=%s" % (head, tr, f["name"])
            if f["holds"]:
                report.ob(rule, inst, True, "%s: %s holds under the impl's where-clauses" % (f["ty"], tr), site=site, config=config)
            elif never_built:
                report.ob(rule, inst, True, "%s is not %s, but %s is never constructed (marker used only inside PhantomData)" % (f["ty"], tr, head), site=site, config=config)
            else:
                report.ob(rule, inst, False,
                          "`unsafe impl %s for %s` covers field `%s: %s`, which is not %s under the impl's where-clauses: whatever it owns can be moved to / used from another thread" % (
                              tr, head.rsplit("::", 1)[1], f["name"], f["ty"], tr), site=site, config=config)
    report.floor(rule, "unsafe impl " + "/".join(t.rsplit("::", 1)[1] for t in traits), n, 2 if len(traits) == 1 else 4, config=config)


def _run_rules(ctx, report):
    for config in ctx.configs:
        facts = ctx.facts(config)
        only = lambda ident: ident in ("Dispatcher::dispatch", "Dispatcher::dispatch_thread_local", "AsyncDispatcher::wait",
                                       "Dispatcher::dispatch_par", "Dispatcher::dispatch_seq", "AsyncDispatcher::dispatch",
                                       "<Dispatcher as RunNow>::run_now")
        report.guard("C12.SEQ", F.check_family, ctx, report, "C12.SEQ", facts, config, (F.RUN,), only)
        report.guard("C12.SEQ", S.build_wiring, ctx, report, "C12.SEQ", facts, config)
        report.guard("C12.WHERE", where, ctx, report, facts, config)
        report.guard("C12.ORDER", order, ctx, report, facts, config)
        report.guard("C12.CONVERT", convert, ctx, report, facts, config)
        report.guard("C12.AUTO", auto, ctx, report, facts, config)


ENCAPSULATED_NOTE = (" (ENCAPSULATED) The premise of all of these - the crate's own code is the only thing that touches this state - is an obligation "
                     "of its own: no field of the types the state lives in can be named outside the crate (effective visibility), and no function a "
                     "user can call hands out `&mut` to one of them.")
EXPLANATION = EXPLANATION + ENCAPSULATED_NOTE
TECHNIQUE = TECHNIQUE + "; encapsulation inventory on rustc's effective visibilities (fields of state types, `&mut` results of callable functions)"


def run(ctx, report):
    _run_rules(ctx, report)
    from .. import shared as _S
    for config in ctx.configs:
        report.guard("C12.SEQ", _S.chaining, ctx, report, "C12.SEQ", ctx.facts(config), config, [('with_thread_local', 'add_thread_local')])
    report.guard("C12.CONFIGS", _S.configurations, ctx, report, "C12.CONFIGS")
    for config in ctx.configs:
        report.guard("C12.ENCAPSULATED", _S.encapsulated, ctx, report, "C12.ENCAPSULATED", ctx.facts(config), config, "C12")
