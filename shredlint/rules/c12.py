"""C12 - Thread-local systems: calling thread, after all others, in registration order."""
from .. import anchors as A
from .. import fanout as F
from .. import shared as S
from ..facts import Callee
from ..paths import enumerate_paths
from ..shapes import traversals, root, SELF

PROP = "C12"
EXPLANATION = (
    "Static structural obligations: (WHERE) the `thread_local` lists are touched only by the audited bodies, never by a "
    "closure, and their elements reach run_now only in Dispatcher::dispatch_thread_local and AsyncDispatcher::wait; (ORDER) "
    "in Dispatcher::dispatch the ordinary dispatch dominates the thread-local loop, in wait the blocking Data::inner() "
    "dominates it; (SEQ) registration appends, both loops are full-forward; (CONVERT) try_into_sendable returns Ok(self.inner) "
    "exactly when thread_local.is_empty(), else Err(self); (AUTO) every `unsafe impl Send` is audited field by field under the "
    "impl's own where-clauses with the compiler's trait solver. Thread identity at run time is not observed.")
ASSUMPTIONS = ["rustc's auto-trait checking guarantees that a !Send value is not moved to another thread unless an unsafe impl says so"]
TRUSTED = ["rustc nightly MIR construction and trait solver", "shred-facts driver", "shredlint analyses"]
TECHNIQUE = 'static: who-touches-thread_local inventory, dominance ordering, FANOUT coverage of the thread-local loops, decision table of try_into_sendable, trait-solver audit of unsafe impl Send fields (rustc_private), compile_fail witnesses'
RULE_TEXT = "one obligation per body touching a thread_local list, per ordering site, per path of try_into_sendable, per field of every unsafe auto-trait impl"

ALLOWED_TOUCH = {
    A.DISP + "::setup": "setup fan-out",
    A.DISP + "::dispose": "dispose fan-out",
    A.DISP + "::dispatch_thread_local": "the thread-local loop on the caller",
    A.DISP + "::try_into_sendable": "emptiness test / drop",
    A.AD + "::setup": "setup fan-out",
    A.AD + "::wait": "the thread-local loop on the caller",
    A.DB + "::add_thread_local": "registration",
    A.DB + "::build": "moved into the dispatcher",
    A.DB + "::build_async": "moved into the dispatcher",
    "<" + A.DB + " as std::default::Default>::default": "derived Default",
}


def touches(body, adts, field):
    """Blocks of `body` where a place projects field `field` of one of `adts`."""
    hits = []

    def place(p, bb):
        for e in p.get("p", []):
            if e["k"] == "field" and e.get("name") == field and e.get("adt") in adts:
                hits.append(bb)

    def operand(o, bb):
        if isinstance(o, dict) and "place" in o:
            place(o["place"], bb)

    for bb, blk in enumerate(body.blocks):
        if blk["cleanup"]:
            continue
        for st in blk["stmts"]:
            if st["k"] != "assign":
                continue
            place(st["place"], bb)
            rv = st["rv"]
            if "place" in rv:
                place(rv["place"], bb)
            for k in ("op", "a", "b"):
                if k in rv:
                    operand(rv[k], bb)
            for o in rv.get("ops", []):
                operand(o, bb)
        t = blk["term"]
        if t["k"] == "call":
            for a in t["args"]:
                operand(a, bb)
            place(t["dest"], bb)
        elif t["k"] == "drop":
            place(t["place"], bb)
    return hits


def where(ctx, report, facts, config, rule="C12.WHERE"):
    prog = ctx.program(facts)
    n = 0
    for b in sorted(facts.bodies.values(), key=lambda b: b.key):
        hits = touches(b, (A.DISP, A.AD, A.DB), "thread_local")
        if not hits:
            continue
        n += 1
        report.touched(b, config)
        ok = b.qname in ALLOWED_TOUCH and not b.is_closure
        report.ob(rule, "touch/%s" % b.qname, ok,
                  ALLOWED_TOUCH.get(b.qname, "the thread-local list is accessed in %s, which is not one of the audited bodies%s" % (
                      b.qname, " (a closure: it may run on a pool worker)" if b.is_closure else "")), site=b.loc(hits[0]), config=config)
    report.floor(rule, "bodies touching thread_local", n, 8 if ctx.parallel(config) else 6, config=config)
    # run_now on elements only in the two loops
    for b in sorted(facts.bodies.values(), key=lambda b: b.key):
        bt = prog.bt(b)
        for tr in traversals(prog, b):
            base, path = root(tr.source, bt, facts.crate)
            if path and path[-1] == "thread_local":
                runs = [bb for bb, t in b.normal_calls() if bb in tr.loop and Callee(t["func"]).name in F.LIFECYCLE[F.RUN]]
                if runs:
                    ok = b.qname in (A.DISP + "::dispatch_thread_local", A.AD + "::wait")
                    report.ob(rule, "run/%s" % b.qname, ok, "thread-local systems are run in %s" % b.qname, site=b.loc(runs[0]), config=config)
    # the two loops are not inside a closure handed to the pool: they are plain methods (checked above: not closures),
    # and no caller wraps them: callers of dispatch_thread_local are Dispatcher::dispatch only (lib)
    dtl = facts.one(A.DISP + "::dispatch_thread_local")
    callers = facts.callers().get(dtl.key, [])
    for cb, bb in callers:
        ok = (not cb.is_closure) and cb.qname == A.DISP + "::dispatch"
        report.ob(rule, "caller/%s" % cb.qname, ok, "dispatch_thread_local is called from %s%s" % (cb.qname, " (a closure)" if cb.is_closure else ""),
                  site=cb.loc(bb), config=config)
    report.floor(rule, "callers of dispatch_thread_local", len(callers), 1, config=config)
    disp = facts.one(A.DISP + "::dispatch")
    for cb, bb in facts.callers().get(disp.key, []):
        report.ob(rule, "dispatch-caller/%s" % cb.qname, not cb.is_closure,
                  "Dispatcher::dispatch is called from %s%s" % (cb.qname, " (a closure: thread-local systems could leave the caller's thread)" if cb.is_closure else ""),
                  site=cb.loc(bb), config=config)


def order(ctx, report, facts, config, rule="C12.ORDER"):
    prog = ctx.program(facts)
    b = facts.one(A.DISP + "::dispatch")
    report.touched(b, config)
    bt = prog.bt(b)
    inner = [bb for bb, t in b.normal_calls() if Callee(t["func"]).name == "dispatch" and root(bt.call_args(bb)[0], bt, facts.crate) == (SELF, ["inner"])]
    tl = [bb for bb, t in b.normal_calls() if Callee(t["func"]).name == "dispatch_thread_local"]
    ok = len(inner) == 1 and len(tl) == 1 and bt.cfg.dominates(inner[0], tl[0]) and inner[0] != tl[0]
    report.ob(rule, "Dispatcher::dispatch", ok, "self.inner.dispatch(world) dominates self.dispatch_thread_local(world)" if ok else
              "the ordinary dispatch does not precede the thread-local systems on every path (inner: %s, thread-local: %s)" % (inner, tl),
              site=b.loc(tl[0]) if tl else b.loc(), config=config)
    if ctx.parallel(config):
        b = facts.one(A.AD + "::wait")
        report.touched(b, config)
        bt = prog.bt(b)
        inn = [bb for bb, t in b.normal_calls() if Callee(t["func"]).name == "inner" and Callee(t["func"]).self_head == A.AD_DATA]
        loops = [tr for tr in traversals(prog, b) if root(tr.source, bt, facts.crate) == (SELF, ["thread_local"])]
        ok = len(inn) >= 1 and len(loops) == 1 and bt.cfg.dominates(inn[0], loops[0].into_iter_bb if loops[0].into_iter_bb is not None else loops[0].header)
        report.ob(rule, "AsyncDispatcher::wait", ok, "the blocking self.data.inner() dominates the thread-local loop" if ok else
                  "wait does not take the state back (blocking) before running thread-local systems", site=b.loc(), config=config)


def convert(ctx, report, facts, config, rule="C12.CONVERT"):
    b = facts.one(A.DISP + "::try_into_sendable")
    report.touched(b, config)
    paths = [p for p in enumerate_paths(b, facts) if p.end == "return"]
    seen = set()
    for p in paths:
        decided = None
        for (ct, cv, cn, cb) in p.conds:
            if ct[0] == "call":
                c = S.callee_at(b, ct[1])
                f_, i_, base = S.table_access(b, ct[2][0]) if ct[2] else ([], [], None)
                if c.name == "is_empty" and S.crate_fields(f_) == [(A.DISP, "thread_local")] and base == ("param", 1):
                    decided = cv
        if decided is None:
            report.ob(rule, "undecided-path", False, "a path of try_into_sendable does not test thread_local.is_empty()", site=b.loc(), config=config)
            continue
        ret = p.ret
        if decided == 1:
            ok = ret[0] == "agg" and ret[2] == "std::result::Result::Ok" and ret[3] == (("field", ("param", 1), "inner", A.DISP),)
            report.ob(rule, "empty->Ok(self.inner)", ok, "returns %s when thread_local is empty" % (ret[2:4] if ret[0] == "agg" else ret,), site=b.loc(), config=config)
            seen.add("empty")
        else:
            ok = ret[0] == "agg" and ret[2] == "std::result::Result::Err" and ret[3] == (("param", 1),)
            report.ob(rule, "non-empty->Err(self)", ok, "returns %s when thread_local is not empty" % (ret[2:4] if ret[0] == "agg" else ret,), site=b.loc(), config=config)
            seen.add("nonempty")
    report.ob(rule, "both-outcomes", seen == set(["empty", "nonempty"]), "outcomes seen: %s" % sorted(seen), site=b.loc(), config=config)


def auto(ctx, report, facts, config, rule="C12.AUTO", traits=("std::marker::Send",)):
    prog = ctx.program(facts)
    constructed = set()
    for b in facts.bodies.values():
        for blk in b.blocks:
            for st in blk["stmts"]:
                if st["k"] == "assign" and st["rv"]["k"] == "agg" and st["rv"].get("agg") == "adt":
                    constructed.add(st["rv"]["adt"])
    n = 0
    for im in facts.impls:
        if not im.get("unsafe") or im.get("trait") not in traits:
            continue
        n += 1
        head = im["self_head"]
        tr = im["trait"].rsplit("::", 1)[1]
        site = "%s:%d" % (im["span"]["file"], im["span"]["line"])
        fields = im.get("auto_fields")
        if fields is None:
            report.ob(rule, "%s/%s" % (head, tr), False, "unsafe impl of %s for a non-ADT type cannot be audited" % tr, site=site, config=config)
            continue
        never_built = head not in constructed
        for f in fields:
            inst = "%s/%s/field=%s" % (head, tr, f["name"])
            if f["holds"]:
                report.ob(rule, inst, True, "%s: %s holds under the impl's where-clauses" % (f["ty"], tr), site=site, config=config)
            elif never_built:
                report.ob(rule, inst, True, "%s is not %s, but %s is never constructed (marker used only inside PhantomData)" % (f["ty"], tr, head), site=site, config=config)
            else:
                report.ob(rule, inst, False,
                          "`unsafe impl %s for %s` covers field `%s: %s`, which is not %s under the impl's where-clauses: whatever it owns can be moved to / used from another thread" % (
                              tr, head.rsplit("::", 1)[1], f["name"], f["ty"], tr), site=site, config=config)
    report.floor(rule, "unsafe impl " + "/".join(t.rsplit("::", 1)[1] for t in traits), n, 2 if len(traits) == 1 else 4, config=config)


def run(ctx, report):
    for config in ctx.configs:
        facts = ctx.facts(config)
        only = lambda ident: ident in ("Dispatcher::dispatch", "Dispatcher::dispatch_thread_local", "AsyncDispatcher::wait",
                                       "Dispatcher::dispatch_par", "Dispatcher::dispatch_seq", "AsyncDispatcher::dispatch")
        report.guard("C12.SEQ", F.check_family, ctx, report, "C12.SEQ", facts, config, (F.RUN,), only)
        report.guard("C12.SEQ", S.build_wiring, ctx, report, "C12.SEQ", facts, config)
        report.guard("C12.WHERE", where, ctx, report, facts, config)
        report.guard("C12.ORDER", order, ctx, report, facts, config)
        report.guard("C12.CONVERT", convert, ctx, report, facts, config)
        report.guard("C12.AUTO", auto, ctx, report, facts, config)
