"""C10 - No needless serialisation: a later stage only when something forces it."""
from .. import anchors as A
from .. import placement as P
from .. import shared as S

PROP = "C10"
EXPLANATION = (
    "Static structural obligations on the placement code: (EARLIEST) candidates are scanned forward from the barrier and the first "
    "accepted one wins (an ascending scan over barrier..len(stages), however it is spelled: iterator chain, for, while); (ACCEPT) a stage without conflicting group is always "
    "accepted, one with a single conflicting group is rejected only by the capacity guard or improves_balance; (EXACT) the predicate "
    "tests nothing beyond W/W, W/R, R/W (read/read never conflicts); (DEPCOVER) the ranges of stages whose ids are crossed off the "
    "pending dependency list chain from 0 up to the scanned range; (ALLOCC) crossing off removes every equal entry; (WIDTH) "
    "(ALLOCC also: a way through remove_ids that crosses nothing off has established that the pending list is empty;) max_threads is the maximum over all stages of the group count; (PLACE) stages and groups come into being only in add_stage / add_group as called by insert "
    "after its search (nothing else in the crate changes the shape of the plan tables), so no stage exists that the search did not ask for. Optimality of the balance heuristic is not decided.")
ASSUMPTIONS = ["Iterator::find returns the first match; SmallVec::retain removes all non-matching entries"]
TRUSTED = ["rustc nightly MIR construction", "shred-facts driver", "shredlint analyses"]
TECHNIQUE = 'static: structured evaluation of insertion_target / find_conflict / remove_ids / max_threads (interprocedural path tabulation with loop objects and std-combinator models): scan order and exits, accept table, exactness of the conflict matrix, range chaining of dependency cross-off (DEPCOVER), every-equal-entry removal (ALLOCC), running maximum (WIDTH), who-may-change-the-shape inventory of the plan tables (PLACE)'
RULE_TEXT = "one obligation per chain link, accept-table row, predicate pair, cross-off range and idiom, width computation"


def rules(ctx, report, facts, config, pfx="C10"):
    # a provided data type that declares more than it borrows forces stages nothing needs: declared = borrowed (C06), imported
    from .. import datarules as _D
    report.guard(pfx + ".DECL", _D.all_impls, ctx, report, facts, config, pfx + ".DECL", only_kinds=("leaf", "tuple"))
    report.guard(pfx + ".EARLIEST", P.accept, ctx, report, pfx + ".EARLIEST", facts, config, ("chain",))
    report.guard(pfx + ".ACCEPT", P.accept, ctx, report, pfx + ".ACCEPT", facts, config, ("accept",))
    report.guard(pfx + ".EXACT", P.matrix, ctx, report, pfx + ".EXACT", facts, config, ("exact",))
    report.guard(pfx + ".EXACT", P.intersect_body, ctx, report, pfx + ".EXACT", facts, config)
    report.guard(pfx + ".DEPCOVER", P.depcover, ctx, report, pfx + ".DEPCOVER", facts, config)
    report.guard(pfx + ".ALLOCC", P.crossoff, ctx, report, pfx + ".ALLOCC", facts, config, ("all-occurrences",))
    report.guard(pfx + ".DEPGATE", P.depgate, ctx, report, pfx + ".DEPGATE", facts, config)
    # a stage or a group that comes into being anywhere but in the constructors insert calls after its search was forced by nothing
    report.guard(pfx + ".PLACE", S.lockstep, ctx, report, pfx + ".PLACE", facts, config)
    if ctx.parallel(config):
        report.guard(pfx + ".WIDTH", P.width, ctx, report, pfx + ".WIDTH", facts, config)


def _run_rules(ctx, report):
    for config in ctx.configs:
        rules(ctx, report, ctx.facts(config), config)
    if ctx.tier == "thorough":
        from .. import positives as POS
        POS.engine(ctx, report, "C10.ENGINE")


ENCAPSULATED_NOTE = (" (ENCAPSULATED) The premise of all of these - the crate's own code is the only thing that touches this state - is an obligation "
                     "of its own: no field of the types the state lives in can be named outside the crate (effective visibility), and no function a "
                     "user can call hands out `&mut` to one of them.")
EXPLANATION = EXPLANATION + ENCAPSULATED_NOTE
TECHNIQUE = TECHNIQUE + "; encapsulation inventory on rustc's effective visibilities (fields of state types, `&mut` results of callable functions)"


def run(ctx, report):
    _run_rules(ctx, report)
    from .. import shared as _S
    report.guard("C10.CONFIGS", _S.configurations, ctx, report, "C10.CONFIGS")
    for config in ctx.configs:
        report.guard("C10.ENCAPSULATED", _S.encapsulated, ctx, report, "C10.ENCAPSULATED", ctx.facts(config), config, "C10")
