"""C20 - The printed par/seq plan is total and matches the executed plan."""
from .. import anchors as A
from .. import shared as S
from .. import builderrules as B
from .. import positives as P
from ..facts import Callee
from ..shapes import traversals, root, SELF

PROP = "C20"
EXPLANATION = (
    "Static structural obligations: (TOTAL) the call cone of <DispatcherBuilder as Debug>::fmt inside the crate contains no panic "
    "construct - no unwrap/expect, panic!, indexing, bounds or overflow assert - other than `?` on fmt::Result; (WALK) write_par_seq "
    "traverses the id table full-forward on all three levels (stages, groups, members; leaving only through `?`) and emits exactly one "
    "line per id, named through the inverted name map or a placeholder; (SAME) ids and boxes share slot and append order "
    "(SLOT + LOCKSTEP) and one id goes to both the name map and the table (IDS); (PRINT) print_par_seq and Debug format the builder "
    "itself. The exact sanitising character set is not decided.")
ASSUMPTIONS = ["std formatting machinery does not panic for Display of String/usize"]
TRUSTED = ["rustc nightly MIR construction", "shred-facts driver", "shredlint analyses"]
TECHNIQUE = 'static: panic-construct scan of the fmt call cone, nested full-forward traversal check of write_par_seq (one line per id, name looked up by the id), imported slot / lock-step / id-wiring obligations'
RULE_TEXT = "one obligation per body of the fmt cone, per traversal level, per imported slot/lock-step obligation"


def total(ctx, report, facts, config, rule="C20.TOTAL"):
    fmt = facts.one(name="fmt", trait="std::fmt::Debug", self_head=A.DB)
    cone = facts.cone([fmt])
    report.floor(rule, "bodies in the fmt cone", len(cone), 3, config=config)
    for b in sorted(cone.values(), key=lambda b: b.key):
        report.touched(b, config)
        bad = B.panic_constructs(b)
        report.ob(rule, b.qname, not bad, "no panic construct" if not bad else
                  "formatting the builder can panic: %s" % ", ".join("%s at %s" % (w, b.loc(bb)) for bb, w in bad[:3]),
                  site=b.loc(bad[0][0]) if bad else b.loc(), config=config)


def walk(ctx, report, facts, config, rule="C20.WALK"):
    prog = ctx.program(facts)
    b = facts.one(A.SB + "::write_par_seq")
    report.touched(b, config)
    bt = prog.bt(b)
    trs = [t for t in traversals(prog, b, allow_try=True) if t.kind == "for"]
    lvl = []
    cur = None
    # level 1: self.ids
    for t in trs:
        if root(t.source, bt, facts.crate) == (SELF, ["ids"]):
            lvl.append(t)
            cur = t
    while cur is not None and len(lvl) < 3:
        nxt = [t for t in trs if root(t.source, bt, facts.crate) == (("elem", cur.header), [])]
        if len(nxt) != 1:
            break
        lvl.append(nxt[0])
        cur = nxt[0]
    ok = len(lvl) == 3
    report.ob(rule, "levels", ok, "three nested traversals rooted at self.ids (stages, groups, members)" if ok else
              "expected three nested traversals of the id table, found %d" % len(lvl), site=b.loc(), config=config)
    for i, t in enumerate(lvl):
        report.ob(rule, "level%d-full" % (i + 1), t.full, "full-forward, leaves only through `?`" if t.full else "level %d of the id table is not fully traversed: %s" % (i + 1, t.why),
                  site=b.loc(t.header), config=config)
    if ok:
        inner = lvl[2]
        writes = [bb for bb, t in b.normal_calls() if Callee(t["func"]).name == "write_fmt" and bb in inner.loop]
        cnt = bt.cfg.count(lambda x: x in writes, start=inner.some_bb, ends=[inner.header], within=set(inner.loop)) if writes else (0, 0)
        report.ob(rule, "one-line-per-id", cnt == (1, 1), "write_fmt calls per member: min %s / max %s (expected exactly 1)" % cnt, site=b.loc(inner.header), config=config)
        # the printed name is looked up by the member's id in a map built from the `map` parameter
        gets = [bb for bb, t in b.normal_calls() if Callee(t["func"]).name == "get" and bb in inner.loop and "HashMap" in Callee(t["func"]).path]
        okn = False
        if len(gets) == 1:
            a = bt.call_args(gets[0])
            key_root = root(a[1], bt, facts.crate)
            m = a[0]
            leaves = prog.origins(b, m)
            okn = key_root == (("elem", inner.header), []) and (("param", b.key, 3) in leaves or ("field", A.DB, "map") in leaves)
        report.ob(rule, "name-lookup", okn, "each id is looked up in the map inverted from the `map` argument" if okn else "the printed name is not looked up by the member's own id in the name map", site=b.loc(), config=config)
    # Debug::fmt and print_par_seq format the builder itself
    fmt = facts.one(name="fmt", trait="std::fmt::Debug", self_head=A.DB)
    bt2 = prog.bt(fmt)
    cs = [(bb, Callee(t["func"])) for bb, t in fmt.normal_calls()]
    okf = len(cs) == 1 and cs[0][1].name == "write_par_seq"
    if okf:
        a = bt2.call_args(cs[0][0])
        okf = a[0] == ("field", ("param", 1), "stages_builder", A.DB) and a[1] == ("param", 2) and a[2] == ("field", ("param", 1), "map", A.DB)
    report.ob("C20.PRINT", "Debug::fmt", okf, "self.stages_builder.write_par_seq(f, &self.map)" if okf else "Debug::fmt does not print the builder's own tables", site=fmt.loc(), config=config)
    pp = facts.one(A.DB + "::print_par_seq")
    bt3 = prog.bt(pp)
    dbg = [bb for bb, t in pp.normal_calls() if Callee(t["func"]).name in ("new_debug", "new_display")]
    okp = len(dbg) == 1 and root(bt3.call_args(dbg[0])[0], bt3, facts.crate)[0] == SELF
    report.ob("C20.PRINT", "print_par_seq", okp, "prints `self` with {:#?}" if okp else "print_par_seq does not format self", site=pp.loc(), config=config)


def run(ctx, report):
    for config in ctx.configs:
        facts = ctx.facts(config)
        report.guard("C20.TOTAL", total, ctx, report, facts, config)
        report.guard("C20.WALK", walk, ctx, report, facts, config)
        report.guard("C20.SAME", S.slot, ctx, report, "C20.SAME", facts, config)
        report.guard("C20.SAME", S.lockstep, ctx, report, "C20.SAME", facts, config)
        report.guard("C20.SAME", B.ids, ctx, report, "C20.SAME", facts, config, True)
    P.check(ctx, report, "C20.TOTAL", ["panic_constructs"])
    P.check(ctx, report, "C20.WALK", ["partial_traversals"])
