"""C20 - The printed par/seq plan is total and matches the executed plan."""
from .. import anchors as A
from .. import shared as S
from .. import builderrules as B
from .. import positives as P
from ..facts import Callee
from ..shapes import traversals, root, SELF

PROP = "C20"
EXPLANATION = (
    "(WALK also: the map the names are looked up in is every entry of the name map turned round - one collect over a plain traversal, (value, key) per entry.) "
    "Static structural obligations: (TOTAL) the call cone of <DispatcherBuilder as Debug>::fmt inside the crate contains no panic "
    "construct - no unwrap/expect, panic!, indexing, bounds or overflow assert - other than `?` on fmt::Result; (WALK) write_par_seq "
    "traverses the id table full-forward on all three levels (stages, groups, members; leaving only through `?`) and emits exactly one "
    "line per id, named through the inverted name map or a placeholder; (SAME) ids and boxes share slot and append order "
    "(SLOT + LOCKSTEP) and one id goes to both the name map and the table (IDS); (PRINT) print_par_seq and Debug format the builder "
    "itself. The exact sanitising character set is not decided.")
ASSUMPTIONS = ["std formatting machinery does not panic for Display of String/usize"]
TRUSTED = ["rustc nightly MIR construction", "shred-facts driver", "shredlint analyses"]
TECHNIQUE = 'static: panic-construct scan of the fmt call cone, nested full-forward traversal check of write_par_seq (one line per id, name looked up by the id), imported slot / lock-step / id-wiring obligations'
RULE_TEXT = "one obligation per body of the fmt cone, per traversal level, per imported slot/lock-step obligation"


def total(ctx, report, facts, config, rule="C20.TOTAL"):
    fmt = facts.one(name="fmt", trait="std::fmt::Debug", self_head=A.DB)
    cone = facts.cone([fmt])
    report.floor(rule, "bodies in the fmt cone", len(cone), 3, config=config)
    for b in sorted(cone.values(), key=lambda b: b.key):
        report.touched(b, config)
        bad = B.panic_constructs(b)
        report.ob(rule, b.qname, not bad, "no panic construct" if not bad else
                  "formatting the builder can panic: %s" % ", ".join("%s at %s" % (w, b.loc(bb)) for bb, w in bad[:3]),
                  site=b.loc(bad[0][0]) if bad else b.loc(), config=config)


def _has_leaf(t, leaf):
    from ..terms import subterms
    return any(s_ == leaf for s_ in subterms(t))


def walk(ctx, report, facts, config, rule="C20.WALK"):
    """write_par_seq visits every stage, every group of it and every id of the group, prints one line per id under the
    name the id has in the map it was given, and stops early only when the formatter reports an error."""
    from .. import semq as Q
    from ..semcov import _term_class
    prog = ctx.program(facts)
    b = facts.one(A.SB + "::write_par_seq")
    report.touched(b, config)
    ev, ends = Q.sem(ctx, facts, b)
    loops = Q.all_loops(ends)
    lvl = []
    l1 = [L for L in loops if L.source is not None and Q.strip(ev, L.source) == ("field", ("param", 1), "ids", A.SB)]
    cur = l1[0] if len(set(L.id for L in l1)) == 1 else None
    while cur is not None and len(lvl) < 3:
        lvl.append(cur)
        nxt = [L for L in loops if L.source is not None and Q.strip(ev, L.source) == cur.elem]
        cur = nxt[0] if len(set(L.id for L in nxt)) == 1 else None
    ok = len(lvl) == 3
    report.ob(rule, "levels", ok, "three nested traversals rooted at self.ids (stages, groups, members)" if ok else
              "expected three nested traversals of the id table, found %d" % len(lvl), site=b.loc(), config=config)

    def error_exit(it):
        """The way leaves because the last thing decided was that a write failed."""
        cs = [c for c in it.path.conds if c[0][0] == "discr"]
        if not cs:
            return False
        last = cs[-1]
        c = Q.callee_of(ev, last[0][1])
        return c is not None and c.name in ("write_fmt", "write_str", "write_char") and it.path.variant(last[0][1]) == "Err"

    for i, L in enumerate(lvl):
        why = []
        same = [x for x in loops if x.id == L.id]
        for x in same:
            if x.kind == "while" or x.stages or _term_class(ev, x.source) != "full":
                why.append("not a plain front-to-back traversal")
            for it in x.iters:
                if it.end in ("break", "return") and not error_exit(it):
                    why.append("it can stop early without a formatter error")
        report.ob(rule, "level%d-full" % (i + 1), not why, "full-forward, leaves only when the formatter fails" if not why else
                  "level %d of the id table is not fully traversed: %s" % (i + 1, "; ".join(sorted(set(why)))), site=Q.site_of(ev, L) or b.loc(), config=config)
    if ok:
        inner = lvl[2]
        cnts = set()
        okn = True
        n_ways = 0
        for x in [x for x in loops if x.id == inner.id]:
            for it in x.iters:
                if it.end == "done":
                    continue
                n_ways += 1
                ws = [c for c in it.path.events if c[0] == "call" and c[2].name == "write_fmt"]
                cnts.add(len(ws))
                gets = [c for c in it.path.events if c[0] == "call" and c[2].name == "get" and "HashMap" in c[2].path]
                if not (len(gets) == 1 and Q.strip(ev, gets[0][3][1]) == inner.elem and _has_leaf(gets[0][3][0], ("param", 3))):
                    okn = False
        report.ob(rule, "one-line-per-id", cnts == set([1]), "write_fmt calls per member: %s (expected exactly 1)" % sorted(cnts), site=Q.site_of(ev, inner) or b.loc(), config=config)
        # the map the names are looked up in holds every entry of the `map` argument, turned round: one collect over a
        # plain front-to-back traversal of it (no skip / take / filter on the way), each entry yielding (its value, its key)
        inv = [L for L in loops if L.kind == "model:collect" and L.source is not None and Q.strip(ev, L.source) == ("param", 3)]
        oki = len(set(L.id for L in inv)) == 1
        for L in inv:
            if [n_ for n_, _ in L.stages if n_ != "map"] or _term_class(ev, L.source) != "full":
                oki = False
            for it in L.iters:
                if it.end == "done":
                    continue
                ys = [y for y in it.path.events if y[0] == "yield"]
                if it.end != "continue" or len(ys) != 1:
                    oki = False
                    continue
                y = ys[0][1] if len(ys[0]) == 2 else ys[0][2]
                comp = y[3] if isinstance(y, tuple) and y and y[0] == "agg" and len(y[3]) == 2 else None
                if not (comp and Q.strip(ev, comp[0]) == ("field", L.elem, "1", "tuple") and _has_leaf(comp[1], ("field", L.elem, "0", "tuple"))):
                    oki = False
        report.ob(rule, "name-map-inverted-in-full", oki, "the lookup map is collected from a full traversal of the `map` argument, (value, key) per entry" if oki else
                  "the map the names are looked up in is not every entry of the `map` argument turned round: a named system would print as unnamed", site=b.loc(), config=config)
        report.ob(rule, "name-lookup", okn and n_ways >= 2, "each id is looked up in the map inverted from the `map` argument" if okn else "the printed name is not looked up by the member's own id in the name map", site=b.loc(), config=config)
    # the result is Ok only after the whole walk
    bad = [e for e in ends if e.kind == "return" and e.ret[0] == "agg" and e.ret[2] == "std::result::Result::Ok" and
           any(x[0] == "loop" and x[2] is not None and x[1].iters[x[2]].end != "done" for x in e.path.events)]
    report.ob(rule, "ok-after-walk", not bad, "Ok(()) is returned only after every level was exhausted" if not bad else "Ok(()) can be returned from the middle of the walk", site=b.loc(), config=config)
    # Debug::fmt and print_par_seq format the builder itself
    fmt = facts.one(name="fmt", trait="std::fmt::Debug", self_head=A.DB)
    wps = facts.one(A.SB + "::write_par_seq")
    ev2, ends2 = Q.sem(ctx, facts, fmt, opaque=[wps.key])
    okf = bool(Q.returns(ends2))
    for e in Q.returns(ends2):
        cs = Q.calls_in(e.path.events, lambda c: c.key == wps.key, deep=True)
        if len(cs) != 1 or Q.all_loops([e]):
            okf = False
            continue
        a = [Q.strip(ev2, y) for y in cs[0][3]]
        if not (a[0] == ("field", ("param", 1), "stages_builder", A.DB) and a[1] == ("param", 2) and a[2] == ("field", ("param", 1), "map", A.DB) and Q.strip(ev2, e.ret) == cs[0][4]):
            okf = False
    report.ob("C20.PRINT", "Debug::fmt", okf, "self.stages_builder.write_par_seq(f, &self.map)" if okf else "Debug::fmt does not print the builder's own tables (or drops the result)", site=fmt.loc(), config=config)
    pp = facts.one(A.DB + "::print_par_seq")
    ev3, ends3 = Q.sem(ctx, facts, pp, opaque=[fmt.key])
    okp = bool(Q.returns(ends3))
    for e in Q.returns(ends3):
        dbg = Q.calls_in(e.path.events, lambda c: c.name in ("new_debug", "new_display"), deep=True)
        if not (len(dbg) == 1 and Q.strip(ev3, dbg[0][3][0]) == ("param", 1)):
            okp = False
    report.ob("C20.PRINT", "print_par_seq", okp, "prints `self` with {:#?}" if okp else "print_par_seq does not format self", site=pp.loc(), config=config)


def _run_rules(ctx, report):
    for config in ctx.configs:
        facts = ctx.facts(config)
        report.guard("C20.TOTAL", total, ctx, report, facts, config)
        report.guard("C20.WALK", walk, ctx, report, facts, config)
        report.guard("C20.SAME", S.slot, ctx, report, "C20.SAME", facts, config)
        report.guard("C20.SAME", S.lockstep, ctx, report, "C20.SAME", facts, config)
        report.guard("C20.SAME", B.ids, ctx, report, "C20.SAME", facts, config, True)
    P.check(ctx, report, "C20.TOTAL", ["panic_constructs"])
    P.check(ctx, report, "C20.WALK", ["partial_traversals"])


ENCAPSULATED_NOTE = (" (ENCAPSULATED) The premise of all of these - the crate's own code is the only thing that touches this state - is an obligation "
                     "of its own: no field of the types the state lives in can be named outside the crate (effective visibility), and no function a "
                     "user can call hands out `&mut` to one of them.")
EXPLANATION = EXPLANATION + ENCAPSULATED_NOTE
TECHNIQUE = TECHNIQUE + "; encapsulation inventory on rustc's effective visibilities (fields of state types, `&mut` results of callable functions)"


def run(ctx, report):
    _run_rules(ctx, report)
    from .. import shared as _S
    report.guard("C20.CONFIGS", _S.configurations, ctx, report, "C20.CONFIGS")
    for config in ctx.configs:
        report.guard("C20.ENCAPSULATED", _S.encapsulated, ctx, report, "C20.ENCAPSULATED", ctx.facts(config), config, "C20")
