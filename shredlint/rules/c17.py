"""C17 - Meta table: exactly the registered types, once each, with the right vtable."""
from .. import anchors as A
from .. import semq as Q
from .. import shared as S
from .. import worldrules as W
from .. import witness
from ..cfg import per_iteration_counts
from ..facts import Callee, AnchorError
from ..shapes import root
from ..terms import subterms

PROP = "C17"
EXPLANATION = (
    "Static structural obligations on src/meta.rs: (REGISTER) on every path of register the numbers of appends to the vtable table, "
    "to tys and of inserts into indices are equal and in {0,1}; the inserted index is indices.len() read before the insert; the "
    "occupied arm overwrites slot *occ.get() and appends nothing; the key is TypeId::of::<R>() and the stored entry is "
    "attach_vtable::<T, R> (nightly: the metadata of <T as CastFrom<R>>::cast) for the same R; no other body mutates the three "
    "tables; (LOOKUP) get/get_mut call Any::type_id on the dyn Resource itself, index the vtable table with the looked-up position and "
    "build the reference only by casts from `res`; (ATTACH) in attach_vtable the ptr::eq(value, cast result) test guards the return, "
    "otherwise it panics; (ITER) both iterators use the same value of self.index for tys and for the vtable table, increment it "
    "exactly once per continuing iteration, skip absent resources, start at 0 over the table's own fields, and borrow shared resp. "
    "exclusive through the cell API; (SIBLING) MetaIter/MetaIterMut have equal skeletons modulo shared<->exclusive. User CastFrom impls "
    "are only covered by the address assertion.")
ASSUMPTIONS = ["user CastFrom impls return a pointer to the same object (asserted at run time by attach_vtable / register)"]
TRUSTED = ["rustc nightly MIR construction", "shred-facts driver", "shredlint analyses"]
TECHNIQUE = 'static: structured evaluation of register (equal append counts, index = len before the insertion with nothing entering the map in between, occupied arm overwrites), table-mutation inventory, lookup wiring and pointer provenance, decision table of attach_vtable, same-index / once-per-iteration analysis of the iterators (get or indexed read behind a length comparison), shared / exclusive siblings compared on their canonical tabulations'
RULE_TEXT = "one obligation per path of register, per table-mutation site, per lookup wiring, per index use in the iterators"

MT = A.METATABLE


def vt_field(facts):
    names = [f["name"] for v in facts.adt(MT)["variants"] for f in v["fields"]]
    for n in ("vtable_fns", "vtables"):
        if n in names:
            return n
    raise AnchorError("MetaTable has neither vtable_fns nor vtables")


def register(ctx, report, facts, config, rule="C17.REGISTER"):
    prog = ctx.program(facts)
    vt = vt_field(facts)
    b = facts.one(MT + "::register")
    report.touched(b, config)
    ev, ends = Q.sem(ctx, facts, b)
    seen = set()
    attach_args = []
    for e in ends:
        if e.kind != "return":
            continue
        events = [x for x in W._deep(e.path.events)]
        pos = dict((id(x), i) for i, x in enumerate(events))
        # is the type already known?  asked through the entry API, or through get / contains_key
        ents = [x for x in events if x[0] == "call" and x[2].name in ("entry", "get", "contains_key") and not x[2].local and len(x[3]) == 2
                and Q.crate_fields(Q.table_access(ev, x[3][0])[0]) == [(MT, "indices")] and Q.strip(ev, x[3][0])[0] == "field"]
        if len(ents) != 1:
            continue
        entry_call = ents[0][4]
        how = ents[0][2].name
        if how == "contains_key":
            v_ = e.path.value(entry_call)
            variant = {1: "Occupied", 0: "Vacant"}.get(v_)
        else:
            variant = {"Vacant": "Vacant", "Occupied": "Occupied", "None": "Vacant", "Some": "Occupied"}.get(e.path.variant(entry_call))
        if variant not in ("Vacant", "Occupied"):
            continue
        seen.add(variant)
        problems = []
        pushes = {}
        inserts = []
        stores = []
        for x in events:
            if x[0] == "call":
                c = x[2]
                if c.local or not x[3]:
                    continue
                f_, i_, base = Q.table_access(ev, x[3][0])
                cf = Q.crate_fields(f_)
                if c.name in S.SHAPE_MUTATORS and cf and cf[-1][0] == MT and Q.strip(ev, x[3][0])[0] == "field" and cf[-1][1] != "indices":
                    pushes.setdefault(cf[-1][1], []).append((c.name, x[3][1:], i_))
                if c.name == "insert" and "VacantEntry" in c.path:
                    inserts.append((x, x[3][1]))
                elif c.name == "insert" and "HashMap" in c.path and cf == [(MT, "indices")] and len(x[3]) == 3:
                    inserts.append((x, x[3][2]))
                    if Q.strip(ev, x[3][1]) != Q.strip(ev, ents[0][3][1]):
                        problems.append("the index is entered under another key than the one that was looked up")
            elif x[0] == "store" and x[2][0] != "cell":
                f_, i_, base = Q.table_access(ev, x[2])
                cf = Q.crate_fields(f_)
                if cf and cf[-1][0] == MT:
                    stores.append((cf[-1][1], i_, x[3]))
        key = Q.strip(ev, ents[0][3][1])
        okkey = Q.is_call(ev, key, "of") and "TypeId" in Q.callee_of(ev, key).path and ev.targs(key) == ["R"]
        if not okkey:
            problems.append("the index map is keyed by %s, not by TypeId::of::<R>()" % (key[:1],))

        def is_vtable_value(v):
            while isinstance(v, tuple) and v and v[0] == "cast":
                v = v[2]
            if vt == "vtable_fns":
                if v[0] == "fnref" and v[2] == "attach_vtable":
                    attach_args.append(list(v[3]) if len(v) > 3 else None)
                    return True
                return False
            return Q.is_call(ev, v, "metadata")
        if variant == "Vacant":
            if len(inserts) != 1:
                problems.append("vacant arm inserts %d index entr(y/ies)" % len(inserts))
            else:
                idx = Q.strip(ev, inserts[0][1])
                lens = [x for x in events if x[0] == "call" and x[4] == idx]
                oki = (Q.is_call(ev, idx, "len") and Q.crate_fields(Q.table_access(ev, idx[2][0])[0]) == [(MT, "indices")]
                       and lens and pos[id(lens[0])] < pos[id(inserts[0][0])])
                if oki:
                    # nothing enters or leaves the index map between taking its length and the insertion
                    for y in events[pos[id(lens[0])] + 1:pos[id(inserts[0][0])]]:
                        if y[0] == "call" and not y[2].local and y[3] and y[2].name in ("insert", "remove", "clear", "retain", "drain", "extend", "remove_entry", "or_insert", "or_insert_with") \
                                and ("VacantEntry" in y[2].path or Q.crate_fields(Q.table_access(ev, y[3][0])[0]) == [(MT, "indices")]):
                            oki = False
                if not oki:
                    problems.append("the inserted index is not indices.len() taken before the insertion")
            pv = pushes.get(vt, [])
            pt = pushes.get("tys", [])
            if [x[0] for x in pv] != ["push"] or [x[0] for x in pt] != ["push"]:
                problems.append("vacant arm appends %d vtable entr(y/ies) and %d type id(s) (expected 1 and 1)" % (len(pv), len(pt)))
            else:
                if not is_vtable_value(pv[0][1][0]):
                    problems.append("the appended vtable entry is not built for this registration's (T, R)")
                if Q.strip(ev, pt[0][1][0]) != key:
                    problems.append("the appended type id is not the registration's TypeId::of::<R>()")
            if stores:
                problems.append("vacant arm overwrites an existing slot")
        elif variant == "Occupied":
            if inserts or [k for k in pushes if k != "indices" or inserts]:
                problems.append("occupied arm grows a table (%s)" % (sorted(pushes) or "indices"))
            sv = [s_ for s_ in stores if s_[0] == vt]
            if len(sv) != 1:
                problems.append("occupied arm overwrites %d vtable slot(s) (expected exactly 1)" % len(sv))
            else:
                idx = [Q.strip(ev, i) for i in sv[0][1]]
                occ = ("field", ("variant", entry_call, "Occupied"), "0", "std::collections::hash_map::Entry")
                oki = len(idx) == 1 and Q.is_call(ev, idx[0], "get") and "OccupiedEntry" in Q.callee_of(ev, idx[0]).path and Q.strip(ev, idx[0][2][0]) == occ
                if how == "get":
                    oki = len(idx) == 1 and idx[0] == ("field", ("variant", entry_call, "Some"), "0", "std::option::Option")
                if not oki:
                    problems.append("the overwritten slot is not *occ.get()")
                if not is_vtable_value(sv[0][2]):
                    problems.append("the overwriting entry is not built for this registration's (T, R)")
        report.ob(rule, "register/%s" % variant, not problems, "; ".join(problems) if problems else
                  ("new type: index = indices.len(), one append to %s and tys" % vt if variant == "Vacant" else "known type: slot *occ.get() overwritten, nothing appended"),
                  site=b.loc(), config=config)
    report.ob(rule, "register/arms", seen == set(["Vacant", "Occupied"]),
              "a known type (occupied entry of `indices`) and a new type (vacant entry) are handled separately" if seen == set(["Vacant", "Occupied"]) else
              "register does not branch on indices.entry(TypeId::of::<R>()) into an occupied and a vacant arm (arms found: %s): repeated registration cannot be told from a new type, "
              "so the three tables may get out of step" % sorted(seen), site=b.loc(), config=config)
    # attach_vtable's type arguments are (T, R) in this order
    if vt == "vtable_fns":
        okargs = bool(attach_args) and all(a == ["T", "R"] for a in attach_args)
        report.ob(rule, "register/attach-args", okargs, "stored function is attach_vtable::<T, R>: %s" % attach_args, site=b.loc(), config=config)
    # nobody else mutates the tables
    n = 0
    reg_cone = facts.cone([b])
    for bd in sorted(facts.bodies.values(), key=lambda b: b.key):
        btt = prog.bt(bd)
        for bb, t in bd.normal_calls():
            c = Callee(t["func"])
            if c.local or not t["args"]:
                continue
            if c.name in S.SHAPE_MUTATORS or c.name in ("entry", "insert", "remove", "index_mut", "get_mut", "deref_mut"):
                f_, i_, base = S.table_access(bd, btt.call_args(bb)[0])
                cf = S.crate_fields(f_)
                if cf and cf[-1][0] == MT and cf[-1][1] in (vt, "tys", "indices"):
                    n += 1
                    if bd.key != b.key and not (bd.key in reg_cone and not bd.api):
                        report.ob(rule, "table-mutated/%s/%s" % (bd.qname, cf[-1][1]), False, "MetaTable.%s is changed by `%s` in %s" % (cf[-1][1], c.name, bd.qname), site=bd.loc(bb), config=config)
        # an exclusive borrow of a table handed to a helper (`helper(&mut self.indices, &mut self.tys, ..)`) is a way to change it
        for bi, blk in enumerate(bd.blocks):
            if blk["cleanup"]:
                continue
            for st in blk["stmts"]:
                if st["k"] != "assign" or st["rv"].get("k") not in ("ref", "rawptr") or not str(st["rv"].get("bk", "")).lower().startswith("mut"):
                    continue
                pp = st["rv"]["place"]["p"]
                if pp and pp[-1]["k"] == "field" and pp[-1].get("adt") == MT and pp[-1].get("name") in (vt, "tys", "indices"):
                    # two-phase borrows for a method call on the field are the calls counted above; a plain `&mut self.f` is not
                    if st.get("span", {}).get("exp"):
                        continue
                    n += 1
                    if bd.key != b.key and not (bd.key in reg_cone and not bd.api):
                        report.ob(rule, "table-mutated/%s/%s" % (bd.qname, pp[-1]["name"]), False, "MetaTable.%s is borrowed exclusively in %s" % (pp[-1]["name"], bd.qname), site=bd.loc(bi), config=config)
    report.floor(rule, "mutating accesses to the three tables", n, 3, config=config)   # at least: an index enters the map, an entry each is appended to the vtable table and to tys


def _only_from(t, leaf):
    """Every leaf of the term is `leaf` (constants aside): the value derives from it alone."""
    if not isinstance(t, tuple) or not t:
        return True
    if t == leaf:
        return True
    k = t[0]
    if k in ("int", "const"):
        return True
    if k in ("param", "upvar", "undef", "elem", "lvar", "lexit", "havoc", "fnref", "closure", "iternext", "cellref"):
        return False
    if k == "call":
        return bool(t[2]) and all(_only_from(x, leaf) for x in t[2])
    if k == "agg":
        return all(_only_from(x, leaf) for x in t[3])
    if k in ("field", "index", "variant", "proj", "len", "discr"):
        return _only_from(t[1], leaf) and (k != "index" or _only_from(t[2], leaf) or t[2][0] == "int")
    if k in ("cast", "un"):
        return _only_from(t[2], leaf)
    if k == "bin":
        return _only_from(t[2], leaf) and _only_from(t[3], leaf)
    return False


def lookup(ctx, report, facts, config, rule="C17.LOOKUP"):
    """get / get_mut: the index found for `res.type_id()` selects the vtable entry that is re-attached to `res` itself."""
    vt = vt_field(facts)
    for name in ("get", "get_mut"):
        b = facts.one(MT + "::" + name)
        report.touched(b, config)
        ev, ends = Q.sem(ctx, facts, b)
        problems = []
        n_some = n_none = 0
        for e in ends:
            if e.kind != "return":
                problems.append("the lookup can panic")
                continue
            events = [x for x in W._deep(e.path.events) if x[0] == "call"]
            tids = [x for x in events if x[2].name == "type_id"]
            if len(tids) != 1 or "dyn " not in (ev.self_arg(tids[0][4]) or "") or "Box" in (ev.self_arg(tids[0][4]) or ""):
                problems.append("type_id is not taken from the `dyn Resource` itself (%s)" % [ev.self_arg(x[4]) for x in tids])
                continue
            if Q.strip(ev, tids[0][3][0]) != ("param", 2):
                problems.append("type_id is not taken from the `res` argument")
            gets = [x for x in events if x[2].name == "get" and not x[2].local and Q.crate_fields(Q.table_access(ev, x[3][0])[0]) == [(MT, "indices")]]
            if len(gets) != 1 or Q.strip(ev, gets[0][3][1]) != tids[0][4]:
                problems.append("the result is not decided by indices.get(&res.type_id())")
                continue
            found = e.path.variant(gets[0][4])
            r = e.ret
            if r[0] == "agg" and r[2] == "std::option::Option::None":
                n_none += 1
                if found != "None":
                    problems.append("None is returned although the type is registered")
                continue
            if not (r[0] == "agg" and r[2] == "std::option::Option::Some"):
                problems.append("the result is not an Option decided by the lookup")
                continue
            n_some += 1
            if found != "Some":
                problems.append("a reference is returned although the type is not registered")
            idx = ("field", ("variant", gets[0][4], "Some"), "0", "std::option::Option")
            att = [x for x in events if x[2].name in ("<indirect>", "from_raw_parts", "from_raw_parts_mut")]
            if len(att) != 1:
                problems.append("expected exactly one re-attachment of the vtable, found %d" % len(att))
                continue
            a = att[0][3]
            entry, ptr = (a[0], a[1]) if att[0][2].name == "<indirect>" else (a[1], a[0])
            f_, i_, base = Q.table_access(ev, entry)
            if not (Q.crate_fields(f_) == [(MT, vt)] and base == ("param", 1) and len(i_) == 1 and Q.strip(ev, i_[0]) == idx):
                problems.append("the vtable entry is not self.%s[looked-up index]" % vt)
            if not _only_from(ptr, ("param", 2)):
                problems.append("the data pointer does not derive from `res` alone")
            if Q.strip(ev, r[3][0]) != att[0][4]:
                problems.append("the returned reference is not the re-attached pointer")
        if not (n_some >= 1 and n_none >= 1):
            problems.append("expected a Some and a None outcome, found %d/%d" % (n_some, n_none))
        report.ob(rule, name, not problems, "; ".join(sorted(set(problems))) if problems else
                  "indices.get(&res.type_id()): None if unregistered, else self.%s[i] applied to `res` cast to *mut ()" % vt, site=b.loc(), config=config)


def _ptr_strip(ev, t):
    """Drop the address-preserving conversions of a raw pointer: `as` casts, ptr::cast/cast_mut/cast_const, addr/expose."""
    while isinstance(t, tuple) and t:
        if t[0] == "cast":
            t = t[2]
        elif t[0] == "call":
            c = ev.callee(t[1])
            if c is not None and not c.local and c.name in ("cast", "cast_mut", "cast_const", "addr", "expose_provenance", "expose_addr") and "ptr::" in c.path and len(t[2]) == 1:
                t = t[2][0]
            else:
                break
        else:
            break
    return t


def _address_test(ev, atom, value):
    """(a, b, equal?) if the decided atom compares two addresses, in any spelling (ptr::eq / addr_eq, ==, != on casts)."""
    if isinstance(atom, tuple) and atom and atom[0] == "call":
        c = ev.callee(atom[1])
        if c is not None and not c.local and c.name in ("eq", "addr_eq", "ne") and ("ptr" in c.path or c.trait in ("std::cmp::PartialEq",)) and len(atom[2]) == 2:
            eq = (value == 1) if c.name != "ne" else (value == 0)
            return atom[2][0], atom[2][1], eq
    n = Q.norm_cmp(atom, value)
    if n is not None and n[0] in ("Eq", "Ne"):
        return n[1], n[2], n[0] == "Eq"
    return None


def attach(ctx, report, facts, config, rule="C17.ATTACH"):
    if vt_field(facts) != "vtable_fns":
        b = facts.one(MT + "::register")
        # nightly: the address assertion lives in register
        ev, ends = Q.sem(ctx, facts, b)
        asserts = [e for e in ends if e.kind == "diverge"]
        report.ob(rule, "register/address-assert", len(asserts) >= 1, "register panics when CastFrom::cast changes the address", site=b.loc(), config=config)
        return
    b = facts.one(A.C + "::meta::attach_vtable")
    report.touched(b, config)
    ev, ends = Q.sem(ctx, facts, b)
    problems = []
    n_ret = n_div = 0
    value = ("param", 1)

    def is_cast_of_value(t):
        t = _ptr_strip(ev, t)
        c = Q.callee_of(ev, t)
        return c is not None and c.trait == A.T_CASTFROM and c.name == "cast" and len(t[2]) == 1 and _ptr_strip(ev, t[2][0]) == value

    for e in ends:
        tests = []
        for (ct, cv, cn, cs) in e.path.conds:
            a = _address_test(ev, ct, cv)
            if a is None:
                continue
            x, y, eq = a
            if (_ptr_strip(ev, x) == value and is_cast_of_value(y)) or (_ptr_strip(ev, y) == value and is_cast_of_value(x)):
                tests.append(eq)
        if e.kind == "return":
            n_ret += 1
            if not tests:
                problems.append("a returning path does not compare the address of `value` with <TraitObject as CastFrom<T>>::cast(value)")
            elif not all(tests):
                problems.append("attach_vtable returns although the address changed")
            if not is_cast_of_value(e.ret):
                problems.append("attach_vtable does not return the cast result")
        elif e.kind == "diverge":
            n_div += 1
            if tests and all(tests):
                problems.append("attach_vtable panics although the address is unchanged")
    report.ob(rule, "attach_vtable", not problems and n_ret >= 1 and n_div >= 1, "; ".join(sorted(set(problems))) if problems else
              "returns CastFrom::cast(value) only where its address equals `value`, else panics", site=b.loc(), config=config)


def iters(ctx, report, facts, config, rule="C17.ITER"):
    """MetaIter / MetaIterMut::next: every slot is visited once; the type id and the vtable entry of a yielded resource
    come from the same slot; absent resources are skipped; present ones are borrowed through their cell."""
    vt = vt_field(facts)
    tfi = facts.one(A.WORLD + "::try_fetch_internal")
    for adt, borrow, ctor in ((A.METAITER, "borrow", "iter"), (A.METAITERMUT, "borrow_mut", "iter_mut")):
        b = facts.one(name="next", trait="std::iter::Iterator", self_head=adt)
        report.touched(b, config)
        ev, ends = Q.sem(ctx, facts, b, opaque=[tfi.key, A.RESID + "::from_type_id"])
        problems = []
        cur = ("field", ("param", 1), "index", adt)
        loops = [L for L in Q.all_loops(ends)]
        lids = set(L.id for L in loops)
        if len(lids) != 1:
            problems.append("expected exactly one loop, found %d" % len(lids))
            report.ob(rule, "%s::next" % adt.rsplit("::", 1)[1], False, "; ".join(problems), site=b.loc(), config=config)
            continue
        n_yield = n_skip = n_end = 0
        for e in ends:
            if e.kind == "diverge":
                continue   # bounds / overflow
            for L, idx in e.path.loops():
                it = L.iters[idx] if idx is not None else None
        # every way through one round of the loop, plus what follows the exits
        ways = []
        for L in loops:
            for i_, it in enumerate(L.iters):
                tail = []
                rets = []
                for e in ends:
                    if any(x[0] == "loop" and x[1] is L and x[2] == i_ for x in e.path.events):
                        pos = [k for k, x in enumerate(e.path.events) if x[0] == "loop" and x[1] is L][0]
                        tail = e.path.events[pos + 1:]
                        rets.append(e)
                ways.append((L, it, tail, rets))
        for L, it, tail, rets in ways:
            if it.end in ("diverge", "unreachable"):
                continue
            evs = [x for x in W._deep_all(it.path.events)] + [x for x in tail]
            calls = [x for x in evs if x[0] == "call"]
            tg = [x for x in calls if x[2].name == "get" and not x[2].local and Q.crate_fields(Q.table_access(ev, x[3][0])[0]) == [(adt, "tys")]]
            stores = [x for x in evs if x[0] == "store" and x[2] == cur]
            slot_pos = cur     # the term that stands for the position of the slot looked at in this round
            positional = _positional(ev, L, adt, cur, vt)
            # the slot is addressed either as self.tys.get(self.index) (None = end of table) or as self.tys[self.index]
            # behind a comparison of self.index with self.tys.len()
            conds = list(it.path.conds) + [c for e in rets for c in e.path.conds]
            in_range = None
            for (ct, cv, cn, cs) in conds:
                nc = Q.norm_cmp(ct, cv)
                if nc is None:
                    continue
                op, a_, b_ = nc
                if Q.strip(ev, b_) == cur and Q.strip(ev, a_) != cur:
                    op, a_, b_ = Q.FLIP[op], b_, a_
                hi = Q.strip(ev, b_)
                if Q.strip(ev, a_) == cur and Q.is_call(ev, hi, "len") and Q.crate_fields(Q.table_access(ev, hi[2][0])[0]) == [(adt, "tys")]:
                    if op in ("Lt", "Ne"):
                        in_range = True
                    elif op in ("Ge", "Eq"):
                        in_range = False
            if positional is not None and not tg:
                # `for (i, &ty) in self.tys.iter().enumerate().skip(self.index)`: the slots from the cursor upward, by position
                slot_pos, ty_term, vt_term = positional
                slot = "None" if it.end == "done" else "Some"
                is_ty = lambda t, ty_term=ty_term: Q.strip(ev, t) == ty_term
            elif len(tg) == 1 and Q.strip(ev, tg[0][3][1]) == cur:
                slot = it.path.variant(tg[0][4])
                ty = ("field", ("variant", tg[0][4], "Some"), "0", "std::option::Option")
                is_ty = lambda t, ty=ty: Q.strip(ev, t) == ty
            elif not tg and in_range is not None:
                slot = "Some" if in_range else "None"

                def is_ty(t):
                    f_, i2, base = Q.table_access(ev, t)
                    return Q.crate_fields(f_) == [(adt, "tys")] and len(i2) == 1 and Q.strip(ev, i2[0]) == cur and base == ("param", 1)
            else:
                problems.append("the type id is not read with self.tys.get(self.index), nor as self.tys[self.index] behind a comparison with self.tys.len()")
                continue
            if slot == "None":
                n_end += 1
                if stores:
                    problems.append("the cursor moves although the end was reached")
                if it.end == "continue":
                    problems.append("the loop goes on after the last slot")
                for e in rets:
                    if e.kind == "return" and not (e.ret[0] == "agg" and e.ret[2] == "std::option::Option::None"):
                        problems.append("something is yielded after the last slot")
                continue
            if slot != "Some":
                problems.append("the outcome of tys.get(index) is not examined")
                continue
            if len(stores) != 1 or not fold_like_sem(stores[0][3], slot_pos):
                problems.append("self.index is advanced %d time(s) for a visited slot (expected exactly once, by 1)" % len(stores))
            fetches = [x for x in calls if x[2].key == tfi.key]
            if len(fetches) != 1:
                problems.append("expected one try_fetch_internal call per visited slot")
                continue
            rid = Q.strip(ev, fetches[0][3][1])
            if not (Q.is_call(ev, rid, "from_type_id") and is_ty(rid[2][0])):
                problems.append("the looked-up id is not ResourceId::from_type_id(the type id read from tys)")
            found = it.path.variant(fetches[0][4])
            if found is None:
                for e in rets:
                    found = found or e.path.variant(fetches[0][4])
            if found == "None":
                n_skip += 1
                if it.end != "continue":
                    problems.append("an absent resource ends the iteration instead of being skipped")
                continue
            if found != "Some":
                problems.append("the outcome of the lookup is not examined")
                continue
            n_yield += 1
            if it.end == "continue":
                problems.append("a present resource is skipped")
            cell = ("field", ("variant", fetches[0][4], "Some"), "0", "std::option::Option")
            bs = [x for x in calls if x[2].name in W.SHARED_BORROWS | W.EXCL_BORROWS and W.CELL in x[2].path]
            if [x[2].name for x in bs] != [borrow] or Q.strip(ev, bs[0][3][0]) != cell:
                problems.append("resources are borrowed with %s (expected one %s of the looked-up cell)" % ([x[2].name for x in bs], borrow))
            # the vtable entry travels with the guard: it must come from the slot the type id came from
            vts = []
            for x in evs:
                if x[0] == "call":
                    for a in x[3]:
                        for s_ in subterms(a):
                            if s_[0] in ("index",) or (s_[0] == "call" and Q.callee_of(ev, s_) is not None and Q.callee_of(ev, s_).name in ("index", "index_mut")):
                                f_, i2, base = Q.table_access(ev, s_)
                                if Q.crate_fields(f_) == [(adt, vt)] and i2:
                                    vts.append(Q.strip(ev, i2[0]))
            if positional is not None and not tg and positional[2] is not None and not vts:
                # zipped with the vtable table: the entry that travels with the guard is the one the zip pairs with this slot
                if any(s_ == positional[2] or Q.strip(ev, s_) == positional[2] for x in evs if x[0] == "call" for a in x[3] for s_ in subterms(a)):
                    vts = [slot_pos]
            if not vts or any(v != slot_pos for v in vts):
                problems.append("the vtable entry is not read at the same index as the type id")
            for e in rets:
                if e.kind == "return" and not (e.ret[0] == "agg" and e.ret[2] == "std::option::Option::Some"):
                    problems.append("a present resource does not produce Some(..)")
        if not (n_yield and n_skip and n_end):
            problems.append("expected ways for: end of table, absent resource, present resource (found %d/%d/%d)" % (n_end, n_skip, n_yield))
        report.ob(rule, "%s::next" % adt.rsplit("::", 1)[1], not problems, "; ".join(sorted(set(problems))) if problems else
                  "tys and %s are read at the same self.index, which advances once per visited slot; absent resources are skipped; %s()" % (vt, borrow),
                  site=b.loc(), config=config)
        # constructor
        cb = facts.one(MT + "::" + ctor)
        evc, endsc = Q.sem(ctx, facts, cb)
        ok = False
        for e in endsc:
            if e.kind != "return":
                continue
            ret = e.ret
            ok = ret[0] == "agg" and ret[2] == adt + "::" + adt.rsplit("::", 1)[1]
            if ok:
                fl = dict(zip(ret[4], ret[3]))
                ok = (fl.get("index") == ("int", 0) and Q.strip(evc, fl.get("world")) == ("param", 2)
                      and Q.crate_fields(Q.table_access(evc, fl.get(vt))[0]) == [(MT, vt)] and Q.crate_fields(Q.table_access(evc, fl.get("tys"))[0]) == [(MT, "tys")])
        report.ob(rule, "MetaTable::%s" % ctor, ok, "starts at index 0 over the table's own %s / tys and the given world" % vt if ok else "iterator constructor does not start at 0 over the table's own lists", site=cb.loc(), config=config)


def _positional(ev, L, adt, cur, vt=None):
    """(position term, type id term, vtable entry term or None) if the loop runs over `self.tys.iter().enumerate().skip(self.index)`
    - the slots from the cursor upward, each with its position - possibly zipped with the vtable table, which has the same
    length (C17.REGISTER appends to both or to neither)."""
    if L.kind == "while" or L.source is None or L.stages or L.elem is None:
        return None
    s = Q.strip(ev, L.source)
    if not (Q.is_call(ev, s, "skip") and len(s[2]) == 2 and Q.strip(ev, s[2][1]) == cur):
        return None
    e = Q.strip(ev, s[2][0])
    if not (Q.is_call(ev, e, "enumerate") and len(e[2]) == 1):
        return None

    def is_table(t, name):
        f_, i_, base = Q.table_access(ev, t)
        return Q.crate_fields(f_) == [(adt, name)] and not i_ and base == ("param", 1)

    inner = Q.strip(ev, e[2][0])
    pos = ("field", L.elem, "0", "tuple")
    item = ("field", L.elem, "1", "tuple")
    if Q.is_call(ev, inner, "zip") and len(inner[2]) == 2 and vt is not None:
        if is_table(inner[2][0], "tys") and is_table(inner[2][1], vt):
            return pos, ("field", item, "0", "tuple"), ("field", item, "1", "tuple")
        return None
    if is_table(e[2][0], "tys") and not Q.leaves(ev, e[2][0])[1:]:
        return pos, item, None
    return None


def fold_like_sem(t, base):
    """t is base + 1 (checked add)."""
    if isinstance(t, tuple) and t[0] == "field" and t[2] == "0" and isinstance(t[1], tuple) and t[1][0] == "bin":
        t = t[1]
    return isinstance(t, tuple) and t[0] == "bin" and t[1].startswith("Add") and ((t[2] == base and t[3] == ("int", 1)) or (t[3] == base and t[2] == ("int", 1)))




EFFECT_NAMES = {"try_fetch_internal": "try_fetch_internal", "from_type_id": "from_type_id", "borrow": "borrow*", "borrow_mut": "borrow*",
                "try_borrow": "try_borrow*", "try_borrow_mut": "try_borrow*", "map": "map", "filter_map": "filter_map", "<indirect>": "apply",
                "call": "apply", "call_mut": "apply", "call_once": "apply", "from_raw_parts": "from_raw_parts", "from_raw_parts_mut": "from_raw_parts",
                "unwrap": "unwrap", "expect": "expect", "panic": "panic", "panic_fmt": "panic"}


def _effects(ctx, facts, b, opaque):
    """Per outcome of the function (kind, returned variant): which of the operations that matter for a visited slot are met
    on some way to it - lookups, borrows, guard mapping, vtable re-attachment, panics - with shared / exclusive names unified.
    How the table is walked is left out."""
    ev, ends = Q.sem(ctx, facts, b, opaque=opaque)
    rows = {}
    for e in ends:
        names = set()
        for x in W._deep(e.path.events):     # the way that was taken out of each loop
            if x[0] == "call" and x[2].name in EFFECT_NAMES:
                names.add(EFFECT_NAMES[x[2].name])
        k = (e.kind, e.ret[2].rsplit("::", 1)[-1] if e.ret and e.ret[0] == "agg" else None)
        rows.setdefault(k, set()).update(names)
        for L in Q.all_loops([e]):            # and what a round that goes on to the next slot does
            for it in L.iters:
                if it.end == "continue":
                    for x in W._deep(it.path.events):
                        if x[0] == "call" and x[2].name in EFFECT_NAMES:
                            rows.setdefault(("next-slot", None), set()).add(EFFECT_NAMES[x[2].name])
    return sorted((k, tuple(sorted(v))) for k, v in rows.items())


def sibling(ctx, report, facts, config, rule="C17.SIBLING"):
    """The shared and the exclusive iterator (and lookup) do the same thing on every way through, modulo shared <-> exclusive:
    compared on the canonical tabulation, so that the two may be spelled differently."""
    tfi = facts.one(A.WORLD + "::try_fetch_internal")
    ren = [("MetaIterMut", "MetaIter"), ("index_mut", "index"), ("cast_mut", "cast_const"), ("from_raw_parts_mut", "from_raw_parts")]
    a = facts.one(name="next", trait="std::iter::Iterator", self_head=A.METAITER)
    b = facts.one(name="next", trait="std::iter::Iterator", self_head=A.METAITERMUT)
    opq = [tfi.key, A.RESID + "::from_type_id"]
    sa, sb = W._tabulation(facts, a, opq, ren), W._tabulation(facts, b, opq, ren)
    same = sa == sb
    how = "equal tabulations modulo shared<->exclusive (%d ways)" % len(sa)
    if not same:
        # the two may walk the table in different spellings (a cursor loop here, `enumerate().skip(cursor)` there), which
        # C17.ITER decides for each of them separately; what is left to compare is what they do to a slot they visit
        ka, kb = _effects(ctx, facts, a, opq), _effects(ctx, facts, b, opq)
        same = ka == kb
        how = "written differently; equal effects per outcome modulo shared<->exclusive: %s" % (ka,)
    report.ob(rule, "MetaIter::next~MetaIterMut::next", same, how if same else
              "iterators diverge: only shared: %s; only exclusive: %s" % ([x[:300] for x in sa if x not in sb][:2], [x[:300] for x in sb if x not in sa][:2]), site=b.loc(), config=config)
    g, gm = facts.one(MT + "::get"), facts.one(MT + "::get_mut")
    sa, sb = W._tabulation(facts, g, [], ren), W._tabulation(facts, gm, [], ren)
    report.ob(rule, "get~get_mut", sa == sb, "equal tabulations modulo shared<->exclusive (%d ways)" % len(sa) if sa == sb else
              "get / get_mut diverge: only get: %s; only get_mut: %s" % ([x[:300] for x in sa if x not in sb][:2], [x[:300] for x in sb if x not in sa][:2]), site=gm.loc(), config=config)


def _run_rules(ctx, report):
    for config in ctx.configs:
        facts = ctx.facts(config)
        report.guard("C17.REGISTER", register, ctx, report, facts, config)
        report.guard("C17.LOOKUP", lookup, ctx, report, facts, config)
        report.guard("C17.ATTACH", attach, ctx, report, facts, config)
        report.guard("C17.ITER", iters, ctx, report, facts, config)
        report.guard("C17.SIBLING", sibling, ctx, report, facts, config)
    if ctx.tier == "thorough":
        witness.check(report, "C17.WITNESS", ["W9"])


ENCAPSULATED_NOTE = (" (ENCAPSULATED) The premise of all of these - the crate's own code is the only thing that touches this state - is an obligation "
                     "of its own: no field of the types the state lives in can be named outside the crate (effective visibility), and no function a "
                     "user can call hands out `&mut` to one of them.")
EXPLANATION = EXPLANATION + ENCAPSULATED_NOTE
TECHNIQUE = TECHNIQUE + "; encapsulation inventory on rustc's effective visibilities (fields of state types, `&mut` results of callable functions)"


def run(ctx, report):
    _run_rules(ctx, report)
    from .. import shared as _S
    report.guard("C17.CONFIGS", _S.configurations, ctx, report, "C17.CONFIGS")
    for config in ctx.configs:
        report.guard("C17.ENCAPSULATED", _S.encapsulated, ctx, report, "C17.ENCAPSULATED", ctx.facts(config), config, "C17")
