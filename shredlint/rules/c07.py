"""C07 - A batch is isolated as the union of its controller and all systems inside it."""
from .. import anchors as A
from .. import shared as S
from .. import placement as P
from .. import datarules as D
from ..facts import Callee
from ..paths import enumerate_paths
from .. import semq as Q
from . import c04

PROP = "C07"
EXPLANATION = (
    "Static structural obligations: (UNION) in add_batch the first argument of BatchAccessor::new is fetch_all_reads(inner builder) "
    "extended with exactly <T::BatchSystemData as SystemData>::reads(), the second fetch_all_writes(inner) extended with exactly "
    "...::writes() (two separate locals, so nothing is crossed); (ALL) fetch_all_reads / fetch_all_writes return a full traversal "
    "(every level traversed in full, however spelled; no partial adaptor) of the field that accumulates declared reads / writes in insert; "
    "(ACCUM) the accumulated tables only ever grow - their shape changes only in add_stage/add_group/insert; (SAME) the builder whose tables were read is the one whose build() result goes to BatchControllerSystem::create, and the reads "
    "happen before build consumes it; (WIRE) BatchAccessor::new/reads/writes, create and accessor() wire the same-named fields; "
    "(NOFETCH) BatchUncheckedWorld borrows nothing itself; (PLAN) MultiDispatcher moves its plan data into plan before the first "
    "inner dispatch; nested batches are ordinary systems of the inner builder, registered through self.add, so C01's SLOT rule "
    "accumulates the batch accessor into the outer tables; every other function of the crate that makes a batch system (calls BatchControllerSystem::create) owes the same union for the very "
    "builder it builds, with nothing getting hold of that builder between the reads of its tables and build(). A user controller's own manual fetches are its contract.")
ASSUMPTIONS = ["a user-written BatchController fetches only what it declares as BatchSystemData"]
TRUSTED = ["rustc nightly MIR construction", "shred-facts driver", "shredlint analyses"]
TECHNIQUE = 'static: structured evaluation of add_batch (what each operand of BatchAccessor::new is built from, assembly order) and of fetch_all_reads/writes (three full nested traversals of the accumulating table), field wiring terms, lock-step (tables only grow), MultiDispatcher plan rule'
RULE_TEXT = "one obligation per union operand, traversal chain, wiring site and imported slot obligation"


SET_PRESERVING = ("sort", "dedup", "sort_unstable", "shrink_to_fit", "reserve")
GROWING = ("extend", "append", "extend_from_slice", "push", "insert")


def contributions(ev, events, coll, loops=()):
    """What happens to the collection `coll` along a sequence of events (all ways of loops are followed):
    ('add', callee name, value term, enclosing loops) / ('yield', element, loops) / ('mut', callee name)."""
    out = []
    for x in events:
        if x[0] == "call":
            c, args = x[2], x[3]
            if c.local or not args or Q.strip(ev, args[0]) != coll:
                continue
            if c.name in GROWING and len(args) > 1:
                out.append(("add", c.name, args[1], loops))
            elif c.name in S.SHAPE_MUTATORS and c.name not in SET_PRESERVING:
                out.append(("mut", c.name))
        elif x[0] == "yield":
            if coll[0] == "call" and x[1] == coll[1]:
                out.append(("yield", x[2], loops))
        elif x[0] == "loop":
            L = x[1]
            whole = _pushes_every_element(ev, L, coll)
            if whole:
                # `for x in xs { coll.push(x) }` is `coll.extend(xs)`
                out.append(("add", "extend", L.source, loops))
                continue
            for it in L.iters:
                out.extend(contributions(ev, it.path.events, coll, loops + (L,)))
    return out


def _pushes_every_element(ev, L, coll):
    """The loop is a full traversal whose every step appends exactly the current element to `coll` and does nothing else to it."""
    from ..semcov import _term_class
    if L.source is None or L.kind == "while" or L.stages or not Q.is_full(L) or _term_class(ev, L.source) != "full" or L.elem is None:
        return False
    n = 0
    for it in L.iters:
        if it.end != "continue":
            continue
        n += 1
        touching = [x for x in it.path.events if (x[0] == "call" and not x[2].local and x[3] and Q.strip(ev, x[3][0]) == coll and x[2].name in S.SHAPE_MUTATORS) or x[0] == "loop"]
        if len(touching) != 1 or touching[0][0] != "call" or touching[0][2].name != "push" or len(touching[0][3]) != 2:
            return False
        if Q.strip(ev, touching[0][3][1]) != L.elem:
            return False
    return n >= 1


def union(ctx, report, facts, config, rule="C07.UNION"):
    b = facts.one(A.DB + "::add_batch")
    report.touched(b, config)
    far = facts.one(A.SB + "::fetch_all_reads")
    faw = facts.one(A.SB + "::fetch_all_writes")
    build = facts.one(A.DB + "::build")
    create = facts.one(name="create", self_head=A.BCS, container="inherent")
    addb = facts.one(A.DB + "::add")
    newb = facts.one(name="new", self_head=A.BACC, container="inherent")
    ev, ends = Q.sem(ctx, facts, A.DB + "::add_batch", opaque=[far.key, faw.key, build.key, create.key, addb.key, newb.key])
    rets = [e for e in ends if e.kind == "return"]
    report.ob(rule, "add_batch/paths", len(rets) >= 1, "%d returning path(s)" % len(rets), site=b.loc(), config=config)
    for e in rets:
        calls = [x for x in e.path.events if x[0] == "call"]
        pos = dict((id(x), i) for i, x in enumerate(e.path.events))
        news = [x for x in calls if x[2].key == newb.key]
        if len(news) != 1:
            report.ob(rule, "add_batch/accessor", False, "BatchAccessor::new is called %d time(s)" % len(news), site=b.loc(), config=config)
            continue
        r_t, w_t = news[0][3]
        for label, t, fab, meth in (("reads", r_t, far, "reads"), ("writes", w_t, faw, "writes")):
            problems = []
            base = Q.strip(ev, t)
            c = Q.callee_of(ev, base)
            if not (c is not None and c.key == fab.key and base[2] == (("field", ("param", 3), "stages_builder", A.DB),)):
                problems.append("the %s operand does not start from dispatcher_builder.stages_builder.%s()" % (label, fab.name))
            good = 0
            for k in contributions(ev, e.path.events, base):
                if k[0] == "mut":
                    problems.append("the %s operand is reshaped by `%s`" % (label, k[1]))
                    continue
                v = Q.strip(ev, k[2], extra=("into_iter",))
                vc = Q.callee_of(ev, v)
                if k[0] == "add" and k[1] in ("extend", "append") and not k[3] and vc is not None and vc.trait == A.T_SYSDATA and vc.name == meth and "BatchSystemData" in (ev.self_arg(v) or ""):
                    good += 1
                else:
                    problems.append("the %s operand also receives %s" % (label, vc.short() if vc is not None else str(v)[:40]))
            if good != 1:
                problems.append("the controller's declared %s (<T::BatchSystemData as SystemData>::%s()) are not added exactly once" % (label, meth))
            report.ob(rule, "add_batch/%s" % label, not problems, "; ".join(sorted(set(problems))) if problems else
                      "%s = %s(inner) + controller's declared %s" % (label, fab.name, meth), site=b.loc(), config=config)


def _contains(t, x):
    if t == x:
        return True
    if isinstance(t, tuple):
        return any(_contains(a, x) for a in t if isinstance(a, tuple))
    return False


def _is_part_of(ev, t, x):
    """`t` is x itself, a part of it or a view of either (not something computed from it)."""
    t = Q.strip(ev, t)
    if t == x:
        return True
    if isinstance(t, tuple) and t and t[0] == "agg":
        return any(_is_part_of(ev, a, x) for a in t[3])     # the argument tuple of a closure call
    if isinstance(t, tuple) and t and t[0] in ("field", "index", "variant", "proj", "cast"):
        try:
            f_, i_, base = Q.table_access(ev, t)
        except Exception:
            return _contains(t, x)
        return Q.strip(ev, base) == x
    return False


def other_builders(ctx, report, facts, config, rule="C07.UNION"):
    """Whatever else in the crate makes a batch system (calls BatchControllerSystem::create) owes the same as add_batch: the
    accessor it hands over is new(fetch_all_reads(X) + the controller's declared reads, fetch_all_writes(X) + its declared
    writes) for the very builder X whose build() result it hands over, and between reading X's tables and building it
    nothing gets hold of X that could register more systems on it."""
    far = facts.one(A.SB + "::fetch_all_reads")
    faw = facts.one(A.SB + "::fetch_all_writes")
    build = facts.one(A.DB + "::build")
    create = facts.one(name="create", self_head=A.BCS, container="inherent")
    addb = facts.one(A.DB + "::add")
    newb = facts.one(name="new", self_head=A.BACC, container="inherent")
    add_batch = facts.one(A.DB + "::add_batch")
    roots = {}
    for cb, bb in facts.callers().get(create.key, []):
        r = facts.bodies.get(cb.root_key, cb) if cb.is_closure and cb.root_key else cb
        if r.key != add_batch.key:
            roots[r.key] = r
    for r in sorted(roots.values(), key=lambda b: b.key):
        report.touched(r, config)
        ev, ends = Q.sem(ctx, facts, r, opaque=[far.key, faw.key, build.key, create.key, addb.key, newb.key])
        rets = Q.returns(ends)
        problems = []
        if not rets:
            problems.append("no way through returns")
        for e in rets:
            evs = e.path.events
            calls = [x for x in evs if x[0] == "call"]
            creates = [x for x in calls if x[2].key == create.key]
            if not creates:
                continue
            if len(creates) != 1 or len(creates[0][3]) != 3:
                problems.append("more than one batch system is made on one way through")
                continue
            acc, ctl, disp = [Q.strip(ev, a) for a in creates[0][3]]
            bl = [x for x in calls if x[2].key == build.key and x[4] == disp]
            nw = [x for x in calls if x[2].key == newb.key and x[4] == acc]
            if len(bl) != 1 or len(nw) != 1 or len(bl[0][3]) != 1:
                problems.append("the batch system is not made from BatchAccessor::new(..) and the result of a build()")
                continue
            X = Q.strip(ev, bl[0][3][0])
            first_read = None
            for label, t, fab, meth in (("reads", nw[0][3][0], far, "reads"), ("writes", nw[0][3][1], faw, "writes")):
                base = Q.strip(ev, t)
                c = Q.callee_of(ev, base)
                if not (c is not None and c.key == fab.key and len(base[2]) == 1 and Q.strip(ev, base[2][0]) == ("field", X, "stages_builder", A.DB)):
                    problems.append("the %s operand does not start from %s() of the builder that is built" % (label, fab.name))
                    continue
                pos = [i for i, x in enumerate(evs) if x[0] == "call" and x[4] == base]
                if pos:
                    first_read = pos[0] if first_read is None else min(first_read, pos[0])
                good = 0
                for k in contributions(ev, evs, base):
                    if k[0] == "mut":
                        problems.append("the %s operand is reshaped by `%s`" % (label, k[1]))
                        continue
                    v = Q.strip(ev, k[2], extra=("into_iter",))
                    vc = Q.callee_of(ev, v)
                    if k[0] == "add" and k[1] in ("extend", "append") and not k[3] and vc is not None and vc.trait == A.T_SYSDATA and vc.name == meth and "BatchSystemData" in (ev.self_arg(v) or ""):
                        good += 1
                    else:
                        problems.append("the %s operand also receives %s" % (label, vc.short() if vc is not None else str(v)[:40]))
                if good != 1:
                    problems.append("the controller's declared %s are not added exactly once" % label)
            if first_read is not None:
                bpos = evs.index(bl[0])
                for x in evs[first_read + 1:bpos]:
                    if x[0] == "call" and x[2].key not in (far.key, faw.key) and any(_is_part_of(ev, a, X) for a in x[3]) and not (not x[2].local and x[2].name in Q.BENIGN_STD):
                        problems.append("between reading its tables and building it, the inner builder is handed to `%s` (%s): what that registers is run by the batch but missing from its declared access" % (x[2].name, ev.loc(x[1])))
                    elif x[0] == "store" and _contains(x[2], X) and not (x[2][0] == "field" and x[2][2] == "thread_pool"):
                        problems.append("between reading its tables and building it, the inner builder is written to")
                    elif x[0] == "loop" and any(_is_part_of(ev, a, X) for it in x[1].iters for y in Q.calls_in(it.path.events, lambda c: True, deep=True) for a in y[3]):
                        problems.append("between reading its tables and building it, the inner builder is used inside a loop")
        report.ob(rule, "%s/union" % r.qname, not problems, "; ".join(sorted(set(problems))) if problems else
                  "a batch system made here declares fetch_all_reads/writes(inner) + the controller's own, of the builder it builds, read when nothing more can be registered", site=r.loc(), config=config)
    report.ob(rule, "batch-makers", True, "BatchControllerSystem::create is called in add_batch and %d other function(s)" % len(roots), config=config)


def assembly(ctx, report, facts, config, rule="C07.SAME"):
    """add_batch builds the very builder it was given - all its stages and thread-local systems - after reading its
    tables, hands the built dispatcher to BatchControllerSystem::create and registers the result through self.add."""
    b = facts.one(A.DB + "::add_batch")
    report.touched(b, config)
    far = facts.one(A.SB + "::fetch_all_reads")
    faw = facts.one(A.SB + "::fetch_all_writes")
    build = facts.one(A.DB + "::build")
    create = facts.one(name="create", self_head=A.BCS, container="inherent")
    addb = facts.one(A.DB + "::add")
    newb = facts.one(name="new", self_head=A.BACC, container="inherent")
    insb = facts.one(A.SB + "::insert")
    ev, ends = Q.sem(ctx, facts, A.DB + "::add_batch", opaque=[far.key, faw.key, build.key, create.key, addb.key, newb.key, insb.key, A.DB + "::next_id"])
    rets = [e for e in ends if e.kind == "return"]
    if not rets:
        report.ob(rule, "add_batch/assembly", False, "no normal path through add_batch", site=b.loc(), config=config)
    for e in rets:
        calls = [x for x in e.path.events if x[0] == "call"]
        pos = dict((id(x), i) for i, x in enumerate(e.path.events))
        news = [x for x in calls if x[2].key == newb.key]
        builds = [x for x in calls if x[2].key == build.key]
        creates = [x for x in calls if x[2].key == create.key]
        adds = [x for x in calls if x[2].key == addb.key]
        # registered through self.add(batch, name, dep), or placed directly (add_batch is then a registration entry of
        # its own, and the obligations of an entry are decided for it by C18.REJECT / C02.IDS)
        direct = [x for x in calls if x[2].key == insb.key]
        placed_directly = False
        if not adds and len(direct) == 1 and len(direct[0][3]) == 4:
            adds = [("call", direct[0][1], direct[0][2], (("param", 1), direct[0][3][3], ("param", 4), ("param", 5)), direct[0][4])]
            placed_directly = Q.strip(ev, direct[0][3][0]) == ("field", ("param", 1), "stages_builder", A.DB)
            if not placed_directly:
                adds = []
        fas = [x for x in calls if x[2].key in (far.key, faw.key)]
        ok = len(builds) == 1 and len(creates) == 1 and len(adds) == 1 and len(fas) == 2 and len(news) == 1
        detail = "%d build / %d create / %d add / %d fetch_all" % (len(builds), len(creates), len(adds), len(fas))
        if ok:
            # nothing but the pool slot of the given builder is replaced before it is built
            other_stores = [x for x in e.path.events if x[0] == "store" and x[2][0] == "field" and x[2][1] == ("param", 3) and x[2][2] != "thread_pool"]
            ok = (builds[0][3] == (("param", 3),) and not other_stores and all(pos[id(f)] < pos[id(builds[0])] for f in fas if id(f) in pos)
                  and creates[0][3][0] == news[0][4] and creates[0][3][1] == ("param", 2)
                  and creates[0][3][2] == builds[0][4]
                  and adds[0][3][0] == ("param", 1) and adds[0][3][1] == creates[0][4] and adds[0][3][2:] == (("param", 4), ("param", 5)))
            detail = ("tables are read before dispatcher_builder.build(); create(accessor, controller, built dispatcher); registered with self.add(batch, name, dep)" if ok
                      else "the batch system is not assembled from (accessor, controller, dispatcher_builder.build()) - the builder that was given, with everything registered on it - and registered through self.add")
        report.ob(rule, "add_batch/assembly", ok, detail, site=b.loc(), config=config)


def all_rule(ctx, report, facts, config, rule="C07.ALL"):
    """fetch_all_reads / fetch_all_writes return every id stored at the third level of the accumulating table."""
    acc = P.acc_fields(facts, ctx)
    for name, key in (("fetch_all_reads", "R"), ("fetch_all_writes", "W")):
        b = facts.one(A.SB + "::" + name)
        report.touched(b, config)
        ev, ends = Q.sem(ctx, facts, A.SB + "::" + name)
        rets = [e for e in ends if e.kind == "return"]
        problems = []
        if not rets:
            problems.append("no normal path")
        for e in rets:
            coll = Q.strip(ev, e.ret)
            ks = contributions(ev, e.path.events, coll)
            elems = [k for k in ks if k[0] in ("yield", "add")]
            for k in ks:
                if k[0] == "mut":
                    problems.append("the result is reshaped by `%s`" % k[1])
            if len(elems) != 1:
                problems.append("the result is filled from %d places (expected one full traversal)" % len(elems))
                continue
            k = elems[0]
            if k[0] == "add" and k[1] not in ("push", "extend", "extend_from_slice"):
                problems.append("the result is filled by `%s`" % k[1])
                continue
            val = Q.strip(ev, k[2] if k[0] == "add" else k[1])
            loops = k[-1]
            whole = k[0] == "add" and k[1] != "push"   # the whole innermost collection is appended at once
            if len(loops) + (1 if whole else 0) != 3:
                problems.append("the elements are reached through %d nested traversal(s) (expected stages, groups, ids)" % (len(loops) + (1 if whole else 0)))
                continue
            from ..semcov import _term_class as _tc
            if whole and _tc(ev, k[2]) != "full":
                problems.append("the ids of a group pass through a partial adaptor before being appended")
            prev = None
            for depth, L in enumerate(loops):
                src = Q.strip(ev, L.source)
                if depth == 0:
                    if src != ("field", ("param", 1), acc[key], A.SB):
                        problems.append("the traversal does not start from self.%s (the table that accumulates declared %s)" % (acc[key], "reads" if key == "R" else "writes"))
                elif src != prev:
                    problems.append("level %d does not traverse the element of level %d" % (depth + 1, depth))
                from ..semcov import _term_class
                cls = _term_class(ev, L.source)
                if cls != "full" or not Q.is_full(L) or [n for n, _ in L.stages]:
                    problems.append("level %d of the table is not traversed in full (%s)" % (depth + 1, cls if cls != "full" else ("can stop early" if not Q.is_full(L) else "adaptors %s" % [n for n, _ in L.stages])))
                prev = L.elem
            if val != prev:
                problems.append("what is collected is not the id found at the innermost level")
        report.ob(rule, name, not problems,
                  "every id of self.%s[*][*] is collected (then sorted and de-duplicated)" % acc[key] if not problems else "; ".join(sorted(set(problems))),
                  site=b.loc(), config=config)


def _every_return(ctx, facts, b, pred):
    """pred(ev, returned term) on every returning path of `b` (at least one)."""
    ev, ends = Q.sem(ctx, facts, b)
    rs = Q.returns(ends)
    return bool(rs) and all(pred(ev, e.ret) for e in rs), [e.ret for e in rs]


def wire(ctx, report, facts, config, rule="C07.WIRE"):
    b = facts.one(name="new", self_head=A.BACC, container="inherent")
    ok, rets = _every_return(ctx, facts, b, lambda ev, r: Q.record(ev, r, A.BACC + "::BatchAccessor") == {"reads": ("param", 1), "writes": ("param", 2)})
    report.ob(rule, "BatchAccessor::new", ok, "BatchAccessor { reads, writes }" if ok else "BatchAccessor::new crosses its arguments: %s" % (rets,), site=b.loc(), config=config)
    for m in ("reads", "writes"):
        b = facts.one(name=m, trait=A.T_ACCESSOR, self_head=A.BACC)

        def copies(ev, r, m=m):
            # a copy of the member: clone / to_vec / to_owned / iter().cloned().collect() of self.<m>, nothing else
            t = r
            n = 0
            while isinstance(t, tuple) and t and t[0] in ("call", "cast"):
                if t[0] == "cast":
                    t = t[2]
                    continue
                c = ev.callee(t[1])
                if c is None or c.local or len(t[2]) != 1:
                    return False
                if c.name in ("clone", "to_vec", "to_owned", "cloned", "copied", "collect", "into_iter", "iter", "from", "into", "as_slice", "deref", "as_ref", "borrow"):
                    n += c.name in ("clone", "to_vec", "to_owned", "cloned", "copied")
                    t = t[2][0]
                else:
                    return False
            f_, i_, base = Q.table_access(ev, t)
            return n >= 1 and Q.crate_fields(f_) == [(A.BACC, m)] and not i_ and base == ("param", 1)
        ok, rets = _every_return(ctx, facts, b, copies)
        report.ob(rule, "BatchAccessor::%s" % m, ok, "a copy of self.%s" % m if ok else "BatchAccessor::%s returns %s" % (m, rets), site=b.loc(), config=config)
    b = facts.one(name="create", self_head=A.BCS, container="inherent")
    ok, rets = _every_return(ctx, facts, b, lambda ev, r: Q.record(ev, r, A.BCS + "::BatchControllerSystem") == {"accessor": ("param", 1), "controller": ("param", 2), "dispatcher": ("param", 3)})
    report.ob(rule, "BatchControllerSystem::create", ok, "BatchControllerSystem { accessor, controller, dispatcher }" if ok else "create crosses its arguments: %s" % (rets,), site=b.loc(), config=config)
    b = facts.one(name="accessor", trait=A.T_SYSTEM, self_head=A.BCS)

    def is_ref(ev, r):
        if not (r[0] == "agg" and r[2] == A.C + "::system::AccessorCow::Ref" and len(r[3]) == 1):
            return False
        f_, i_, base = Q.table_access(ev, r[3][0])
        return Q.crate_fields(f_) == [(A.BCS, "accessor")] and not i_ and base == ("param", 1)
    ok, rets = _every_return(ctx, facts, b, is_ref)
    report.ob(rule, "BatchControllerSystem::accessor", ok, "AccessorCow::Ref(&self.accessor)" if ok else "the batch system does not report the union accessor: %s" % (rets,), site=b.loc(), config=config)
    # the batch system's data type fetches nothing
    b = facts.one(name="fetch", trait=A.T_DYNSYSDATA, self_head=A.BUW)
    ev, ends = Q.sem(ctx, facts, b)
    cs = sorted(set(e[2].name for en in ends for e in Q.calls_in(en.path.events, lambda c: True, deep=True)))
    ok = not cs and bool(Q.returns(ends)) and all(e.ret[0] == "agg" and e.ret[3] == (("param", 2),) for e in Q.returns(ends))
    report.ob("C07.NOFETCH", "BatchUncheckedWorld::fetch", ok, "wraps the world reference, borrows nothing" if ok else "BatchUncheckedWorld::fetch calls %s" % cs, site=b.loc(), config=config)
    sd = [im for im in facts.impls if im.get("trait") == A.T_SYSTEM and im.get("self_head") == A.BCS]
    report.ob("C07.NOFETCH", "BatchControllerSystem::SystemData", len(sd) == 1, "one System impl for the batch wrapper", config=config)


def _run_rules(ctx, report):
    for config in ctx.configs:
        facts = ctx.facts(config)
        report.guard("C07.UNION", union, ctx, report, facts, config)
        report.guard("C07.UNION", other_builders, ctx, report, facts, config)
        report.guard("C07.SAME", assembly, ctx, report, facts, config)
        report.guard("C07.ALL", all_rule, ctx, report, facts, config)
        report.guard("C07.WIRE", wire, ctx, report, facts, config)
        report.guard("C07.PLAN", c04.batch_run, ctx, report, facts, config, "C07.PLAN")
        report.guard("C07.SLOT", S.slot, ctx, report, "C07.SLOT", facts, config)
        # the tables fetch_all_* read only ever grow (member level: `extend` in insert only)
        report.guard("C07.ACCUM", S.lockstep, ctx, report, "C07.ACCUM", facts, config)


ENCAPSULATED_NOTE = (" (ENCAPSULATED) The premise of all of these - the crate's own code is the only thing that touches this state - is an obligation "
                     "of its own: no field of the types the state lives in can be named outside the crate (effective visibility), and no function a "
                     "user can call hands out `&mut` to one of them.")
EXPLANATION = EXPLANATION + ENCAPSULATED_NOTE
TECHNIQUE = TECHNIQUE + "; encapsulation inventory on rustc's effective visibilities (fields of state types, `&mut` results of callable functions)"


def run(ctx, report):
    _run_rules(ctx, report)
    from .. import shared as _S
    report.guard("C07.CONFIGS", _S.configurations, ctx, report, "C07.CONFIGS")
    for config in ctx.configs:
        report.guard("C07.ENCAPSULATED", _S.encapsulated, ctx, report, "C07.ENCAPSULATED", ctx.facts(config), config, "C07")
