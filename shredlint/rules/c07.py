"""C07 - A batch is isolated as the union of its controller and all systems inside it."""
from .. import anchors as A
from .. import shared as S
from .. import placement as P
from .. import datarules as D
from ..facts import Callee
from ..paths import enumerate_paths
from . import c04

PROP = "C07"
EXPLANATION = (
    "Static structural obligations: (UNION) in add_batch the first argument of BatchAccessor::new is fetch_all_reads(inner builder) "
    "extended with exactly <T::BatchSystemData as SystemData>::reads(), the second fetch_all_writes(inner) extended with exactly "
    "...::writes() (two separate locals, so nothing is crossed); (ALL) fetch_all_reads / fetch_all_writes return a full traversal "
    "(iter, flatten twice, cloned, collect; no partial adaptor) of the field that accumulates declared reads / writes in insert; "
    "(ACCUM) the accumulated tables only ever grow - their shape changes only in add_stage/add_group/insert; (SAME) the builder whose tables were read is the one whose build() result goes to BatchControllerSystem::create, and the reads "
    "happen before build consumes it; (WIRE) BatchAccessor::new/reads/writes, create and accessor() wire the same-named fields; "
    "(NOFETCH) BatchUncheckedWorld borrows nothing itself; (PLAN) MultiDispatcher moves its plan data into plan before the first "
    "inner dispatch; nested batches are ordinary systems of the inner builder, registered through self.add, so C01's SLOT rule "
    "accumulates the batch accessor into the outer tables. A user controller's own manual fetches are its contract.")
ASSUMPTIONS = ["a user-written BatchController fetches only what it declares as BatchSystemData"]
TRUSTED = ["rustc nightly MIR construction", "shred-facts driver", "shredlint analyses"]
TECHNIQUE = 'static: path enumeration of add_batch (union operands, assembly order), iterator-chain term of fetch_all_reads/writes, field wiring terms, lock-step (tables only grow), MultiDispatcher plan-data rule'
RULE_TEXT = "one obligation per union operand, traversal chain, wiring site and imported slot obligation"


def union(ctx, report, facts, config, rule="C07.UNION"):
    prog = ctx.program(facts)
    b = facts.one(A.DB + "::add_batch")
    report.touched(b, config)
    paths = [p for p in enumerate_paths(b, facts) if p.end == "return"]
    report.ob(rule, "add_batch/paths", len(paths) >= 1, "%d returning path(s)" % len(paths), site=b.loc(), config=config)
    for p in paths:
        calls = p.calls()
        news = [e for e in calls if e[2].name == "new" and e[2].self_head == A.BACC]
        if len(news) != 1:
            report.ob(rule, "add_batch/accessor", False, "BatchAccessor::new is called %d time(s)" % len(news), site=b.loc(), config=config)
            continue
        r_t, w_t = news[0][3]
        for label, t, fa, meth in (("reads", r_t, "fetch_all_reads", "reads"), ("writes", w_t, "fetch_all_writes", "writes")):
            problems = []
            if not (P._is_call(b, t, fa, head=A.SB) and t[2] == (("field", ("param", 3), "stages_builder", A.DB),)):
                problems.append("the %s operand does not start from dispatcher_builder.stages_builder.%s()" % (label, fa))
            ext = [e for e in calls if e[2].name in ("extend", "append", "extend_from_slice", "push", "insert") and not e[2].local and e[3] and e[3][0] == t]
            vals = []
            for e in ext:
                v = e[3][1] if len(e[3]) > 1 else None
                c = P._callee(b, v)
                vals.append((c.trait, c.name, c.self_arg_s) if c else ("?", "?", str(v)[:40]))
            want = (A.T_SYSDATA, meth)
            good = [v for v in vals if v[:2] == want and "BatchSystemData" in (v[2] or "")]
            if len(good) != 1:
                problems.append("the controller's declared %s (<T::BatchSystemData as SystemData>::%s()) are not added exactly once" % (label, meth))
            bad = [v for v in vals if v not in good]
            if bad:
                problems.append("the %s operand also receives %s" % (label, bad))
            report.ob(rule, "add_batch/%s" % label, not problems, "; ".join(problems) if problems else
                      "%s = %s(inner) + controller's declared %s" % (label, fa, meth), site=b.loc(), config=config)
        # SAME: reads happen before build consumes the builder; the built dispatcher goes to create
        builds = [e for e in calls if e[2].name == "build" and e[2].self_head == A.DB]
        creates = [e for e in calls if e[2].name == "create" and e[2].self_head == A.BCS]
        adds = [e for e in calls if e[2].name == "add" and e[2].self_head == A.DB]
        fas = [e for e in calls if e[2].name in ("fetch_all_reads", "fetch_all_writes")]
        ok = len(builds) == 1 and len(creates) == 1 and len(adds) == 1 and len(fas) == 2
        detail = "%d build / %d create / %d add / %d fetch_all" % (len(builds), len(creates), len(adds), len(fas))
        if ok:
            ok = (builds[0][3] == (("param", 3),) and all(p.blocks.index(f[1]) < p.blocks.index(builds[0][1]) for f in fas)
                  and creates[0][3][0] == ("call", news[0][1], news[0][3]) and creates[0][3][1] == ("param", 2)
                  and creates[0][3][2] == ("call", builds[0][1], builds[0][3])
                  and adds[0][3][0] == ("param", 1) and adds[0][3][1] == ("call", creates[0][1], creates[0][3]) and adds[0][3][2:] == (("param", 4), ("param", 5)))
            detail = ("tables are read before dispatcher_builder.build(); create(accessor, controller, built dispatcher); registered with self.add(batch, name, dep)" if ok
                      else "the batch system is not assembled from (accessor, controller, dispatcher_builder.build()) and registered through self.add")
        report.ob("C07.SAME", "add_batch/assembly", ok, detail, site=b.loc(), config=config)


def all_rule(ctx, report, facts, config, rule="C07.ALL"):
    prog = ctx.program(facts)
    acc = P.acc_fields(facts, ctx)
    for name, key in (("fetch_all_reads", "R"), ("fetch_all_writes", "W")):
        b = facts.one(A.SB + "::" + name)
        report.touched(b, config)
        bt = prog.bt(b)
        ret = bt.local(0)
        names = []
        t = ret
        while isinstance(t, tuple) and t and t[0] == "call":
            names.append(bt.callee(t[1]).name)
            t = t[2][0] if t[2] else None
        want = ["collect", "cloned", "flatten", "flatten", "iter", "deref"]
        okc = names == want or names == want[:-1]
        okf = t == ("field", ("param", 1), acc[key], A.SB)
        muts = [Callee(tm["func"]).name for bb, tm in b.normal_calls() if Callee(tm["func"]).name in S.SHAPE_MUTATORS]
        okm = sorted(muts) == ["dedup", "sort"]
        report.ob(rule, name, okc and okf and okm,
                  "self.%s.iter().flatten().flatten().cloned().collect(), then sort + dedup" % acc[key] if okc and okf and okm else
                  "%s is %s over %s with post-processing %s (expected a full flatten of the accumulated %s)" % (name, list(reversed(names)), t, muts, "reads" if key == "R" else "writes"),
                  site=b.loc(), config=config)


def wire(ctx, report, facts, config, rule="C07.WIRE"):
    prog = ctx.program(facts)
    b = facts.one(name="new", self_head=A.BACC, container="inherent")
    ret = prog.bt(b).local(0)
    ok = ret[0] == "agg" and ret[2] == A.BACC + "::BatchAccessor" and dict(zip(ret[4], ret[3])) == {"reads": ("param", 1), "writes": ("param", 2)}
    report.ob(rule, "BatchAccessor::new", ok, "BatchAccessor { reads, writes }" if ok else "BatchAccessor::new crosses its arguments: %s" % (ret,), site=b.loc(), config=config)
    for m in ("reads", "writes"):
        b = facts.one(name=m, trait=A.T_ACCESSOR, self_head=A.BACC)
        bt = prog.bt(b)
        ret = bt.local(0)
        ok = ret[0] == "call" and bt.callee(ret[1]).name == "clone" and ret[2] == (("field", ("param", 1), m, A.BACC),)
        report.ob(rule, "BatchAccessor::%s" % m, ok, "self.%s.clone()" % m if ok else "BatchAccessor::%s returns %s" % (m, ret), site=b.loc(), config=config)
    b = facts.one(name="create", self_head=A.BCS, container="inherent")
    ret = prog.bt(b).local(0)
    ok = ret[0] == "agg" and ret[2] == A.BCS + "::BatchControllerSystem" and dict(zip(ret[4], ret[3])) == {"accessor": ("param", 1), "controller": ("param", 2), "dispatcher": ("param", 3)}
    report.ob(rule, "BatchControllerSystem::create", ok, "BatchControllerSystem { accessor, controller, dispatcher }", site=b.loc(), config=config)
    b = facts.one(name="accessor", trait=A.T_SYSTEM, self_head=A.BCS)
    ret = prog.bt(b).local(0)
    ok = ret[0] == "agg" and ret[2] == A.C + "::system::AccessorCow::Ref" and ret[3] == (("field", ("param", 1), "accessor", A.BCS),)
    report.ob(rule, "BatchControllerSystem::accessor", ok, "AccessorCow::Ref(&self.accessor)" if ok else "the batch system does not report the union accessor: %s" % (ret,), site=b.loc(), config=config)
    # the batch system's data type fetches nothing
    b = facts.one(name="fetch", trait=A.T_DYNSYSDATA, self_head=A.BUW)
    cs = [Callee(t["func"]).short() for bb, t in b.normal_calls()]
    ret = prog.bt(b).local(0)
    ok = not cs and ret[0] == "agg" and ret[3] == (("param", 2),)
    report.ob("C07.NOFETCH", "BatchUncheckedWorld::fetch", ok, "wraps the world reference, borrows nothing" if ok else "BatchUncheckedWorld::fetch calls %s" % cs, site=b.loc(), config=config)
    sd = [im for im in facts.impls if im.get("trait") == A.T_SYSTEM and im.get("self_head") == A.BCS]
    report.ob("C07.NOFETCH", "BatchControllerSystem::SystemData", len(sd) == 1, "one System impl for the batch wrapper", config=config)


def run(ctx, report):
    for config in ctx.configs:
        facts = ctx.facts(config)
        report.guard("C07.UNION", union, ctx, report, facts, config)
        report.guard("C07.ALL", all_rule, ctx, report, facts, config)
        report.guard("C07.WIRE", wire, ctx, report, facts, config)
        report.guard("C07.PLAN", c04.batch_run, ctx, report, facts, config, "C07.PLAN")
        report.guard("C07.SLOT", S.slot, ctx, report, "C07.SLOT", facts, config)
        # the tables fetch_all_* read only ever grow (member level: `extend` in insert only)
        report.guard("C07.ACCUM", S.lockstep, ctx, report, "C07.ACCUM", facts, config)
