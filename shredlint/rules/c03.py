"""C03 - Barriers: everything before a barrier finishes before anything after it starts."""
from .. import anchors as A
from .. import fanout as F
from .. import shared as S
from .. import placement as P
from . import c12

PROP = "C03"
EXPLANATION = (
    "Static structural obligations: (SET) StagesBuilder::add_barrier stores len(self.stages) into `barrier` and is the only writer "
    "of that field; (FWD) DispatcherBuilder::add_barrier forwards to it exactly once on every path and with_barrier calls add_barrier; "
    "(RANGE) the candidate stages of insertion_target are exactly self.barrier..self.stages.len(), Stage/Group targets are built only "
    "from evaluated candidates and the fallback appends a new stage; (EXEC) stages run strictly one after another in every dispatch "
    "mode; (TL) thread-local systems are untouched by barriers and run last (C12.ORDER/WHERE). A barrier where nothing was added is "
    "idempotent because barrier = len(stages).")
ASSUMPTIONS = ["rayon's install / for_each return only after all spawned work finished"]
TRUSTED = ["rustc nightly MIR construction", "shred-facts driver", "shredlint analyses"]
TECHNIQUE = 'static: single-writer and stored-value check of `barrier`, must-call forwarding, range-term check of the candidate scan, target construction inventory, FANOUT coverage of stage loops, thread-local ordering by dominance'
RULE_TEXT = "one obligation per writer of `barrier`, forwarding site, range endpoint, target construction site and stage-loop fan-out"

EXEC_IDS = ("SendDispatcher::dispatch", "SendDispatcher::dispatch_par", "SendDispatcher::dispatch_seq", "AsyncDispatcher::dispatch",
            "Dispatcher::dispatch", "Dispatcher::dispatch_par", "Dispatcher::dispatch_seq")


def _run_rules(ctx, report):
    for config in ctx.configs:
        facts = ctx.facts(config)
        report.guard("C03.SET", P.barrier, ctx, report, "C03.SET", facts, config, ("set",))
        report.guard("C03.FWD", P.barrier, ctx, report, "C03.FWD", facts, config, ("fwd",))
        report.guard("C03.RANGE", P.barrier, ctx, report, "C03.RANGE", facts, config, ("range",))
        report.guard("C03.RANGE", P.accept, ctx, report, "C03.RANGE", facts, config, ("chain", "accept-sound"))
        report.guard("C03.RANGE", S.slot, ctx, report, "C03.RANGE", facts, config)
        report.guard("C03.EXEC", F.check_family, ctx, report, "C03.EXEC", facts, config, (F.RUN,), lambda i: i in EXEC_IDS)
        report.guard("C03.TL", c12.order, ctx, report, facts, config, "C03.TL")
        report.guard("C03.TL", c12.where, ctx, report, facts, config, "C03.TL")


ENCAPSULATED_NOTE = (" (ENCAPSULATED) The premise of all of these - the crate's own code is the only thing that touches this state - is an obligation "
                     "of its own: no field of the types the state lives in can be named outside the crate (effective visibility), and no function a "
                     "user can call hands out `&mut` to one of them.")
EXPLANATION = EXPLANATION + ENCAPSULATED_NOTE
TECHNIQUE = TECHNIQUE + "; encapsulation inventory on rustc's effective visibilities (fields of state types, `&mut` results of callable functions)"


def run(ctx, report):
    _run_rules(ctx, report)
    from .. import shared as _S
    report.guard("C03.CONFIGS", _S.configurations, ctx, report, "C03.CONFIGS")
    for config in ctx.configs:
        report.guard("C03.ENCAPSULATED", _S.encapsulated, ctx, report, "C03.ENCAPSULATED", ctx.facts(config), config, "C03")
