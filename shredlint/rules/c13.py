"""C13 - Setup and dispose reach every system once; setup never clobbers."""
from .. import anchors as A
from .. import semq as Q
from .. import worldrules as W
from .. import fanout as F
from ..facts import Callee, AnchorError
from .. import datarules as D

PROP = "C13"
EXPLANATION = (
    "(UNLISTED / found carriers: lifecycle methods outside the FANOUT table, and types outside the carrier table that implement a lifecycle trait and keep systems, owe all-or-nothing coverage of every carrier field, the sibling rule - an impl that overrides run/setup must not inherit the no-op dispose - and, when they consume the carrier, dispose of every field.) "
    "Static structural obligations over the type-checked MIR of /repo: (FANOUT) every setup/dispose method of a "
    "system carrier (Stage, SendDispatcher, Dispatcher, AsyncDispatcher, BatchControllerSystem, blanket RunNow, "
    "Par/Seq/ParSeq) invokes, on every normal path, exactly one same-family method on each carrier field, per element "
    "of a full-forward traversal for collections; no carrier impl inherits a no-op lifecycle default while overriding "
    "another; (NOCLOBBER) the call cone of all library setup roots can modify the resource table only through "
    "Entry::or_insert_with on a vacant entry. Decides the shape of the code, not run-time counts.")
ASSUMPTIONS = [
    "user-written System::setup / dispose overrides are out of scope",
    "std HashMap entry API: or_insert_with never overwrites an occupied entry",
]
TRUSTED = ["rustc nightly MIR construction (mir-opt-level=0)", "shred-facts driver", "shredlint analyses (cfg, terms, shapes)"]
TECHNIQUE = 'static: FANOUT coverage of setup/dispose over the carrier ownership tree, lifecycle sibling rule on impls, call-cone who-may-mutate analysis of library setup code and structured evaluation of DefaultProvider::setup down to the table (only a vacant slot of the type the handler is for is filled), tuple/derive setup composition'
RULE_TEXT = ("one obligation per (carrier method, carrier field, family) from the FANOUT table, per sibling lifecycle "
             "method of every carrier impl, and per mutating call site in the setup cone; distinct = distinct rule instances")


def _guarded_by_absence(prog, body, bb, callee):
    """The insert at `bb` is reachable only through the false arm of `if self.has_value::<same T>()`."""
    bt = prog.bt(body)
    targs = [a["s"] for a in callee.type_args()]
    for hb, t in body.normal_calls():
        hc = Callee(t["func"])
        if hc.name == "has_value" and hc.self_head == A.WORLD and [a["s"] for a in hc.type_args()] == targs and t["target"] is not None:
            sw = body.blocks[t["target"]]["term"]
            if sw["k"] == "switch":
                arms = dict((v, tgt) for v, tgt in sw["arms"])
                false_bb = arms.get(0)
                if false_bb is not None and false_bb != sw["otherwise"] and bt.cfg.dominates(false_bb, bb):
                    return True
    return False


def noclobber(ctx, report, facts, config, rule="C13.NOCLOBBER"):
    prog = ctx.program(facts)
    roots = []
    roots += facts.find(name="setup", trait=A.T_SYSDATA)
    roots += facts.find(name="setup", trait=A.T_SETUPHANDLER)
    roots += facts.find(name="setup", trait=A.T_DYNSYSDATA)
    roots += [b for b in facts.find(name="setup", trait=A.T_SYSTEM, container="trait")]
    roots += [facts.one(name="setup", self_head=A.WORLD, container="inherent")]
    report.floor(rule, "library setup roots", len(roots), 30, config=config)
    # user-overridable hooks are not followed: System::setup impls of carriers are FANOUT's business
    cone = facts.cone(roots)
    forbidden_world = set(["insert", "insert_by_id", "remove", "remove_by_id", "get_mut", "get_mut_raw"])
    mutators = set(["insert", "remove", "clear", "retain", "drain", "get_mut", "entry", "or_insert", "or_insert_with",
                    "or_default", "and_modify", "extend", "remove_entry", "try_insert", "get_or_insert_with",
                    "deref_mut", "borrow_mut", "try_borrow_mut"])
    n_sites = 0
    allowed_seen = 0
    # World::insert reached only from `if !has_value::<T>() { insert::<T>(..) }` sites fills an empty slot: what it does
    # inside is then not a replacement (the DefaultProvider rule below decides the guard path-sensitively)
    wi = facts.maybe(A.WORLD + "::insert")
    guarded_only = False
    if wi is not None:
        sites = [(cb, bb) for cb, bb in facts.callers().get(wi.key, []) if cb.key in cone]
        guarded_only = bool(sites) and all(_guarded_by_absence(prog, cb, bb, Callee(cb.blocks[bb]["term"]["func"])) for cb, bb in sites)
    skip = set()
    if guarded_only:
        ibi = facts.maybe(A.WORLD + "::insert_by_id")
        skip = set([wi.key] + ([ibi.key] if ibi is not None else []))
    for b in sorted(cone.values(), key=lambda b: b.key):
        if b.key in skip:
            continue
        report.touched(b, config)
        for bb, t in b.normal_calls():
            c = Callee(t["func"])
            if c.local and c.self_head == A.WORLD and c.name == "insert" and _guarded_by_absence(prog, b, bb, c):
                report.ob(rule, "%s->World::insert(if absent)" % b.qname, True,
                          "World::insert::<T> only on the branch where has_value::<T>() is false", site=b.loc(bb), config=config)
                n_sites += 1
                allowed_seen += 1
                continue
            if c.local and c.self_head == A.WORLD and c.name in forbidden_world:
                report.ob(rule, "%s->World::%s" % (b.qname, c.name), False,
                          "library setup code reaches World::%s, which can replace or remove an existing resource" % c.name,
                          site=b.loc(bb), config=config)
                n_sites += 1
                continue
            if c.name in mutators and not c.local:
                recv = t["args"][0] if t["args"] else None
                rty = (recv.get("place", {}).get("ty", "") if recv and "place" in recv else "")
                cell = "AtomicRefCell<std::boxed::Box<dyn shred::world::Resource"
                on_guard = "shred::world::FetchMut" in rty or "shred::world::data::Write" in rty or ("AtomicRefMut<" in rty and "shred::world::Resource" in rty)
                on_table = cell in rty or cell in c.inst_path
                if c.name == "deref_mut":
                    # only writing through a resource guard counts; AHashMap -> HashMap deref is no mutation
                    touches_table = on_guard
                else:
                    touches_table = on_table or on_guard
                if not touches_table:
                    continue
                n_sites += 1
                ok = False
                why = ""
                # decided by what the operation can do, wherever it is written
                if c.name in ("or_insert_with", "or_insert", "or_default") and "hash_map::Entry" in c.path:
                    ok = True
                    why = "std Entry::%s (vacant-only insertion)" % c.name
                    allowed_seen += 1
                elif c.name == "insert" and "VacantEntry" in c.path:
                    # the same insertion written as `match entry { Vacant(v) => v.insert(..), Occupied(o) => o.into_mut() }`
                    ok = True
                    why = "VacantEntry::insert (vacant-only insertion)"
                    allowed_seen += 1
                elif c.name == "entry" and "HashMap" in c.path:
                    ok = True
                    why = "HashMap::entry (no modification by itself)"
                elif c.name in ("borrow_mut", "try_borrow_mut") and not on_guard:
                    ok = True
                    why = "exclusive borrow of a cell (no modification by itself; writes through it are looked at where they happen)"
                report.ob(rule, "%s->%s" % (b.qname, c.name), ok,
                          why if ok else "setup cone mutates the resource table through %s" % c.short(), site=b.loc(bb), config=config)
    report.ob(rule, "or_insert_with-reached", allowed_seen >= 1,
              "the only table-modifying call in the setup cone is Entry::or_insert_with (%d site)" % allowed_seen, config=config)
    # DefaultProvider::setup, looked into all the way down to the table: the only thing that can happen to the resource
    # table is that a vacant slot keyed by the handler's own type receives the default value; nothing is done to what
    # is already there, and the guard is not written through
    dp = facts.one(name="setup", trait=A.T_SETUPHANDLER, pred=lambda b: "DefaultProvider" in (b.self_ty or ""))
    report.touched(dp, config)
    ev, ends = Q.sem(ctx, facts, dp, opaque=[A.RESID + "::new", A.RESID + "::assert_same_type_id"])
    pr = []
    n_fill = 0
    rets = [e for e in ends if e.kind == "return"]
    if not rets:
        pr.append("no normal path")
    for e in ends:
        if e.kind == "diverge":
            pr.append("the default handler can panic")
    for e in rets:
        absent = set()   # id terms known to be absent from the table on this path
        for (ct, cv, cn, cs) in e.path.conds:
            if Q.is_call(ev, ct, "contains_key") and cv == 0:
                absent.add(Q.strip(ev, ct[2][1]))
        for x in W._deep(e.path.events):
            if x[0] != "call" or x[2].local and x[2].name not in ("deref_mut",):
                continue
            c, a = x[2], x[3]
            if c.name == "insert" and "VacantEntry" in c.path:
                src = Q.strip(ev, a[0])
                # the vacant entry of resources.entry(ResourceId::new::<T>())
                ent = src[1][1] if src[0] == "field" and src[1][0] == "variant" and src[1][2] == "Vacant" else None
                while isinstance(ent, tuple) and ent[0] == "field" and ent[3] in (A.ENTRY,):
                    ent = ent[1]
                if isinstance(ent, tuple) and ent[0] == "agg" and ent[2].startswith(A.ENTRY):
                    ent = dict(zip(ent[4], ent[3])).get("inner")
                ent = Q.strip(ev, ent) if ent is not None else None
                k = Q.strip(ev, ent[2][1]) if Q.is_call(ev, ent, "entry") and len(ent[2]) == 2 else None
                if not (k is not None and Q.is_call(ev, k, "new") and Q.callee_of(ev, k).self_head == A.RESID and ev.targs(k) == ["T"]):
                    pr.append("the filled slot is not the one keyed by the handler's own type")
                if not W._boxed_as(ev, a[1], "T", lambda v: Q.is_call(ev, v, "default") or (Q.callee_of(ev, v) is not None and Q.callee_of(ev, v).name in ("call_once", "default"))):
                    pr.append("the value stored is not T::default()")
                n_fill += 1
            elif c.name == "insert" and not c.local and a and W._table_recv(ev, a[0]):
                if Q.strip(ev, a[1]) in absent:
                    n_fill += 1
                else:
                    pr.append("the table's `insert` is reached without knowing the slot is empty: an existing resource would be replaced")
            elif c.name in ("remove", "clear", "retain", "drain", "remove_entry", "and_modify", "get_mut", "extend") and not c.local and a and W._table_recv(ev, a[0]):
                pr.append("the table is modified through `%s`" % c.name)
            elif c.name in ("deref_mut", "downcast_mut_unchecked"):
                rty = ev.self_arg(x[4]) or ""
                if "FetchMut" in rty or "Write<" in rty or c.name == "downcast_mut_unchecked":
                    pr.append("the existing resource is written through the returned guard")
    if rets and not n_fill:
        pr.append("no path stores the default value")
    report.ob(rule, "DefaultProvider::setup", not pr,
              "fills the vacant slot of its own type with T::default(); an existing resource is neither replaced nor written" if not pr else "; ".join(sorted(set(pr))), site=dp.loc(), config=config)
    # accessors that must create nothing
    quiet = []
    quiet += facts.find(name="setup", trait=A.T_SETUPHANDLER, pred=lambda b: "PanicHandler" in (b.self_ty or ""))
    quiet += facts.find(name="setup", trait=A.T_SYSDATA, pred=lambda b: (b.self_ty or "").startswith("std::option::Option<"))
    quiet += facts.find(name="setup", trait=A.T_SYSDATA, pred=lambda b: b.self_ty in ("()",) or (b.self_ty or "").startswith("std::marker::PhantomData"))
    report.floor(rule, "create-nothing setups", len(quiet), 5, config=config)
    for b in quiet:
        report.touched(b, config)
        ev, ends = Q.sem(ctx, facts, b)
        cs = sorted(set(x[2].name for e in ends for x in Q.calls_in(e.path.events, lambda c: c.local or c.name not in Q.BENIGN_STD, deep=True)))
        report.ob(rule, "quiet/%s" % b.qname, not cs, "setup body makes no call" if not cs else "setup of an optional/expecting accessor calls %s" % cs,
                  site=b.loc(), config=config)
    # Read/Write::setup forward to the handler
    for head in (A.READ, A.WRITE):
        b = facts.one(name="setup", trait=A.T_SYSDATA, self_head=head)
        report.touched(b, config)
        ev, ends = Q.sem(ctx, facts, b)
        ok, seen = Q.forwards_once(ev, ends, lambda c, x: c.trait == A.T_SETUPHANDLER and c.name == "setup" and ev.self_arg(x[4]) == "F")
        report.ob(rule, "handler/%s" % head.rsplit("::", 1)[1], ok,
                  "setup forwards to <F as SetupHandler<T>>::setup" if ok else "setup does not forward exactly once to the handler: %s" % (seen,),
                  site=b.loc(), config=config)


def setup_extra(ctx, report, facts, config):
    """Non-fanout setup obligations: batch declared data, defaults."""
    rule = "C13.FANOUT"
    wsetup = F.inh(facts, A.WORLD, "setup")
    b = F.timpl(facts, A.T_SYSTEM, A.BCS, "setup")
    # World::setup::<X>() is looked into: what counts is <X as SystemData>::setup(world), however it is reached
    ev, ends = Q.sem(ctx, facts, b)
    is_decl = lambda c: c.trait == A.T_SYSDATA and c.name == "setup"
    n = []
    for e in Q.returns(ends):
        ws = [x for x in Q.calls_in(e.path.events, is_decl, deep=False) if "BatchSystemData" in (ev.self_arg(x[4]) or "")]
        inloop = [L for L in Q.all_loops([e]) if Q.loop_contains_call(L, is_decl)]
        n.append(len(ws) if not inloop and all(x[3] and Q.strip(ev, x[3][0]) == ("param", 2) for x in ws) else -1)
    ok = bool(n) and all(k == 1 for k in n)
    report.ob(rule, "SETUP/<BatchControllerSystem as System>::setup/controller-data", ok,
              "<C::BatchSystemData as SystemData>::setup(world) once on every way (through World::setup or directly)" if ok else "controller's declared data is not set up exactly once on every way: %s" % n,
              site=b.loc(), config=config)
    # System::setup default -> DynamicSystemData::setup(accessor, world)
    b = F.default_method(facts, A.T_SYSTEM, "setup")
    ev, ends = Q.sem(ctx, facts, b)
    n = [len(Q.calls_in(e.path.events, lambda c: c.trait == A.T_DYNSYSDATA and c.name == "setup", deep=True)) for e in Q.returns(ends)]
    report.ob(rule, "SETUP/System::setup(default)", bool(n) and all(k == 1 for k in n), "default System::setup calls DynamicSystemData::setup %s time(s)" % n,
              site=b.loc(), config=config)
    b = blanket_dyn = facts.one(name="setup", trait=A.T_DYNSYSDATA, container="trait_impl", pred=lambda b: (b.self_head or "").startswith("param:"))
    ev, ends = Q.sem(ctx, facts, b)
    ok, seen = Q.forwards_once(ev, ends, lambda c, x: c.trait == A.T_SYSDATA and c.name == "setup" and ev.self_arg(x[4]) == "T")
    report.ob(rule, "SETUP/<T as DynamicSystemData>::setup", ok, "forwards to <T as SystemData>::setup: %s" % (seen,),
              site=b.loc(), config=config)
    b = wsetup
    ev, ends = Q.sem(ctx, facts, b)
    ok, seen = Q.forwards_once(ev, ends, lambda c, x: c.trait == A.T_SYSDATA and c.name == "setup" and ev.self_arg(x[4]) == "T")
    report.ob(rule, "SETUP/World::setup", ok, "forwards to <T as SystemData>::setup: %s" % (seen,),
              site=b.loc(), config=config)


EXCEPTIONS = {
    (A.PARSEQ, A.T_RUNNOW, "dispose"): "RunWithPool has no dispose hook in its interface (documented partial operation)",
}


def _run_rules(ctx, report):
    for config in ctx.configs:
        facts = ctx.facts(config)
        report.guard("C13.FANOUT", F.check_family, ctx, report, "C13.FANOUT", facts, config, (F.SETUP, F.DISPOSE))
        report.guard("C13.UNLISTED", F.unlisted, ctx, report, "C13.UNLISTED", facts, config, (F.SETUP, F.DISPOSE))
        report.guard("C13.FANOUT", F.carrier_inventory, ctx, report, "C13.FANOUT", facts, config)
        report.guard("C13.FANOUT", F.lifecycle_siblings, ctx, report, "C13.FANOUT", facts, config, EXCEPTIONS)
        report.guard("C13.FANOUT", setup_extra, ctx, report, facts, config)
        report.guard("C13.NOCLOBBER", noclobber, ctx, report, facts, config)
        # the dispatcher a batch owns is built from the builder it was given: otherwise systems registered on that
        # builder (its thread-local ones included) are never set up or disposed
        from . import c07
        report.guard("C13.BATCH", c07.assembly, ctx, report, facts, config, "C13.BATCH")
        counts = D.all_impls(ctx, report, facts, config, "C13.COMPOSE", only_kinds=("tuple",), methods=("setup",))
        report.floor("C13.COMPOSE.TUPLE", "tuple impls (setup composition)", counts["tuple"], 26, config=config)
    try:
        probe = [f for f in ctx.all_facts("probe") if f.crate == "shred_probe"]
        n = 0
        for f in probe:
            n += D.all_impls(ctx, report, f, "probe", "C13.COMPOSE", label_prefix="probe:", only_kinds=("derive",), methods=("setup",))["derive"]
        report.floor("C13.COMPOSE.DERIVE", "derive expansions (setup composition)", n, 19, config="probe")
    except Exception as e:
        report.ob("C13.COMPOSE.DERIVE", "EXTRACT", False, "probe crate could not be analysed: %s" % str(e)[-300:])


ENCAPSULATED_NOTE = (" (ENCAPSULATED) The premise of all of these - the crate's own code is the only thing that touches this state - is an obligation "
                     "of its own: no field of the types the state lives in can be named outside the crate (effective visibility), and no function a "
                     "user can call hands out `&mut` to one of them.")
EXPLANATION = EXPLANATION + ENCAPSULATED_NOTE
TECHNIQUE = TECHNIQUE + "; encapsulation inventory on rustc's effective visibilities (fields of state types, `&mut` results of callable functions)"


def run(ctx, report):
    _run_rules(ctx, report)
    from .. import shared as _S
    report.guard("C13.CONFIGS", _S.configurations, ctx, report, "C13.CONFIGS")
    for config in ctx.configs:
        report.guard("C13.ENCAPSULATED", _S.encapsulated, ctx, report, "C13.ENCAPSULATED", ctx.facts(config), config, "C13")
