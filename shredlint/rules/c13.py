"""C13 - Setup and dispose reach every system once; setup never clobbers."""
from .. import anchors as A
from .. import fanout as F
from ..facts import Callee, AnchorError
from .. import datarules as D

PROP = "C13"
EXPLANATION = (
    "Static structural obligations over the type-checked MIR of /repo: (FANOUT) every setup/dispose method of a "
    "system carrier (Stage, SendDispatcher, Dispatcher, AsyncDispatcher, BatchControllerSystem, blanket RunNow, "
    "Par/Seq/ParSeq) invokes, on every normal path, exactly one same-family method on each carrier field, per element "
    "of a full-forward traversal for collections; no carrier impl inherits a no-op lifecycle default while overriding "
    "another; (NOCLOBBER) the call cone of all library setup roots can modify the resource table only through "
    "Entry::or_insert_with on a vacant entry. Decides the shape of the code, not run-time counts.")
ASSUMPTIONS = [
    "user-written System::setup / dispose overrides are out of scope",
    "std HashMap entry API: or_insert_with never overwrites an occupied entry",
]
TRUSTED = ["rustc nightly MIR construction (mir-opt-level=0)", "shred-facts driver", "shredlint analyses (cfg, terms, shapes)"]
TECHNIQUE = 'static: FANOUT coverage of setup/dispose over the carrier ownership tree, lifecycle sibling rule on impls, call-cone who-may-mutate analysis of library setup code (only Entry::or_insert_with), tuple/derive setup composition'
RULE_TEXT = ("one obligation per (carrier method, carrier field, family) from the FANOUT table, per sibling lifecycle "
             "method of every carrier impl, and per mutating call site in the setup cone; distinct = distinct rule instances")


def _guarded_by_absence(prog, body, bb, callee):
    """The insert at `bb` is reachable only through the false arm of `if self.has_value::<same T>()`."""
    bt = prog.bt(body)
    targs = [a["s"] for a in callee.type_args()]
    for hb, t in body.normal_calls():
        hc = Callee(t["func"])
        if hc.name == "has_value" and hc.self_head == A.WORLD and [a["s"] for a in hc.type_args()] == targs and t["target"] is not None:
            sw = body.blocks[t["target"]]["term"]
            if sw["k"] == "switch":
                arms = dict((v, tgt) for v, tgt in sw["arms"])
                false_bb = arms.get(0)
                if false_bb is not None and false_bb != sw["otherwise"] and bt.cfg.dominates(false_bb, bb):
                    return True
    return False


def noclobber(ctx, report, facts, config):
    rule = "C13.NOCLOBBER"
    prog = ctx.program(facts)
    roots = []
    roots += facts.find(name="setup", trait=A.T_SYSDATA)
    roots += facts.find(name="setup", trait=A.T_SETUPHANDLER)
    roots += facts.find(name="setup", trait=A.T_DYNSYSDATA)
    roots += [b for b in facts.find(name="setup", trait=A.T_SYSTEM, container="trait")]
    roots += [facts.one(name="setup", self_head=A.WORLD, container="inherent")]
    report.floor(rule, "library setup roots", len(roots), 30, config=config)
    # user-overridable hooks are not followed: System::setup impls of carriers are FANOUT's business
    cone = facts.cone(roots)
    forbidden_world = set(["insert", "insert_by_id", "remove", "remove_by_id", "get_mut", "get_mut_raw"])
    mutators = set(["insert", "remove", "clear", "retain", "drain", "get_mut", "entry", "or_insert", "or_insert_with",
                    "or_default", "and_modify", "extend", "remove_entry", "try_insert", "get_or_insert_with",
                    "deref_mut", "borrow_mut", "try_borrow_mut"])
    n_sites = 0
    allowed_seen = 0
    for b in sorted(cone.values(), key=lambda b: b.key):
        report.touched(b, config)
        for bb, t in b.normal_calls():
            c = Callee(t["func"])
            if c.local and c.self_head == A.WORLD and c.name == "insert" and _guarded_by_absence(prog, b, bb, c):
                report.ob(rule, "%s->World::insert(if absent)" % b.qname, True,
                          "World::insert::<T> only on the branch where has_value::<T>() is false", site=b.loc(bb), config=config)
                n_sites += 1
                allowed_seen += 1
                continue
            if c.local and c.self_head == A.WORLD and c.name in forbidden_world:
                report.ob(rule, "%s->World::%s" % (b.qname, c.name), False,
                          "library setup code reaches World::%s, which can replace or remove an existing resource" % c.name,
                          site=b.loc(bb), config=config)
                n_sites += 1
                continue
            if c.name in mutators and not c.local:
                recv = t["args"][0] if t["args"] else None
                rty = (recv.get("place", {}).get("ty", "") if recv and "place" in recv else "")
                cell = "AtomicRefCell<std::boxed::Box<dyn shred::world::Resource"
                on_guard = "shred::world::FetchMut" in rty or "shred::world::data::Write" in rty
                on_table = cell in rty or cell in c.inst_path
                if c.name == "deref_mut":
                    # only writing through a resource guard counts; AHashMap -> HashMap deref is no mutation
                    touches_table = on_guard
                else:
                    touches_table = on_table or on_guard
                if not touches_table:
                    continue
                n_sites += 1
                ok = False
                why = ""
                if c.name == "or_insert_with" and "hash_map::Entry" in c.path:
                    ok = b.qname == A.ENTRY + "::or_insert_with"
                    why = "std Entry::or_insert_with (vacant-only insertion)"
                    allowed_seen += 1 if ok else 0
                elif c.name == "entry" and b.qname == A.WORLD + "::entry":
                    ok = True
                    why = "HashMap::entry inside World::entry (no modification by itself)"
                elif c.name == "borrow_mut" and b.qname == A.ENTRY + "::or_insert_with":
                    ok = True
                    why = "borrow of the entry's cell to build the returned guard"
                report.ob(rule, "%s->%s" % (b.qname, c.name), ok,
                          why if ok else "setup cone mutates the resource table through %s" % c.short(), site=b.loc(bb), config=config)
    report.ob(rule, "or_insert_with-reached", allowed_seen >= 1,
              "the only table-modifying call in the setup cone is Entry::or_insert_with (%d site)" % allowed_seen, config=config)
    # the guard returned by or_insert_with is dropped unused in DefaultProvider::setup
    dp = facts.one(name="setup", trait=A.T_SETUPHANDLER, pred=lambda b: "DefaultProvider" in (b.self_ty or ""))
    report.touched(dp, config)
    calls = [(bb, Callee(t["func"])) for bb, t in dp.normal_calls()]
    names = [c.name for _, c in calls]
    ok = names == ["entry", "or_insert_with"] and all(c.local for _, c in calls)
    report.ob(rule, "DefaultProvider::setup", ok,
              "calls %s (expected exactly World::entry then Entry::or_insert_with, result unused)" % names, site=dp.loc(), config=config)
    if ok:
        c = calls[0][1]
        targs = [a["s"] for a in c.type_args()]
        impl_t = "T"
        report.ob(rule, "DefaultProvider::setup/key", targs == [impl_t],
                  "World::entry::<%s> for SetupHandler<T>" % ",".join(targs), site=dp.loc(calls[0][0]), config=config)
    # accessors that must create nothing
    quiet = []
    quiet += facts.find(name="setup", trait=A.T_SETUPHANDLER, pred=lambda b: "PanicHandler" in (b.self_ty or ""))
    quiet += facts.find(name="setup", trait=A.T_SYSDATA, pred=lambda b: (b.self_ty or "").startswith("std::option::Option<"))
    quiet += facts.find(name="setup", trait=A.T_SYSDATA, pred=lambda b: b.self_ty in ("()",) or (b.self_ty or "").startswith("std::marker::PhantomData"))
    report.floor(rule, "create-nothing setups", len(quiet), 5, config=config)
    for b in quiet:
        report.touched(b, config)
        cs = [Callee(t["func"]).short() for _, t in b.normal_calls()]
        report.ob(rule, "quiet/%s" % b.qname, not cs, "setup body makes no call" if not cs else "setup of an optional/expecting accessor calls %s" % cs,
                  site=b.loc(), config=config)
    # Read/Write::setup forward to the handler
    for head in (A.READ, A.WRITE):
        b = facts.one(name="setup", trait=A.T_SYSDATA, self_head=head)
        report.touched(b, config)
        cs = [(bb, Callee(t["func"])) for bb, t in b.normal_calls()]
        ok = len(cs) == 1 and cs[0][1].trait == A.T_SETUPHANDLER and cs[0][1].name == "setup" and cs[0][1].self_arg_s == "F"
        report.ob(rule, "handler/%s" % head.rsplit("::", 1)[1], ok,
                  "setup forwards to <F as SetupHandler<T>>::setup" if ok else "setup calls %s" % [c.short() for _, c in cs],
                  site=b.loc(), config=config)


def setup_extra(ctx, report, facts, config):
    """Non-fanout setup obligations: batch declared data, defaults."""
    rule = "C13.FANOUT"
    b = F.timpl(facts, A.T_SYSTEM, A.BCS, "setup")
    cs = [(bb, Callee(t["func"])) for bb, t in b.normal_calls()]
    ws = [(bb, c) for bb, c in cs if c.local and c.self_head == A.WORLD and c.name == "setup"]
    ok = len(ws) == 1 and any("BatchSystemData" in a["s"] for a in ws[0][1].type_args())
    report.ob(rule, "SETUP/<BatchControllerSystem as System>::setup/controller-data", ok,
              "one World::setup::<C::BatchSystemData>() call" if ok else "controller's declared data is not set up exactly once: %s" % [c.short() for _, c in cs],
              site=b.loc(), config=config)
    # System::setup default -> DynamicSystemData::setup(accessor, world)
    b = F.default_method(facts, A.T_SYSTEM, "setup")
    cs = [(bb, Callee(t["func"])) for bb, t in b.normal_calls()]
    ds = [c for _, c in cs if c.trait == A.T_DYNSYSDATA and c.name == "setup"]
    report.ob(rule, "SETUP/System::setup(default)", len(ds) == 1, "default System::setup calls DynamicSystemData::setup %d time(s)" % len(ds),
              site=b.loc(), config=config)
    b = blanket_dyn = facts.one(name="setup", trait=A.T_DYNSYSDATA, container="trait_impl", pred=lambda b: (b.self_head or "").startswith("param:"))
    cs = [(bb, Callee(t["func"])) for bb, t in b.normal_calls()]
    ds = [c for _, c in cs if c.trait == A.T_SYSDATA and c.name == "setup" and c.self_arg_s == "T"]
    report.ob(rule, "SETUP/<T as DynamicSystemData>::setup", len(ds) == 1 and len(cs) == 1, "forwards to <T as SystemData>::setup %d time(s)" % len(ds),
              site=b.loc(), config=config)
    b = F.inh(facts, A.WORLD, "setup")
    cs = [(bb, Callee(t["func"])) for bb, t in b.normal_calls()]
    ds = [c for _, c in cs if c.trait == A.T_SYSDATA and c.name == "setup" and c.self_arg_s == "T"]
    report.ob(rule, "SETUP/World::setup", len(ds) == 1 and len(cs) == 1, "forwards to <T as SystemData>::setup %d time(s)" % len(ds),
              site=b.loc(), config=config)


EXCEPTIONS = {
    (A.PARSEQ, A.T_RUNNOW, "dispose"): "RunWithPool has no dispose hook in its interface (documented partial operation)",
}


def run(ctx, report):
    for config in ctx.configs:
        facts = ctx.facts(config)
        report.guard("C13.FANOUT", F.check_family, ctx, report, "C13.FANOUT", facts, config, (F.SETUP, F.DISPOSE))
        report.guard("C13.FANOUT", F.carrier_inventory, ctx, report, "C13.FANOUT", facts, config)
        report.guard("C13.FANOUT", F.lifecycle_siblings, ctx, report, "C13.FANOUT", facts, config, EXCEPTIONS)
        report.guard("C13.FANOUT", setup_extra, ctx, report, facts, config)
        report.guard("C13.NOCLOBBER", noclobber, ctx, report, facts, config)
        counts = D.all_impls(ctx, report, facts, config, "C13.COMPOSE", only_kinds=("tuple",), methods=("setup",))
        report.floor("C13.COMPOSE.TUPLE", "tuple impls (setup composition)", counts["tuple"], 26, config=config)
    try:
        probe = [f for f in ctx.all_facts("probe") if f.crate == "shred_probe"]
        n = 0
        for f in probe:
            n += D.all_impls(ctx, report, f, "probe", "C13.COMPOSE", label_prefix="probe:", only_kinds=("derive",), methods=("setup",))["derive"]
        report.floor("C13.COMPOSE.DERIVE", "derive expansions (setup composition)", n, 19, config="probe")
    except Exception as e:
        report.ob("C13.COMPOSE.DERIVE", "EXTRACT", False, "probe crate could not be analysed: %s" % str(e)[-300:])
