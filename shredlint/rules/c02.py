"""C02 - Dependencies: a system starts only after all it depends on have finished."""
from .. import anchors as A
from .. import fanout as F
from .. import shared as S
from .. import placement as P
from .. import builderrules as B

PROP = "C02"
EXPLANATION = (
    "Static structural obligations: a dependency A of B ends up in an earlier stage or earlier in B's group. (DEPHIT) when no "
    "resource conflicts, the predicate intersects the pending dependency list with the ids of the group; a hit counts the group as "
    "conflicting and sets the captured flag; (DEPGATE) find_conflict returns Multiple iff (hit and more than one pending) or (no hit "
    "and some pending), else the verdict of the scan over the groups; (ORDER) a stage is judged before its ids are crossed off, same stage, same list; "
    "(CROSSOFF) only ids read from ids[stage] are crossed off; (APPEND) joining a group is a push and groups run front to back; "
    "(IDS) add draws one fresh id, resolves dependencies before entering its own name, gives the same id to map and placement; "
    "(EXEC) stages run one after another in all dispatch modes. Timing follows from the synchronous call structure under rayon's contract.")
ASSUMPTIONS = ["rayon install/for_each return after all work finished", "SmallVec::retain / ArrayVec::push semantics"]
TRUSTED = ["rustc nightly MIR construction", "shred-facts driver", "shredlint analyses"]
TECHNIQUE = 'static: structured evaluation of find_conflict (dependency hit, 8-case truth table of the gate), of the candidate scan (judge before cross-off, same stage, same list), of remove_ids (removal only on equality with an id of the stage) and of DispatcherBuilder::add (id wiring); FANOUT coverage of stage loops'
RULE_TEXT = "one obligation per decision-table row, ordering site, cross-off idiom, id wiring and run-family fan-out"
EXEC_IDS = ("Stage::execute", "Stage::execute_seq", "SendDispatcher::dispatch", "SendDispatcher::dispatch_par", "SendDispatcher::dispatch_seq", "AsyncDispatcher::dispatch")


def rules(ctx, report, facts, config, pfx="C02"):
    report.guard(pfx + ".DEPHIT", P.matrix, ctx, report, pfx + ".DEPHIT", facts, config, ("dephit", "index"))
    report.guard(pfx + ".DEPHIT", P.allgroups, ctx, report, pfx + ".DEPHIT", facts, config)
    report.guard(pfx + ".DEPGATE", P.depgate, ctx, report, pfx + ".DEPGATE", facts, config)
    report.guard(pfx + ".INTERSECT", P.intersect_body, ctx, report, pfx + ".INTERSECT", facts, config)
    report.guard(pfx + ".ORDER", P.dep_order, ctx, report, pfx + ".ORDER", facts, config)
    report.guard(pfx + ".ORDER", P.accept, ctx, report, pfx + ".ORDER", facts, config, ("chain", "accept-sound"))
    report.guard(pfx + ".CROSSOFF", P.crossoff, ctx, report, pfx + ".CROSSOFF", facts, config, ("own-stage",))
    report.guard(pfx + ".APPEND", S.slot, ctx, report, pfx + ".APPEND", facts, config)
    report.guard(pfx + ".APPEND", S.lockstep, ctx, report, pfx + ".APPEND", facts, config)
    report.guard(pfx + ".IDS", B.ids, ctx, report, pfx + ".IDS", facts, config)
    report.guard(pfx + ".EXEC", F.check_family, ctx, report, pfx + ".EXEC", facts, config, (F.RUN,), lambda i: i in EXEC_IDS)


def _run_rules(ctx, report):
    for config in ctx.configs:
        rules(ctx, report, ctx.facts(config), config)


ENCAPSULATED_NOTE = (" (ENCAPSULATED) The premise of all of these - the crate's own code is the only thing that touches this state - is an obligation "
                     "of its own: no field of the types the state lives in can be named outside the crate (effective visibility), and no function a "
                     "user can call hands out `&mut` to one of them.")
EXPLANATION = EXPLANATION + ENCAPSULATED_NOTE
TECHNIQUE = TECHNIQUE + "; encapsulation inventory on rustc's effective visibilities (fields of state types, `&mut` results of callable functions)"


def run(ctx, report):
    _run_rules(ctx, report)
    from .. import shared as _S
    report.guard("C02.CONFIGS", _S.configurations, ctx, report, "C02.CONFIGS")
    for config in ctx.configs:
        report.guard("C02.ENCAPSULATED", _S.encapsulated, ctx, report, "C02.ENCAPSULATED", ctx.facts(config), config, "C02")
