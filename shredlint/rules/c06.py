"""C06 - Declared access equals real borrows for every provided system-data type."""
from .. import anchors as A
from .. import datarules as D
from .. import worldrules as W
from .. import poolrules as R
from .. import positives as P
from .. import witness

PROP = "C06"
EXPLANATION = (
    "Structural induction over system-data types with machine-checked leaves: (PRIM) World's fetch primitives reach only "
    "borrow/try_borrow (shared) resp. borrow_mut/try_borrow_mut (exclusive); (LEAF) for every non-delegating impl SystemData in shred "
    "(Read, Write, Option<Read>, Option<Write>, (), PhantomData) the ResourceId::new::<T> results flowing into reads() equal the shared "
    "primitives fetch() calls with the same T, likewise writes()/exclusive, and nothing else is fetched; (TUPLE) each of the 26 tuple "
    "impls calls, in each of setup/fetch/reads/writes, the same-named method of every type parameter exactly once on every path and "
    "appends every reads/writes result to the returned vector; (DERIVE) the same rule on the expanded impls of the probe's derive "
    "corpus (named, tuple, generic, where-clauses, extra lifetimes, nested, repeated and empty members) and, thorough, on every derive "
    "instance in /repo's tests, examples and benches; (STATIC) StaticAccessor and the DynamicSystemData blanket forward by matching "
    "name; (RELEASE) guards own their borrow and are never leaked. The derive macro is analysed through its outputs, not for all inputs.")
ASSUMPTIONS = ["derive expansions outside the corpus are not covered (exhaustive: false for the derive clause)", "atomic_refcell borrow semantics"]
TRUSTED = ["rustc nightly MIR construction and macro expansion", "shred-facts driver", "shredlint analyses"]
TECHNIQUE = 'static: structural induction leaves on MIR - leaf impls (declared ids = borrowed primitives), 26 tuple impls x 4 methods (one delegation per member, results appended), expanded derive corpus, StaticAccessor forwarding, guard leak inventory, compile_fail witness'
RULE_TEXT = "one obligation per (impl, method) for composites and per leaf impl; floors: 26 tuple impls x 4 methods, 6 leaves, >= 12 corpus derives"


def _derive_source(ctx, report, config):
    D.derive_source(ctx, report, "C06.DERIVESRC", ctx.facts(config, crate="shred_derive", kind="procmacro"), config)


def _run_rules(ctx, report):
    for config in ctx.configs:
        facts = ctx.facts(config)
        report.guard("C06.PRIM", W.prim, ctx, report, "C06.PRIM", facts, config)
        counts = D.all_impls(ctx, report, facts, config, "C06", only_kinds=("leaf", "tuple"))
        report.floor("C06.TUPLE", "tuple impls of SystemData", counts["tuple"], 26, config=config)
        report.floor("C06.LEAF", "leaf impls of SystemData", counts["leaf"], 6, config=config)
        report.guard("C06.STATIC", D.static_accessor, ctx, report, "C06.STATIC", facts, config)
        report.guard("C06.RELEASE", R.release, ctx, report, "C06.RELEASE", facts, config)
        if config != "nopar":
            # the macro's own source (compiled in every configuration that enables the derive feature)
            report.guard("C06.DERIVESRC", _derive_source, ctx, report, config)
    P.check(ctx, report, "C06.RELEASE", ["forget_guard", "manually_drop_guard", "leak_guard"])
    # derive corpus (probe crate; default features)
    try:
        probe = [f for f in ctx.all_facts("probe") if f.crate == "shred_probe"]
    except Exception as e:
        report.ob("C06.DERIVE", "EXTRACT", False, "probe crate could not be analysed: %s" % str(e)[-300:])
        probe = []
    n = 0
    for f in probe:
        c = D.all_impls(ctx, report, f, "probe", "C06", label_prefix="probe:", only_kinds=("derive",))
        n += c["derive"]
    report.floor("C06.DERIVE", "derive expansions in the probe corpus", n, 19, config="probe")
    if ctx.tier == "thorough":
        m = 0
        for f in ctx.all_facts("all-targets"):
            if f.crate in ("shred", "shred_derive"):
                continue
            c = D.all_impls(ctx, report, f, "all-targets", "C06", label_prefix=f.label.split(":", 1)[1] + ":", only_kinds=("derive",))
            m += c["derive"]
        report.floor("C06.DERIVE", "derive expansions in /repo's tests, examples and benches", m, 10, config="all-targets")
        witness.check(report, "C06.WITNESS", ["W10"])


ENCAPSULATED_NOTE = (" (ENCAPSULATED) The premise of all of these - the crate's own code is the only thing that touches this state - is an obligation "
                     "of its own: no field of the types the state lives in can be named outside the crate (effective visibility), and no function a "
                     "user can call hands out `&mut` to one of them.")
EXPLANATION = EXPLANATION + ENCAPSULATED_NOTE
TECHNIQUE = TECHNIQUE + "; encapsulation inventory on rustc's effective visibilities (fields of state types, `&mut` results of callable functions)"


def run(ctx, report):
    _run_rules(ctx, report)
    from .. import shared as _S
    report.guard("C06.CONFIGS", _S.configurations, ctx, report, "C06.CONFIGS")
    for config in ctx.configs:
        report.guard("C06.ENCAPSULATED", _S.encapsulated, ctx, report, "C06.ENCAPSULATED", ctx.facts(config), config, "C06")
