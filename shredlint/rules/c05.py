"""C05 - Schedule independence: parallel dispatch equals sequential dispatch."""
from .. import anchors as A
from .. import fanout as F
from ..semcov import coverage, Src, SELF
from . import c01

PROP = "C05"
EXPLANATION = (
    "The statement is about run-time equality, which no rule here observes. Its stated mechanism has two structural halves and both "
    "are decided: (C01.*, imported) systems that may overlap have no conflicting access; (SIBLING) everything else is ordered "
    "identically by the two dispatch modes: Stage::execute and Stage::execute_seq have equal traversal skeletons modulo "
    "{rayon for_each <-> for} - same field, whole groups, members full-forward, one run_now(world) - dispatch_par's closure and "
    "dispatch_seq both traverse `stages` full-forward, and (thorough) the skeletons are equal across the four feature configurations. "
    "Equality of world contents and commutation of user code are not decided.")
ASSUMPTIONS = ["user systems depend only on their own state and declared resources (the property's premise)", "rayon for_each semantics"]
TRUSTED = ["rustc nightly MIR construction", "shred-facts driver", "shredlint analyses"]
TECHNIQUE = 'static: sibling comparison of traversal skeletons of Stage::execute / execute_seq and dispatch_par / dispatch_seq (also across feature configurations) + imported C01 obligations'
RULE_TEXT = "one obligation per sibling pair and per imported C01 obligation"


def norm(shape):
    if shape is None:
        return None
    head = shape[0]
    if head.startswith("closure:"):
        return norm(shape[1])
    if head in ("par_for_each", "for_each"):
        head = "for"
    if head == "call":
        name = shape[1]
        name = {"execute": "execute*", "execute_seq": "execute*", "dispatch_par": "dispatch*", "dispatch_seq": "dispatch*"}.get(name, name)
        return ("call", name)
    inner = norm(shape[1])
    if head == "for" and inner and inner[0] == "for":
        return inner  # a loop over groups of a loop over members is the flattened sequence of members
    return (head, inner)


def skeletons(ctx, facts, config):
    prog = ctx.program(facts)
    par = ctx.parallel(config)
    out = {}
    b = F.inh(facts, A.STAGE, "execute_seq")
    out["Stage::execute_seq"] = (b, coverage(prog, b, Src(SELF, ["groups"]), {"run_now"}))
    b = F.inh(facts, A.SD, "dispatch_seq")
    out["SendDispatcher::dispatch_seq"] = (b, coverage(prog, b, Src(SELF, ["stages"]), {"execute_seq"}))
    if par:
        b = F.inh(facts, A.STAGE, "execute")
        out["Stage::execute"] = (b, coverage(prog, b, Src(SELF, ["groups"]), {"run_now"}))
        b = F.inh(facts, A.SD, "dispatch_par")
        out["SendDispatcher::dispatch_par"] = (b, coverage(prog, b, Src(SELF, ["stages"]), {"execute"}))
    return out


def sibling(ctx, report, facts, config, rule="C05.SIBLING"):
    sk = skeletons(ctx, facts, config)
    for name, (b, cov) in sorted(sk.items()):
        report.touched(b, config)
        report.ob(rule, "skeleton/%s" % name, cov.status == "once", "%s: %s" % (cov.shape, cov.detail), site=b.loc(), config=config)
    if ctx.parallel(config):
        for a, b_ in (("Stage::execute", "Stage::execute_seq"), ("SendDispatcher::dispatch_par", "SendDispatcher::dispatch_seq")):
            sa, sb = norm(sk[a][1].shape), norm(sk[b_][1].shape)
            report.ob(rule, "equal/%s~%s" % (a, b_), sa is not None and sa == sb,
                      "both are %s" % (sa,) if sa == sb else "%s is %s but %s is %s: the two dispatch modes order systems differently" % (a, sa, b_, sb),
                      site=sk[a][0].loc(), config=config)
    return dict((k, norm(v[1].shape)) for k, v in sk.items())


def _run_rules(ctx, report):
    per_config = {}
    for config in ctx.configs:
        facts = ctx.facts(config)
        try:
            per_config[config] = sibling(ctx, report, facts, config)
        except Exception as e:  # anchors etc.
            report.guard("C05.SIBLING", sibling, ctx, report, facts, config)
        c01.rules(ctx, report, facts, config, pfx="C05.C01")
    if len(per_config) > 1:
        ref = per_config.get("default")
        for config, sk in sorted(per_config.items()):
            for name, shape in sorted(sk.items()):
                if ref and name in ref:
                    report.ob("C05.SIBLING", "cross-config/%s" % name, shape == ref[name], "skeleton in %s equals the default configuration's" % config, config=config)


ENCAPSULATED_NOTE = (" (ENCAPSULATED) The premise of all of these - the crate's own code is the only thing that touches this state - is an obligation "
                     "of its own: no field of the types the state lives in can be named outside the crate (effective visibility), and no function a "
                     "user can call hands out `&mut` to one of them.")
EXPLANATION = EXPLANATION + ENCAPSULATED_NOTE
TECHNIQUE = TECHNIQUE + "; encapsulation inventory on rustc's effective visibilities (fields of state types, `&mut` results of callable functions)"


def run(ctx, report):
    _run_rules(ctx, report)
    from .. import shared as _S
    report.guard("C05.CONFIGS", _S.configurations, ctx, report, "C05.CONFIGS")
    for config in ctx.configs:
        report.guard("C05.ENCAPSULATED", _S.encapsulated, ctx, report, "C05.ENCAPSULATED", ctx.facts(config), config, "C05")
