"""C08 - World borrows: shared xor exclusive, violations panic, drops release."""
from .. import anchors as A
from .. import worldrules as W
from .. import poolrules as R
from .. import positives as P
from . import c12

PROP = "C08"
EXPLANATION = (
    "The counter protocol is atomic_refcell's (trusted). shred's obligation, decided structurally, is that every path from a shared "
    "&World to a resource goes through it with the right outcome mapping: (GATE) every body that touches World.resources through "
    "&World uses only get/contains_key/is_empty, and the looked-up cell flows only into borrow/try_borrow/borrow_mut/try_borrow_mut "
    "(or out of the unsafe try_fetch_internal, whose callers only borrow); AtomicRefCell::as_ptr is never used, get_mut/into_inner only "
    "under &mut World; (OUTCOME) try_fetch/try_fetch_mut return None only from the None arm of the lookup and turn a refused borrow "
    "into a panic, the by-id forms map the cell through the panicking borrow, fetch/fetch_mut turn absence into a panic; (SIBLING) "
    "shared and exclusive variants have equal skeletons modulo borrow<->borrow_mut; (CLONE) Fetch::clone goes through AtomicRef::clone; "
    "(UNSAFE) the crate's unsafe impls and unsafe fns are exactly the audited ones; (RELEASE) guards own their borrow, have no Drop impl, "
    "are never leaked, and no reference derived from a guard is re-made through a raw pointer, a transmutation or a helper with a free result lifetime "
    "(the only ways a reference to guarded data could outlive the borrow it stands for). Multi-threaded histories (the cell's atomics) are not decided.")
ASSUMPTIONS = ["atomic_refcell implements shared-xor-exclusive with panicking / failing borrows and releases in Drop"]
TRUSTED = ["rustc nightly MIR construction", "shred-facts driver", "shredlint analyses"]
TECHNIQUE = 'static: who-may-touch analysis of World.resources and of looked-up cells, AtomicRefCell API inventory, decision tables of the try_fetch family, shared / exclusive siblings compared on their canonical tabulations, the unsafe escape hatch decided in each function that uses it (helpers in their callers), unsafe item inventory, guard ownership / leak inventory, compile_fail witnesses'
RULE_TEXT = "one obligation per body reaching the resource table, per decision-table row of the fetch functions, per sibling pair, per unsafe item"


def _run_rules(ctx, report):
    for config in ctx.configs:
        facts = ctx.facts(config)
        report.guard("C08.GATE", W.gate, ctx, report, "C08.GATE", facts, config)
        report.guard("C08.OUTCOME", W.outcome, ctx, report, "C08.OUTCOME", facts, config)
        report.guard("C08.SIBLING", W.sibling, ctx, report, "C08.SIBLING", facts, config)
        report.guard("C08.CLONE", W.clone_rule, ctx, report, "C08.CLONE", facts, config)
        report.guard("C08.UNSAFE", W.unsafe_inventory, ctx, report, "C08.UNSAFE", facts, config)
        report.guard("C08.RELEASE", R.release, ctx, report, "C08.RELEASE", facts, config)
    P.check(ctx, report, "C08.GATE", ["cell_as_ptr"])
    P.check(ctx, report, "C08.RELEASE", ["forget_guard", "manually_drop_guard", "leak_guard", "launder_guard"])


ENCAPSULATED_NOTE = (" (ENCAPSULATED) The premise of all of these - the crate's own code is the only thing that touches this state - is an obligation "
                     "of its own: no field of the types the state lives in can be named outside the crate (effective visibility), and no function a "
                     "user can call hands out `&mut` to one of them.")
EXPLANATION = EXPLANATION + ENCAPSULATED_NOTE
TECHNIQUE = TECHNIQUE + "; encapsulation inventory on rustc's effective visibilities (fields of state types, `&mut` results of callable functions)"


def run(ctx, report):
    _run_rules(ctx, report)
    from .. import shared as _S
    report.guard("C08.CONFIGS", _S.configurations, ctx, report, "C08.CONFIGS")
    for config in ctx.configs:
        report.guard("C08.ENCAPSULATED", _S.encapsulated, ctx, report, "C08.ENCAPSULATED", ctx.facts(config), config, "C08")
