"""Rules shared by several properties (SLOT, LOCKSTEP, EXEC inventory, BUILD
wiring).  Each function takes the rule id under which it reports."""
from . import anchors as A
from .facts import Callee, AnchorError
from .paths import enumerate_paths
from .shapes import TRANSPARENT
from .terms import subterms

TABLES = ["ids", "reads", "running_time", "stages", "writes"]
SHAPE_MUTATORS = set([
    "push", "insert", "remove", "swap_remove", "pop", "clear", "truncate", "drain", "retain", "retain_mut", "swap",
    "dedup", "dedup_by", "dedup_by_key", "sort", "sort_by", "sort_by_key", "sort_unstable", "reverse", "rotate_left",
    "rotate_right", "append", "extend", "extend_from_slice", "split_off", "resize", "resize_with", "set_len",
    "try_push", "push_unchecked", "insert_many", "take", "replace", "swap_with_slice", "fill",
])


def callee_at(body, bb):
    return Callee(body.blocks[bb]["term"]["func"])


def table_access(body, t):
    """Describe a place-like term: ([(adt, field), ...] from the base outward,
    [index terms in order], base term)."""
    fields = []
    idx = []
    while isinstance(t, tuple) and t:
        k = t[0]
        if k == "cast":
            t = t[2]
        elif k == "field":
            if t[3] and t[3] != "tuple":
                fields.append((t[3], t[2]))
            t = t[1]
        elif k == "index":
            idx.append(t[2])
            t = t[1]
        elif k in ("variant", "proj"):
            t = t[1]
        elif k == "call":
            c = callee_at(body, t[1])
            if c.name in ("index", "index_mut") and len(t[2]) == 2 and not c.local:
                idx.append(t[2][1])
                t = t[2][0]
            elif c.name in ("get", "get_mut", "get_unchecked", "get_unchecked_mut") and len(t[2]) == 2 and not c.local:
                idx.append(t[2][1])
                t = t[2][0]
            elif c.name in TRANSPARENT and t[2] and not c.local:
                t = t[2][0]
            else:
                break
        else:
            break
    fields.reverse()
    idx.reverse()
    return fields, idx, t


def crate_fields(fields, crate="shred"):
    return [(a, f) for a, f in fields if a.startswith(crate + "::")]


# ------------------------------------------------------------------ SLOT

def _is_accessor_call(body, t, which):
    if not (isinstance(t, tuple) and t and t[0] == "call"):
        return False
    c = callee_at(body, t[1])
    return c.trait == A.T_ACCESSOR and c.name == which


def slot(ctx, report, rule, facts, config):
    """C01.SLOT / C04.INSERT: on every normal path of StagesBuilder::insert the boxed system, its id, its access
    sets and its running time are written exactly once each, all at the same (stage, group) slot, and that slot is
    the one the insertion target denotes.  Stated over the structured evaluation: helpers are looked into, the
    order of independent statements and the spelling of the match do not matter."""
    from . import semq as Q
    from . import placement as PL
    body = facts.one(A.SB + "::insert")
    report.touched(body, config)
    ev, ends = Q.sem(ctx, facts, A.SB + "::insert", opaque=PL.OPAQUE_INS)
    it_body = facts.one(A.SB + "::insertion_target")
    rets = [e for e in ends if e.kind == "return"]
    seen_variants = set()
    n_paths = 0

    def is_acc(t, which):
        t = Q.strip(ev, t, extra=("into_iter",))
        c = Q.callee_of(ev, t)
        return c is not None and c.trait == A.T_ACCESSOR and c.name == which

    for e in rets:
        events = Q.fold_extend_loops(ev, e.path.events)   # `for x in new { if !list.contains(&x) { list.push(x) } }` is an extend
        its = [x for x in events if x[0] == "call" and x[2].key == it_body.key]
        if len(its) != 1:
            report.ob(rule, "path-not-decided-by-target", False, "a normal path of insert asks insertion_target %d times" % len(its), site=body.loc(), config=config)
            continue
        it_call = its[0][4]
        v = e.path.variant(it_call)
        if v is None or "|" in v:
            report.ob(rule, "path-not-decided-by-target", False, "a normal path of insert does not branch on the insertion target", site=body.loc(), config=config)
            continue
        n_paths += 1
        variant = v
        seen_variants.add(variant)
        inst = "insert/%s" % variant
        writes = {}
        order = []
        problems = []
        if any(x[0] == "loop" for x in events):
            problems.append("insert loops")
        for pos, x in enumerate(events):
            if x[0] == "call":
                _, site, c, args, val = x
                order.append((pos, c.name, args))
                if c.local or not args:
                    continue
                fields, idx, base = Q.table_access(ev, args[0])
                cf = Q.crate_fields(fields)
                if not cf or cf[0][0] != A.SB or base != ("param", 1):
                    continue
                if c.name in ("index", "index_mut", "len", "iter", "is_empty", "deref", "deref_mut", "get", "get_mut", "as_ref", "as_mut", "borrow"):
                    continue
                tab = cf[0][1]
                if tab not in TABLES:
                    continue
                writes.setdefault(tab, []).append((pos, c.name, idx, args[1:] if len(args) > 1 else (), site))
            elif x[0] == "store":
                _, site, place, val = x
                if place[0] == "cell":
                    continue
                fields, idx, base = Q.table_access(ev, place)
                cf = Q.crate_fields(fields)
                if cf and cf[0][0] == A.SB and base == ("param", 1) and cf[0][1] in TABLES:
                    writes.setdefault(cf[0][1], []).append((pos, "store", idx, (val,), site))
        slots = {}
        for tab in TABLES:
            w = writes.get(tab, [])
            if len(w) != 1:
                problems.append("table `%s` is written %d time(s) on this path (expected exactly 1)" % (tab, len(w)))
                continue
            pos, op, idx, vals, site = w[0]
            if len(idx) != 2:
                problems.append("write to `%s` at %s uses %d index level(s) (expected [stage][group])" % (tab, ev.loc(site), len(idx)))
                continue
            slots[tab] = (Q.strip(ev, idx[0]), Q.strip(ev, idx[1]), op, vals, site, pos)
        if len(slots) == len(TABLES):
            s0, g0 = slots["stages"][0], slots["stages"][1]
            for tab in TABLES:
                s_, g_ = slots[tab][0], slots[tab][1]
                if s_ != s0 or g_ != g0:
                    problems.append("`%s` is written at a different (stage, group) than the boxed system (%s)" % (tab, ev.loc(slots[tab][4])))
            op, vals = slots["stages"][2], slots["stages"][3]
            boxed = vals[0] if vals else None
            while isinstance(boxed, tuple) and boxed and boxed[0] == "cast":
                boxed = boxed[2]
            bc = Q.callee_of(ev, boxed)
            if not (op == "push" and bc is not None and bc.name == "new" and "Box" in bc.path and boxed[2] == (("param", 4),)):
                problems.append("the value pushed into the executed layout is not Box::new(system) appended with `push`")
            op, vals = slots["ids"][2], slots["ids"][3]
            if not (op == "push" and vals and vals[0] == ("param", 3)):
                problems.append("the id table does not receive the `id` parameter by `push`")
            op, vals = slots["reads"][2], slots["reads"][3]
            if not (op == "extend" and vals and is_acc(vals[0], "reads")):
                problems.append("accumulated reads are not extended with the system's declared reads")
            op, vals = slots["writes"][2], slots["writes"][3]
            if not (op == "extend" and vals and is_acc(vals[0], "writes")):
                problems.append("accumulated writes are not extended with the system's declared writes")
            # the same vectors were judged by insertion_target
            a = it_call[2]
            roles = []
            for x in a:
                if Q.strip(ev, x) == ("param", 1):
                    roles.append("SELF")
                elif is_acc(x, "reads"):
                    roles.append("R")
                elif is_acc(x, "writes"):
                    roles.append("W")
                elif Q.strip(ev, x) == ("param", 2):
                    roles.append("DEP")
                else:
                    roles.append("-")
            if not (roles.count("SELF") == 1 and roles.count("R") == 1 and roles.count("W") == 1 and roles.count("DEP") == 1):
                problems.append("insertion_target is not called with (self, declared reads, declared writes, dep)")
            else:
                jr = Q.strip(ev, a[roles.index("R")], extra=("into_iter",))
                jw = Q.strip(ev, a[roles.index("W")], extra=("into_iter",))
                if jr != Q.strip(ev, slots["reads"][3][0], extra=("into_iter",)) or jw != Q.strip(ev, slots["writes"][3][0], extra=("into_iter",)):
                    problems.append("the access sets judged by insertion_target are not the ones accumulated")
            # slot vs. target
            n_add_stage = [pos for pos, n, _ in order if n == "add_stage"]
            n_add_group = [(pos, a_) for pos, n, a_ in order if n == "add_group"]

            def pos_of(t):
                for pos, x in enumerate(events):
                    if x[0] == "call" and x[4] == t:
                        return pos
                return None

            LEVEL_TABLES = ("ids", "reads", "writes", "running_time", "stages")

            def fresh_index(t, idx_want, grow_pos):
                """`t` is the index of the element the growing call at event position grow_pos appends to one of the tables
                that grow in lockstep, at the level given by idx_want ([] = the stage lists, [stage] = the group lists of
                that stage): the length read before the call, or the length read after it minus one."""
                from .sem import _is_decr
                cands = []
                for pos, x in enumerate(events):
                    if x[0] == "call" and x[2].name == "len" and not x[2].local and x[3]:
                        f_, i_, b_ = Q.table_access(ev, x[3][0])
                        cf_ = Q.crate_fields(f_)
                        if b_ == ("param", 1) and cf_ and cf_[0] == (A.SB, cf_[0][1]) and cf_[0][1] in LEVEL_TABLES and [Q.strip(ev, i) for i in i_] == idx_want \
                                and (len(cf_) == 1 or (cf_[0][1] == "stages" and cf_[1:] == [(A.STAGE, "groups")] and idx_want)):
                            if len(cf_) == 1 and cf_[0][1] == "stages" and idx_want:
                                continue   # stages[stage] itself has no length of groups without `.groups`
                            cands.append((pos, x[4]))
                for pos, lt in cands:
                    if t == lt and pos < grow_pos:
                        return True
                    if _is_decr(t, lt) and pos > grow_pos:
                        return True
                # the growing call itself may hand back the position of what it appended
                gx = events[grow_pos]
                if gx[0] == "call" and t == gx[4] and gx[2].name in ("add_group", "add_stage") and _returns_appended_index(ctx, facts, gx[2].name):
                    return True
                return False

            if variant == "Group":
                if s0 != ("field", ("variant", it_call, "Group"), "0", A.TARGET) or g0 != ("field", ("variant", it_call, "Group"), "1", A.TARGET):
                    problems.append("Group(stage, group) target: the slot written is not (target.0, target.1)")
                if n_add_stage or n_add_group:
                    problems.append("Group target must not add a stage or group")
            elif variant == "Stage":
                if s0 != ("field", ("variant", it_call, "Stage"), "0", A.TARGET):
                    problems.append("Stage(stage) target: stage index written is not target.0")
                okg = bool(n_add_group) and fresh_index(g0, [s0], n_add_group[0][0])
                if not okg:
                    problems.append("Stage target: group index is not the position of the group that add_group appends (len(ids[stage]) before it, or len - 1 after it)")
                if n_add_stage or len(n_add_group) != 1 or tuple(Q.strip(ev, i) for i in n_add_group[0][1][1:]) != (s0,):
                    problems.append("Stage target: expected exactly one add_group(stage) and no add_stage")
            elif variant == "NewStage":
                oks = bool(n_add_stage) and fresh_index(s0, [], n_add_stage[0])
                if not oks:
                    problems.append("NewStage: stage index is not the position of the stage that add_stage appends (len(stages) before it, or len - 1 after it)")
                g_ok = g0 == ("int", 0)
                if not g_ok and n_add_stage and n_add_group and _add_stage_pushes_empty(ctx, facts):
                    g_ok = fresh_index(g0, [s0], n_add_group[0][0])
                if not g_ok and Q.is_call(ev, g0, "len") and n_add_stage and n_add_group:
                    # `ids[stage].len()` measured after add_stage pushed the new (empty) group list and before add_group
                    f_, i_, b_ = Q.table_access(ev, g0[2][0])
                    g_ok = (Q.crate_fields(f_) == [(A.SB, "ids")] and [Q.strip(ev, i) for i in i_] == [s0] and pos_of(g0) is not None
                            and n_add_stage[0] < pos_of(g0) < n_add_group[0][0] and _add_stage_pushes_empty(ctx, facts))
                if not g_ok:
                    problems.append("NewStage: group index is not 0")
                if len(n_add_stage) != 1 or len(n_add_group) != 1 or tuple(Q.strip(ev, i) for i in n_add_group[0][1][1:]) != (s0,) or not n_add_stage[0] < n_add_group[0][0]:
                    problems.append("NewStage: expected add_stage() then add_group(stage) exactly once each")
            else:
                problems.append("unknown insertion target variant %s" % variant)
        report.ob(rule, inst, not problems, "; ".join(problems) if problems else
                  "five tables written once each at the slot denoted by the target; box = Box::new(system), id, declared reads/writes", site=body.loc(), config=config)
    report.floor(rule, "normal paths of insert", n_paths, 3, config=config)
    for v in ("Stage", "Group", "NewStage"):
        if v not in seen_variants:
            report.ob(rule, "insert/%s" % v, False, "no normal path of insert handles InsertionTarget::%s" % v, site=body.loc(), config=config)


# ------------------------------------------------------------------ LOCKSTEP

def lockstep(ctx, report, rule, facts, config):
    """The five builder tables (and Stage.groups) change shape only in the
    listed constructors, one append per table per call."""
    prog = ctx.program(facts)
    add_stage = facts.one(A.SB + "::add_stage")
    add_group = facts.one(A.SB + "::add_group")
    insert = facts.one(A.SB + "::insert")
    allowed = {}  # (body key, table, level) -> op
    found = {}
    n_mut = 0
    helper_cone = facts.cone([add_stage, add_group, insert], stop=lambda x: x.qname == A.SB + "::insertion_target")
    for b in sorted(facts.bodies.values(), key=lambda b: b.key):
        bt = prog.bt(b)
        for bb, t in b.normal_calls():
            c = Callee(t["func"])
            if c.local or c.name not in SHAPE_MUTATORS:
                continue
            args = bt.call_args(bb)
            hits = []
            for ai, a in enumerate(args[:2] if c.name in ("take", "replace", "swap", "append") else args[:1]):
                fields, idx, base = table_access(b, a)
                cf = crate_fields(fields)
                if not cf:
                    continue
                adt, fld = cf[-1]
                tab = None
                level = len(idx)
                if adt == A.SB and fld in TABLES and len(cf) == 1:
                    tab = fld
                elif adt == A.STAGE and fld == "groups":
                    tab = "stages"
                    # stages[s].groups[g]: one index belongs to the outer Vec when reached through the builder
                    if len(cf) >= 2 and cf[-2] == (A.SB, "stages"):
                        pass
                    else:
                        level = len(idx) + 1
                if tab is not None:
                    hits.append((tab, level))
            for tab, level in hits:
                n_mut += 1
                inst = "%s/%s[level %d].%s" % (b.qname, tab, level, c.name)
                ok = False
                if b.key == add_stage.key and level == 0 and c.name == "push":
                    ok = True
                    found.setdefault(("add_stage", tab), []).append(bb)
                elif b.key == add_group.key and level == 1 and c.name == "push":
                    ok = True
                    found.setdefault(("add_group", tab), []).append(bb)
                elif b.key == insert.key and level == 2 and ((tab in ("ids", "stages") and c.name == "push") or (tab in ("reads", "writes") and c.name == "extend")):
                    ok = True
                    found.setdefault(("insert", tab), []).append(bb)
                if not ok and b.key in helper_cone and not b.api and b.key not in (add_stage.key, add_group.key, insert.key):
                    # a private helper of the three constructors: what it appends is counted where the constructor is evaluated
                    ok = True
                    found.setdefault(("helper", tab), []).append(bb)
                report.ob(rule, inst, ok, "shape of the lock-step table `%s` (level %d) changed by `%s` in %s" % (tab, level, c.name, b.qname) if not ok
                          else "constructor append", site=b.loc(bb), config=config)
    report.touched(add_stage, config)
    report.touched(add_group, config)
    from . import semq as Q
    n_decided = 0
    for ctor, body_ in (("add_stage", add_stage), ("add_group", add_group)):
        ev, ends = Q.sem(ctx, facts, body_)
        rets = [e for e in ends if e.kind == "return"]
        for tab in TABLES:
            cnts = set()
            idx_ok = True
            for e in rets:
                n = 0
                stack = list(e.path.events)
                looped = False
                for x in stack:
                    if x[0] == "loop":
                        looped = True
                    if x[0] != "call" or x[2].local or x[2].name not in SHAPE_MUTATORS or not x[3]:
                        continue
                    fields, idx, base = Q.table_access(ev, x[3][0])
                    cf = Q.crate_fields(fields)
                    if not cf or base != ("param", 1):
                        continue
                    hit = None
                    if cf[0] == (A.SB, tab) and len(cf) == 1:
                        hit = idx
                    elif tab == "stages" and cf == [(A.SB, "stages"), (A.STAGE, "groups")]:
                        hit = idx
                    if hit is None:
                        continue
                    if x[2].name != "push":
                        n += 100
                        continue
                    if ctor == "add_stage" and cf == [(A.SB, tab)] and not hit:
                        n += 1
                    elif ctor == "add_group" and ((cf == [(A.SB, tab)] and tab != "stages") or cf == [(A.SB, "stages"), (A.STAGE, "groups")]) and len(hit) == 1:
                        n += 1
                        if Q.strip(ev, hit[0]) != ("param", 2):
                            idx_ok = False
                    else:
                        n += 100
                cnts.add(n + (100 if looped else 0))
            n_decided += 1 if cnts == set([1]) else 0
            report.ob(rule, "%s/%s" % (ctor, tab), cnts == set([1]),
                      "%s appends to `%s` %s time(s) per call (expected exactly 1 on every path)" % (ctor, tab, sorted(cnts)), site=body_.loc(), config=config)
            if ctor == "add_group":
                report.ob(rule, "add_group/index/%s" % tab, idx_ok, "add_group appends to %s[stage] with the `stage` parameter" % tab if idx_ok else
                          "add_group appends to %s at another index than the `stage` parameter" % tab, site=body_.loc(), config=config)
    # what excludes a vacuous pass is the ten (constructor, table) obligations above, each of which needs exactly one append on
    # every way; where the appends are written (in the constructor, in a helper, behind a private trait) does not matter
    report.floor(rule, "(constructor, table) appends decided", n_decided, 10, config=config)
    # moves out of the tables: only StagesBuilder::build may move `stages` out
    n_moves = 0
    for b in sorted(facts.bodies.values(), key=lambda b: b.key):
        for blk_i, blk in enumerate(b.blocks):
            if blk["cleanup"]:
                continue
            for st in blk["stmts"]:
                if st["k"] != "assign":
                    continue
                rv = st["rv"]
                if rv["k"] == "use" and rv["op"]["k"] == "move":
                    pl = rv["op"]["place"]
                    for e in pl["p"]:
                        if e["k"] == "field" and e.get("adt") == A.SB and e.get("name") in TABLES and pl["p"][-1] is e:
                            n_moves += 1
                            ok = b.qname == A.SB + "::build" and e["name"] == "stages" and _build_returns_stages(ctx, facts)
                            report.ob(rule, "move-out/%s/%s" % (b.qname, e["name"]), ok,
                                      "`%s` is moved out of the builder in %s" % (e["name"], b.qname) if not ok else "build returns the stage list unchanged",
                                      site=b.loc(blk_i), config=config)
    report.floor(rule, "moves of builder tables", n_moves, 1, config=config)


def _add_stage_pushes_empty(ctx, facts):
    """What add_stage appends to the id table is a freshly created, empty group list."""
    from . import semq as Q
    try:
        ev, ends = Q.sem(ctx, facts, A.SB + "::add_stage")
    except Exception:
        return False
    rets = [e for e in ends if e.kind == "return"]
    ok = bool(rets)
    for e in rets:
        ps = [x for x in e.path.events if x[0] == "call" and x[2].name == "push" and not x[2].local and x[3]
              and Q.crate_fields(Q.table_access(ev, x[3][0])[0]) == [(A.SB, "ids")] and not Q.table_access(ev, x[3][0])[1]]
        if len(ps) != 1:
            return False
        v = Q.strip(ev, ps[0][3][1])
        c = Q.callee_of(ev, v)
        ok = ok and c is not None and c.name in ("new", "default") and not v[2]
    return ok


def _build_returns_stages(ctx, facts):
    """StagesBuilder::build hands out exactly the stage list it accumulated."""
    from . import semq as Q
    try:
        ev, ends = Q.sem(ctx, facts, A.SB + "::build")
    except Exception:
        return False
    rets = [e for e in ends if e.kind == "return"]
    return bool(rets) and all(Q.strip(ev, e.ret) == ("field", ("param", 1), "stages", A.SB) for e in rets) and not [e for e in ends if e.kind == "diverge"]


# ------------------------------------------------------------------ pool-crossing inventory

POOL_CROSSING = set(["install", "spawn", "join", "scope", "in_place_scope", "spawn_fifo", "scope_fifo", "broadcast", "spawn_broadcast",
                     "for_each", "for_each_with", "for_each_init", "try_for_each", "par_bridge", "par_iter", "par_iter_mut", "into_par_iter"])


def pool_calls(facts):
    out = []
    for b in sorted(facts.bodies.values(), key=lambda b: b.key):
        for bb, t in b.normal_calls():
            c = Callee(t["func"])
            if c.crate in ("rayon", "rayon_core") or (c.trait or "").startswith("rayon::"):
                out.append((b, bb, c))
    return out


def _crossings(ev, events, out, in_loop=False):
    """Pool-crossing operations met on one way: (kind, site, pool term or None, inside a loop?)."""
    for x in events:
        if x[0] == "once":
            out.append((x[2], x[1], x[3], in_loop))
        elif x[0] == "loop":
            L = x[1]
            if L.kind == "model:par_for_each":
                out.append(("par_for_each", L.site, None, in_loop))
            for it in L.iters:
                _crossings(ev, it.path.events, out, True)
        elif x[0] == "call":
            c = x[2]
            if getattr(c, "crate", None) in ("rayon", "rayon_core") or (getattr(c, "trait", None) or "").startswith("rayon::"):
                if c.name in ("par_iter", "par_iter_mut", "into_par_iter"):
                    continue    # the parallel iterator itself: counted where it is consumed
                out.append((("ThreadPoolBuilder::" + c.name) if "ThreadPoolBuilder" in c.path else c.name, x[1], None, in_loop))
    return out


def owned_by(facts, b, owner_keys, _seen=frozenset()):
    """`b` is one of the owner bodies (or a closure of one), or a helper that is reached only through them: every chain of
    callers ends in an owner before it ends in a function nobody in the crate calls."""
    if b.is_closure and b.root_key:
        b = facts.bodies.get(b.root_key, b)
    if b.key in owner_keys:
        return True
    if b.key in _seen or b.api:
        return False
    cs = facts.callers().get(b.key, [])
    if not cs:
        return False
    return all(owned_by(facts, cb, owner_keys, _seen | set([b.key])) for cb, bb in cs)


def pool_entries(facts, parallel):
    """The audited places where work crosses to the pool: (body, {kind: times per way})."""
    out = []
    if parallel:
        out.append((facts.one(A.SD + "::dispatch_par"), {"install": 1}))
        out.append((facts.one(A.STAGE + "::execute"), {"par_for_each": 1}))
        out.append((facts.one(A.AD + "::dispatch"), {"spawn": 1}))
        out.append((facts.one(name="run", trait=A.T_RUNWITHPOOL, self_head=A.PAR), {"join": 1, "current_thread_index": 1}))
        out.append((facts.one(A.DB + "::create_thread_pool"), {"ThreadPoolBuilder::new": 1, "ThreadPoolBuilder::build": 1}))
    return out


def pool_inventory(ctx, report, rule, facts, config, crossing_only=False):
    """Work crosses to the pool only in the audited entry points: every rayon call lies in one of them or in a helper
    that only they reach, and on every way through an entry point the crossing happens exactly as often as audited.
    crossing_only: ignore pool *configuration* calls (ThreadPoolBuilder), which are C11's business."""
    from . import semq as Q
    parallel = ctx.parallel(config)
    entries = pool_entries(facts, parallel)
    ekeys = dict((b.key, b) for b, _ in entries)
    callers = facts.callers()

    def root(b):
        return facts.bodies.get(b.root_key, b) if b.is_closure and b.root_key else b

    def owners(b, seen):
        b = root(b)
        if b.key in ekeys:
            return set([b.key])
        if b.key in seen:
            return set()
        seen = seen | set([b.key])
        cs = callers.get(b.key, [])
        if not cs:
            return set([None])
        out = set()
        for cb, bb in cs:
            out |= owners(cb, seen)
        return out

    sites = pool_calls(facts)
    n = 0
    for b, bb, c in sites:
        if crossing_only and "ThreadPoolBuilder" in c.path:
            continue
        n += 1
        if c.name not in POOL_CROSSING and "ThreadPoolBuilder" not in c.path:
            continue    # asking rayon something (current_num_threads, current_thread_index) moves no work anywhere
        ow = owners(b, frozenset())
        ok = bool(ow) and None not in ow
        if not ok and c.name == "install":
            # `install` runs its closure once, on the pool, and returns when it is done: it adds no concurrency of its own.
            # Outside the audited entry points it is fine where, on every way through the function, nothing else crosses to
            # a pool (the audited entry points it may call are looked at by their own rows) and the pool is the
            # dispatcher's own.
            r = root(b)
            why = None
            try:
                ev, ends = Q.sem(ctx, facts, r, opaque=list(ekeys))
                for e in ends:
                    for kind, site, pool, in_loop in _crossings(ev, e.path.events, []):
                        if kind != "install":
                            why = "it also crosses to a pool through `%s`" % kind
                        elif pool is None or not any(o[0] == "field" and o[2] == "thread_pool" for o in Q.origins(ev, pool)):
                            why = "the pool it installs on does not come from a `thread_pool` field"
            except Exception as ex:
                why = "not evaluated (%s)" % ex
            if why is None:
                report.ob(rule, "rayon/%s/%s" % (r.qname, c.name), True, "an `install` on the dispatcher's own pool around code that crosses to no pool by itself", site=b.loc(bb), config=config)
                continue
        if not ok:
            report.ob(rule, "rayon/%s/%s" % (root(b).qname, c.name), False,
                      "rayon `%s` is called in %s, which is reachable without going through an audited pool entry point" % (c.name, b.qname), site=b.loc(bb), config=config)
    report.ob(rule, "rayon/owned", True, "%d rayon call site(s) looked at" % n, config=config)
    if not parallel:
        report.ob(rule, "rayon/none-without-parallel", not sites, "no rayon call without the `parallel` feature", config=config)
        return
    report.floor(rule, "rayon call sites", n, 7 if crossing_only else 9, config=config)
    for b, want in entries:
        if crossing_only and b.name == "create_thread_pool":
            continue
        report.touched(b, config)
        ev, ends = Q.sem(ctx, facts, b, opaque=[k for k in ekeys if k != b.key])
        pr = []
        rets = Q.returns(ends)
        if not rets:
            pr.append("no way through returns")
        for e in rets:
            got = {}
            for kind, site, pool, in_loop in _crossings(ev, e.path.events, []):
                got[kind] = got.get(kind, 0) + (2 if in_loop else 1)
            if got != want:
                pr.append("a way through crosses to the pool as %s (audited: %s)" % (sorted(got.items()), sorted(want.items())))
        report.ob(rule, "rayon/%s" % b.qname, not pr, "every way through: %s" % sorted(want.items()) if not pr else "; ".join(sorted(set(pr))), site=b.loc(), config=config)


# ------------------------------------------------------------------ chaining twins of the builder

def chaining(ctx, report, rule, facts, config, pairs):
    """`with_x(self, a, b) -> Self` is `add_x(&mut self, a, b)` and `self`: on every way through, exactly one call of the twin,
    on the builder itself, with the wrapper's own arguments in order - or what the caller asked to register is not what the
    rules about `add_x` are about."""
    from . import semq as Q
    n = 0
    for w, t in pairs:
        wb = facts.maybe(qname=A.DB + "::" + w) if hasattr(facts, "maybe") else None
        if wb is None:
            continue
        tb = facts.one(A.DB + "::" + t)
        n += 1
        report.touched(wb, config)
        ev, ends = Q.sem(ctx, facts, wb, opaque=[tb.key])
        rets = Q.returns(ends)
        pr = []
        if not rets:
            pr.append("no way through returns")
        argc = wb.raw.get("arg_count", 0)
        for e in rets:
            cs = Q.calls_in(e.path.events, lambda c: c.key == tb.key or c.resolved_key == tb.key, deep=True)
            if len(cs) != 1:
                pr.append("%s is called %d time(s) on a way through" % (t, len(cs)))
                continue
            args = [Q.strip(ev, a) for a in cs[0][3]]
            if args != [("param", i) for i in range(1, argc + 1)]:
                pr.append("%s is not given the builder and the wrapper's own arguments in order" % t)
            if e.ret is None or ("param", 1) not in Q.origins(ev, e.ret):
                pr.append("the builder is not what is returned")
        if pr:
            # not a call of the twin: then the same thing done in place - with the twin looked into, and nothing else, the
            # wrapper does on every way what the twin does, and hands the builder back
            try:
                from .semcanon import canonical
                ev1, ends1 = Q.sem(ctx, facts, wb, only=[tb.key])
                ev2, ends2 = Q.sem(ctx, facts, tb, only=[])
                c1, c2 = canonical(ev1, ends1), canonical(ev2, ends2)
                same = set(x[:3] for x in c1) == set(x[:3] for x in c2) and all(x[3] == "('param', 1)" for x in c1 if x[0] == "return") and any(x[0] == "return" for x in c1)
                if same:
                    pr = []
            except Exception:
                pass
        report.ob(rule, "chain/%s" % w, not pr, "%s(self, ..) = %s(&mut self, ..); self" % (w, t) if not pr else "%s: %s" % (w, "; ".join(sorted(set(pr)))), site=wb.loc(), config=config)
    return n


# ------------------------------------------------------------------ ENCAPSULATION

# whose state the rules of a property take the crate's own code for the only writer of
STATE_OF = {
    "C01": [A.SB, A.DB, A.STAGE, A.SD, A.DISP], "C02": [A.SB, A.DB, A.STAGE, A.SD], "C03": [A.SB, A.DB, A.STAGE, A.SD, A.DISP],
    "C04": [A.SB, A.DB, A.STAGE, A.SD, A.DISP, A.BCS, A.MD], "C05": [A.SB, A.DB, A.STAGE, A.SD, A.DISP],
    "C06": [A.READ, A.WRITE, A.FETCH, A.FETCHMUT], "C07": [A.BCS, A.BACC, A.SB, A.DB],
    "C08": [A.WORLD, A.FETCH, A.FETCHMUT, A.READ, A.WRITE, A.ENTRY], "C09": [A.WORLD, A.RESID, A.ENTRY, A.FETCH, A.FETCHMUT],
    "C10": [A.SB, A.DB, A.STAGE], "C11": [A.SD, A.DISP, A.DB, A.STAGE, A.AD], "C12": [A.DISP, A.DB, A.AD, A.SD],
    "C13": [A.DISP, A.SD, A.STAGE, A.BCS, A.AD], "C14": [A.DISP, A.SD, A.STAGE, A.BCS, A.FETCH, A.FETCHMUT],
    "C15": [A.AD, A.AD_DATA, A.AD_INNER], "C16": [A.PAR, A.SEQ, A.PARSEQ], "C17": [A.METATABLE, A.METAITER, A.METAITERMUT],
    "C18": [A.DB, A.SB], "C19": [A.DB, A.SB, A.RESID, A.SYSID], "C20": [A.DB, A.SB, A.SYSID],
}


def encapsulated(ctx, report, rule, facts, config, prop):
    """Every rule here reasons about the crate's own code as the only thing that reads or writes the state it is about.  That
    holds only while no field of that state can be named by a user of the crate (a field a user can reach - public itself, in a
    type that is, through whatever re-export - can be assigned, moved out, reordered or rebuilt with a struct literal in safe code)."""
    n = 0
    parallel = ctx.parallel(config)
    par_only = (A.AD, A.AD_DATA, A.AD_INNER, A.PAR, A.SEQ, A.PARSEQ)
    if not parallel and all(p_ in par_only for p_ in STATE_OF[prop]):
        report.note("config %s: the types this property's state lives in exist only with the `parallel` feature" % config)
        return
    for path in STATE_OF[prop]:
        adt = facts.adts.get(path)
        if adt is None:
            if not parallel and path in par_only:
                continue
            report.ob(rule, "ANCHOR/%s" % path, False, "type %s not found" % path, config=config)
            continue
        for v in adt["variants"]:
            for f in v["fields"]:
                n += 1
                exposed = bool(f.get("exported")) if "exported" in f else bool(f.get("pub") and adt.get("pub"))
                if exposed:
                    report.ob(rule, "exposed/%s.%s" % (path.rsplit("::", 1)[-1], f["name"]), False,
                              "field `%s` of %s (%s) can be named outside the crate: users can read, replace or rearrange what the rules of this property take the crate's own code for the only writer of" % (
                                  f["name"], path, f["ty"][:60]), site="%s:%d" % (adt["span"]["file"], adt["span"]["line"]), config=config)
    report.ob(rule, "fields-private", True, "%d field(s) of the types this property's state lives in looked at" % n, config=config)
    report.floor(rule, "fields of the state types", n, 2, config=config)
    # the same through functions: nothing a user can call hands out exclusive access to a value of a state type (an
    # `IndexMut` / `DerefMut` / `as_mut` onto a part of a dispatcher is a public field by another name), and the lock around
    # the pool slot stays the crate's own
    import re
    m = 0
    slot_props = ("C11", "C14")
    for b in sorted(facts.bodies.values(), key=lambda b: b.key):
        if b.is_closure or not b.api:
            continue
        m += 1
        ret = b.locals[0]["ty"] if b.locals else ""
        if "&mut " in ret or "&'" in ret and " mut " in ret:
            for path in STATE_OF[prop]:
                if re.search(re.escape(path) + r"($|[<>,\s\)\]])", ret):
                    report.ob(rule, "handed-out/%s" % b.qname, False,
                              "%s returns `%s`: exclusive access to a %s for whoever calls it - they can replace, take or rearrange what the rules of this property take the crate's own code for the only writer of" % (
                                  b.qname, ret[:80], path.rsplit("::", 1)[-1]), site=b.loc(), config=config)
                    break
        if prop in slot_props:
            tys = [l["ty"] for l in b.locals[:1 + b.raw.get("arg_count", 0)]]
            if any("RwLock<" in t and "ThreadPool" in t for t in tys):
                report.ob(rule, "slot-shared/%s" % b.qname, False,
                          "%s takes or returns the lock around the pool slot: whoever holds a clone can take the write lock (or panic holding it) while a dispatch reads it" % b.qname,
                          site=b.loc(), config=config)
    report.ob(rule, "nothing-handed-out", True, "%d function(s) a user can call looked at" % m, config=config)
    report.floor(rule, "functions a user can call", m, 50, config=config)


# ------------------------------------------------------------------ what the analysed configurations cover

AUDITED_FEATURES = set(["default", "parallel", "nightly", "shred-derive", "rayon"])
CFG_ATOMS = set(["test", "debug_assertions", "rustfmt", "doc", "not", "all", "any", "feature"])


def configurations(ctx, report, rule):
    """The rules look at the crate as compiled in four feature configurations.  Code behind any other switch (a new cargo feature,
    a new optional dependency, a cfg on the target or on a custom flag) is compiled in none of them and seen by no rule: such a
    switch is reported, whatever the code behind it does."""
    import os
    import re
    from .extract import REPO
    feats = set()
    try:
        text = open(os.path.join(REPO, "Cargo.toml")).read()
    except Exception as e:
        report.ob(rule, "Cargo.toml", False, "cannot read the manifest: %s" % e)
        return
    sect = None
    for line in text.splitlines():
        line = line.split("#", 1)[0].rstrip()
        m = re.match(r"^\[+([^\]]+)\]+\s*$", line.strip())
        if m:
            sect = m.group(1).strip()
            continue
        m = re.match(r"^([A-Za-z0-9_\-]+)\s*=\s*(.*)$", line.strip())
        if not m:
            continue
        if sect == "features":
            feats.add(m.group(1))
        elif sect in ("dependencies", "build-dependencies") or (sect or "").startswith("target."):
            if re.search(r"optional\s*=\s*true", m.group(2)):
                feats.add(m.group(1))
            # the trusted base names crates of the registry (atomic_refcell's counter protocol, rayon's join / install /
            # for_each, the std-like containers): the same name pointing somewhere else is not what was trusted
            if m.group(1) != "shred-derive" and re.search(r"\b(path|git|package|registry)\s*=", m.group(2)):
                report.ob(rule, "dependency/%s" % m.group(1), False, "dependency `%s` is redirected (%s): the trusted base names the registry crate" % (m.group(1), m.group(2)[:60]), site="Cargo.toml")
        if sect and (sect.startswith("patch") or sect.startswith("replace")):
            report.ob(rule, "dependency/%s" % sect, False, "section [%s] replaces a dependency: the trusted base names the registry crates" % sect, site="Cargo.toml")
    for f in sorted(feats | AUDITED_FEATURES):
        if f in feats:
            report.ob(rule, "feature/%s" % f, f in AUDITED_FEATURES, "covered by the analysed configurations" if f in AUDITED_FEATURES else
                      "cargo feature `%s` is switched on in none of the analysed configurations: the code behind it is seen by no rule" % f, site="Cargo.toml")
    n = 0
    for root in ("src", os.path.join("shred-derive", "src")):
        for dp, dn, fns in os.walk(os.path.join(REPO, root)):
            for fn in sorted(fns):
                if not fn.endswith(".rs"):
                    continue
                path = os.path.join(dp, fn)
                src = open(path, errors="replace").read()
                for m in re.finditer(r"cfg(?:_attr|!)?\s*\(", src):
                    depth, i = 1, m.end()
                    while i < len(src) and depth:
                        depth += src[i] == "("
                        depth -= src[i] == ")"
                        i += 1
                    pred = src[m.end():i - 1]
                    if m.group(0).startswith("cfg_attr"):
                        pred = pred.split(",", 1)[0]       # the condition; what it switches on is an attribute, not code
                    n += 1
                    line = src.count("\n", 0, m.start()) + 1
                    bad = [a for a in re.findall(r"[A-Za-z_][A-Za-z0-9_]*", re.sub(r'"[^"]*"', "", pred)) if a not in CFG_ATOMS]
                    bad += [f for f in re.findall(r'feature\s*=\s*"([^"]*)"', pred) if f not in AUDITED_FEATURES]
                    if bad:
                        report.ob(rule, "cfg/%s/%s" % (os.path.relpath(path, REPO), ",".join(sorted(set(bad)))), False,
                                  "code under cfg(%s) depends on `%s`, which none of the analysed configurations sets: seen by no rule" % (pred.strip()[:60], ", ".join(sorted(set(bad)))),
                                  site="%s:%d" % (os.path.relpath(path, REPO), line))
    report.ob(rule, "switches", True, "%d conditional-compilation switch(es) looked at, %d cargo feature(s)" % (n, len(feats)))
    report.floor(rule, "conditional-compilation switches", n, 20)


# ------------------------------------------------------------------ BUILD wiring

def _returns_appended_index(ctx, facts, name):
    """add_stage / add_group return the position of the element they append: the length of one of the lockstep tables read
    before their first push, or that length minus one read after their last push."""
    from . import semq as Q
    from .sem import _is_decr
    b = facts.one(A.SB + "::" + name)
    try:
        ev, ends = Q.sem(ctx, facts, b)
    except Exception:
        return False
    rets = Q.returns(ends)
    if not rets:
        return False
    want_idx = [("param", 2)] if name == "add_group" else []
    for e in rets:
        evs = e.path.events
        pushes = [i for i, x in enumerate(evs) if x[0] == "call" and not x[2].local and x[2].name == "push"]
        if not pushes or [x for x in evs if x[0] == "loop"]:
            return False
        ok = False
        for i, x in enumerate(evs):
            if x[0] == "call" and x[2].name == "len" and not x[2].local and x[3]:
                f_, i_, b_ = Q.table_access(ev, x[3][0])
                cf_ = Q.crate_fields(f_)
                if b_ == ("param", 1) and cf_ and cf_[0][0] == A.SB and [Q.strip(ev, k) for k in i_] == want_idx:
                    if (e.ret == x[4] and i < pushes[0]) or (_is_decr(e.ret, x[4]) and i > pushes[-1]):
                        ok = True
        if not ok:
            return False
    return True


def registers_thread_local(ctx, facts, b):
    """On every way through `b` the builder's thread-local list receives exactly one `push(Box::new(<a parameter>))` and no
    other shape-changing operation: (ok, what was seen)."""
    from . import semq as Q
    ev, ends = Q.sem(ctx, facts, b)
    rets = Q.returns(ends)
    ok = bool(rets)
    seen = []
    for e in rets:
        pushes = []
        for x in e.path.events:
            if x[0] == "loop":
                if Q.loop_contains_call(x[1], lambda c: c.name in SHAPE_MUTATORS and not c.local):
                    pushes.append(("loop", None))
            elif x[0] == "call" and x[2].name in SHAPE_MUTATORS and not x[2].local and x[3]:
                f_, i_, base = Q.table_access(ev, x[3][0])
                if Q.crate_fields(f_) == [(A.DB, "thread_local")]:
                    pushes.append((x[2].name, x[3]))
            elif x[0] == "store" and x[2][0] != "cell":
                f_, i_, base = Q.table_access(ev, x[2])
                if Q.crate_fields(f_)[-1:] == [(A.DB, "thread_local")]:
                    pushes.append(("store", None))
        seen.append([p_[0] for p_ in pushes])
        if not (len(pushes) == 1 and pushes[0][0] == "push"):
            ok = False
            continue
        v = pushes[0][1][1]
        while v[0] == "cast":
            v = v[2]
        if not (Q.is_call(ev, v, "new") and "Box" in (Q.callee_of(ev, v).path or "") and len(v[2]) == 1 and v[2][0][0] == "param"):
            ok = False
    return ok, seen


def build_wiring(ctx, report, rule, facts, config):
    """The built dispatcher holds exactly the builder's stage list and
    thread-local list."""
    from . import semq as Q
    prog = ctx.program(facts)
    par = ctx.parallel(config)
    b = facts.one(A.SB + "::build")
    report.touched(b, config)
    ok = _build_returns_stages(ctx, facts)
    report.ob(rule, "StagesBuilder::build", ok, "returns self.stages" if ok else "StagesBuilder::build does not return self.stages on every way", site=b.loc(), config=config)
    sbb = b
    ctp = facts.maybe(A.DB + "::create_thread_pool")
    keep = [sbb.key] + ([ctp.key] if ctp is not None else [])

    def strip(ev, t):
        return Q.strip(ev, t)

    def is_stages(ev, t, base):
        t = strip(ev, t)
        return Q.is_call(ev, t, "build") and Q.callee_of(ev, t).key == sbb.key and strip(ev, t[2][0]) == ("field", base, "stages_builder", A.DB)

    def disp_parts(ev, r):
        """(stages, thread_local, thread_pool) of a Dispatcher record, looking through the SendDispatcher inside."""
        fl = Q.record(ev, r, A.DISP + "::Dispatcher")
        if fl is None:
            return None
        il = Q.record(ev, fl.get("inner"), A.SD + "::SendDispatcher")
        if il is None:
            return None
        return il.get("stages"), fl.get("thread_local"), il.get("thread_pool")

    def async_parts(ev, r):
        fl = Q.record(ev, r, A.AD + "::AsyncDispatcher")
        if fl is None:
            return None
        d = strip(ev, fl.get("data"))
        if not (isinstance(d, tuple) and d[0] == "agg" and d[2] == A.AD_DATA + "::Inner" and d[3]):
            return None
        il = Q.record(ev, d[3][0], A.AD_INNER + "::Inner")
        if il is None:
            return None
        return il.get("stages"), fl.get("thread_local"), fl.get("thread_pool"), il.get("world")

    builds = [("build", disp_parts)] + ([("build_async", async_parts)] if par else [])
    for name, parts in builds:
        b = facts.one(A.DB + "::" + name)
        report.touched(b, config)
        ev, ends = Q.sem(ctx, facts, b, opaque=keep)
        rets = Q.returns(ends)
        pr = [] if rets else ["no way through returns"]
        for e in rets:
            got = parts(ev, e.ret)
            if got is None:
                pr.append("the result is not a dispatcher assembled in sight")
                continue
            if not is_stages(ev, got[0], ("param", 1)):
                pr.append("the stages are not self.stages_builder.build()")
            if strip(ev, got[1]) != ("field", ("param", 1), "thread_local", A.DB):
                pr.append("the thread-local systems are not self.thread_local")
            if par and strip(ev, got[2]) != ("field", ("param", 1), "thread_pool", A.DB):
                pr.append("the pool is not self.thread_pool")
            if name == "build_async" and strip(ev, got[3]) != ("param", 2):
                pr.append("the world is not the one handed in")
        report.ob(rule, "DispatcherBuilder::%s" % name, not pr, "stages = self.stages_builder.build(), thread_local = self.thread_local%s" % (", thread_pool = self.thread_pool" if par else "")
                  if not pr else "; ".join(sorted(set(pr))), site=b.loc(), config=config)
    # constructors wire parameters to same-named fields
    nd = facts.one(A.C + "::dispatch::dispatcher::new_dispatcher")
    report.touched(nd, config)
    ev, ends = Q.sem(ctx, facts, nd)
    rets = Q.returns(ends)
    ok = bool(rets)
    detail = "Dispatcher { inner: SendDispatcher { stages, .. }, thread_local }"
    for e in rets:
        got = disp_parts(ev, e.ret)
        if got is None or not (got[0] == ("param", 1) and got[1] == ("param", 2) and (not par or got[2] == ("param", 3))):
            ok = False
            detail = "new_dispatcher crosses its arguments: %s" % (got,)
    report.ob(rule, "new_dispatcher", ok, detail, site=nd.loc(), config=config)
    if par:
        na = facts.one(A.C + "::dispatch::async_dispatcher::new_async")
        report.touched(na, config)
        ev, ends = Q.sem(ctx, facts, na)
        rets = Q.returns(ends)
        ok = bool(rets)
        detail = "AsyncDispatcher { data: Inner { world, stages }, thread_local, thread_pool }"
        for e in rets:
            got = async_parts(ev, e.ret)
            if got is None or not (got[0] == ("param", 2) and got[3] == ("param", 1) and got[1] == ("param", 3) and got[2] == ("param", 4)):
                ok = False
                detail = "new_async crosses its arguments: %s" % (got,)
        report.ob(rule, "new_async", ok, detail, site=na.loc(), config=config)
    # add_thread_local: exactly one push of Box::new(system) onto self.thread_local
    b = facts.one(A.DB + "::add_thread_local")
    report.touched(b, config)
    ok, seen = registers_thread_local(ctx, facts, b)
    report.ob(rule, "add_thread_local", ok, "one `push(Box::new(system))` onto self.thread_local on every path" if ok else
              "thread-local registration is not a single append of the boxed system: %s" % seen, site=b.loc(), config=config)
    # nobody else changes the thread-local lists
    n = 0
    for bd in sorted(facts.bodies.values(), key=lambda b: b.key):
        btt = prog.bt(bd)
        for bb, t in bd.normal_calls():
            c = Callee(t["func"])
            if c.local or c.name not in SHAPE_MUTATORS or not t["args"]:
                continue
            for a in btt.call_args(bb)[:2]:
                f_, i_, base = table_access(bd, a)
                cf = crate_fields(f_)
                if cf and cf[-1][1] == "thread_local" and cf[-1][0] in (A.DB, A.DISP, A.AD):
                    n += 1
                    rb_ = facts.bodies.get(bd.root_key, bd) if bd.is_closure and bd.root_key else bd
                    # another registration method of the builder (one boxed push on every way) is as good as add_thread_local
                    if bd.key != b.key and not (cf[-1][0] == A.DB and rb_.self_head == A.DB and registers_thread_local(ctx, facts, rb_)[0]):
                        report.ob(rule, "thread_local-mutated/%s" % bd.qname, False,
                                  "`thread_local` list changed by `%s` in %s" % (c.name, bd.qname), site=bd.loc(bb), config=config)
    report.floor(rule, "thread_local appends", n, 1, config=config)
