"""A5/A6: value terms and interprocedural origins.

A *term* is an expression tree reconstructed from MIR by substituting the
(unique) definition of every temporary.  References, dereferences, moves and
copies are transparent: a term denotes "the object", never a pointer to it.

  ('param', i)                 i-th MIR argument of the body (1-based)
  ('upvar', name)              captured variable of a closure body
  ('int', n) / ('const', s)    constants
  ('fnref', key, name)         a function item used as a value
  ('closure', key)             closure constant (no captures)
  ('call', bb, (args...))      result of the call terminating block bb
  ('field', base, name, adt)   field projection
  ('index', base, idx)         indexing projection
  ('variant', base, name)      enum downcast
  ('agg', kind, name, (ops...), (fieldnames...))
  ('bin', op, a, b) ('un', op, a) ('len', a) ('discr', a) ('cast', kind, a)
  ('phi', local, (alts...))    local with several definitions
  ('var', local)               cyclic definition (loop-carried)
  ('undef', local)

Origins: the set of leaves a term is built from, followed across function
parameters (to all in-crate call sites), closure captures (to the creation
site) and closure parameters (to the receiver of the adaptor the closure is
passed to).  ADT fields are cut points: a load from `x.f` is the leaf
('field', adt, f).
"""
from .facts import Callee
from .cfg import Cfg


class BodyTerms(object):
    def __init__(self, body):
        self.body = body
        self.cfg = Cfg(body)
        self.defs = {}
        self.stores = []  # (bb, idx or 'call', place, valueterm-thunk)
        self._memo = {}
        self._busy = set()
        live = [i for i in sorted(self.cfg.reach) if not body.blocks[i]["cleanup"]]
        self.live = live
        for bb in live:
            blk = body.blocks[bb]
            for idx, st in enumerate(blk["stmts"]):
                if st["k"] != "assign":
                    continue
                p = st["place"]
                if not p["p"]:
                    self.defs.setdefault(p["l"], []).append(("assign", bb, idx, st["rv"]))
                else:
                    self.stores.append((bb, idx, p, ("rv", st["rv"])))
            t = blk["term"]
            if t["k"] == "call":
                p = t["dest"]
                if not p["p"]:
                    self.defs.setdefault(p["l"], []).append(("call", bb, None, t))
                else:
                    self.stores.append((bb, "call", p, ("call", bb)))

    # ---- terms
    def local(self, l):
        if l in self._memo:
            return self._memo[l]
        if l in self._busy:
            return ("var", l)
        self._busy.add(l)
        try:
            ds = self.defs.get(l, [])
            is_param = 1 <= l <= self.body.arg_count
            alts = []
            if is_param:
                alts.append(("param", l))
            for d in ds:
                if d[0] == "assign":
                    alts.append(self.rvalue(d[3]))
                else:
                    alts.append(self.call_term(d[1]))
            if not alts:
                t = ("undef", l)
            elif len(alts) == 1:
                t = alts[0]
            else:
                # drop-flag style re-assignments of constants collapse
                uniq = []
                for a in alts:
                    if a not in uniq:
                        uniq.append(a)
                t = uniq[0] if len(uniq) == 1 else ("phi", l, tuple(uniq))
        finally:
            self._busy.discard(l)
        if not _has_var(t, l):
            self._memo[l] = t
        return t

    def call_term(self, bb):
        t = self.body.blocks[bb]["term"]
        return ("call", bb, tuple(self.operand(a) for a in t["args"]))

    def func_term(self, bb):
        """Term of the callee operand (for calls through a function pointer)."""
        return self.operand(self.body.blocks[bb]["term"]["func"])

    def place(self, p):
        t = self.local(p["l"])
        for e in p["p"]:
            k = e["k"]
            if k == "deref":
                continue
            if k == "field":
                if "closure" in e and t == ("param", 1) and self.body.is_closure:
                    t = ("upvar", e.get("name", str(e["i"])))
                else:
                    name = e.get("name", str(e["i"]))
                    if t[0] == "agg" and t[1] in ("tuple", "adt") and e["i"] < len(t[3]) and (t[1] == "tuple" or name in t[4]):
                        t = t[3][e["i"]]  # field of an aggregate built here: project it
                    else:
                        t = ("field", t, name, e.get("adt") or ("tuple" if e.get("tuple") else None))
            elif k == "index":
                t = ("index", t, self.local(e["l"]))
            elif k == "cindex":
                t = ("index", t, ("int", e["off"]))
            elif k == "downcast":
                t = ("variant", t, e.get("variant"))
            else:
                t = ("proj", t, k)
        return t

    def operand(self, o):
        k = o["k"]
        if k in ("copy", "move"):
            return self.place(o["place"])
        if k == "const":
            if "fn" in o:
                f = o["fn"]
                r = f.get("resolved")
                key = r["key"] if r and r.get("inst_kind") == "item" else f["key"]
                return ("fnref", key, f.get("name"))
            if "closure" in o:
                return ("closure", o["closure"])
            if "int" in o:
                return ("int", o["int"])
            return ("const", o.get("val", "?"))
        return ("const", "<%s>" % k)

    def rvalue(self, rv):
        k = rv["k"]
        if k == "use":
            return self.operand(rv["op"])
        if k in ("ref", "rawptr", "copy_for_deref"):
            return self.place(rv["place"])
        if k == "cast":
            return ("cast", rv["kind"].split("(")[0], self.operand(rv["op"]))
        if k == "binop":
            return ("bin", rv["op"], self.operand(rv["a"]), self.operand(rv["b"]))
        if k == "unop":
            if rv["op"] == "PtrMetadata":
                return ("len", self.operand(rv["a"]))
            return ("un", rv["op"], self.operand(rv["a"]))
        if k == "discr":
            return ("discr", self.place(rv["place"]))
        if k == "agg":
            a = rv["agg"]
            if a == "adt":
                name = "%s::%s" % (rv["adt"], rv["variant"])
            elif a in ("closure", "coroutine"):
                name = rv["closure"]
            else:
                name = a
            return ("agg", a, name, tuple(self.operand(x) for x in rv["ops"]), tuple(rv.get("fields", [])))
        if k == "repeat":
            return ("agg", "repeat", "repeat", (self.operand(rv["op"]),), ())
        return ("const", "<%s>" % k)

    # ---- convenience
    def callee(self, bb):
        return Callee(self.body.blocks[bb]["term"]["func"])

    def call_args(self, bb):
        t = self.body.blocks[bb]["term"]
        return [self.operand(a) for a in t["args"]]

    def store_value(self, st):
        kind = st[3]
        if kind[0] == "rv":
            return self.rvalue(kind[1])
        return self.call_term(kind[1])

    def find_closure_creation(self, closure_key):
        """(bb, idx, agg term, dest local) of the aggregate creating a closure."""
        out = []
        for bb in self.live:
            for idx, st in enumerate(self.body.blocks[bb]["stmts"]):
                if st["k"] == "assign" and st["rv"]["k"] == "agg" and st["rv"].get("closure") == closure_key:
                    out.append((bb, idx, self.rvalue(st["rv"]), st["place"]["l"] if not st["place"]["p"] else None))
        return out


def _has_var(t, l):
    for s_ in subterms(t):
        if isinstance(s_, tuple) and s_ and s_[0] == "var":
            return True
    return False


def subterms(t):
    """All subterms (pre-order)."""
    if not isinstance(t, tuple) or not t:
        return
    if isinstance(t[0], str):
        yield t
        rest = t[1:]
    else:
        rest = t
    for x in rest:
        if isinstance(x, tuple):
            for y in subterms(x):
                yield y


def strip(t):
    """Remove casts."""
    while isinstance(t, tuple) and t and t[0] == "cast":
        t = t[2]
    return t


def root_field(t):
    """Follow index / variant / call-receiver / field chains down to the
    outermost ADT field a place-like term is rooted in: returns the list of
    ('field', adt, name) encountered from the root outward."""
    out = []
    while isinstance(t, tuple) and t:
        k = t[0]
        if k == "field":
            out.append((t[3], t[2]))
            t = t[1]
        elif k in ("index", "variant", "proj"):
            t = t[1]
        elif k == "cast":
            t = t[2]
        else:
            break
    out.reverse()
    return out, t


class Program(object):
    """Interprocedural view: per-body terms + origin resolution."""

    # external callees through which object identity flows from the receiver
    # (first argument) to the closure's parameters
    ELEM_ADAPTORS = set([
        "map", "filter", "for_each", "find", "any", "all", "position", "filter_map", "flat_map",
        "take_while", "skip_while", "inspect", "unwrap_or_else", "and_then", "map_err", "or_else",
        "max_by_key", "min_by_key", "retain", "find_map", "try_for_each", "map_or", "map_or_else",
        "rposition", "is_some_and", "then", "sort_by_key", "sort_by", "dedup_by_key",
    ])

    def __init__(self, facts):
        self.facts = facts
        self._bt = {}
        self.stop_bodies = set()  # keys of bodies whose parameters are origin leaves

    def bt(self, body):
        r = self._bt.get(body.key)
        if r is None:
            r = self._bt[body.key] = BodyTerms(body)
        return r

    # ---- origins
    def origins(self, body, term, is_source=None, depth=0, _seen=None):
        """Set of leaves.  `is_source(callee, body, bb)` marks calls whose
        result is a leaf of its own (not looked through)."""
        if _seen is None:
            _seen = set()
        out = set()
        self._orig(body, term, is_source, out, _seen, depth)
        return out

    def _orig(self, body, t, is_source, out, seen, depth):
        if not isinstance(t, tuple) or not t:
            return
        k = t[0]
        mark = (body.key, t)
        if mark in seen:
            return
        seen.add(mark)
        if depth > 40:
            out.add(("deep", body.key))
            return
        bt = self.bt(body)
        if k == "param":
            self._param(body, t[1], is_source, out, seen, depth)
        elif k == "upvar":
            self._upvar(body, t[1], is_source, out, seen, depth)
        elif k == "int":
            out.add(("int", t[1]))
        elif k == "const":
            out.add(("const", t[1]))
        elif k == "fnref":
            out.add(("fnref", t[1]))
        elif k == "closure":
            out.add(("closure", t[1]))
        elif k == "call":
            bb = t[1]
            c = bt.callee(bb)
            if is_source is not None and is_source(c, body, bb):
                out.add(("src", body.key, bb))
                return
            if not t[2]:
                out.add(("src", body.key, bb))
                return
            # in-crate callee with a body: follow its return value
            targets = [] if c.indirect else self.facts.target_bodies(c, precise=True)
            followed = False
            if targets and depth < 12:
                for tb in targets:
                    rt = self.bt(tb).local(0)
                    if rt[0] != "undef":
                        followed = True
                        self._orig(tb, rt, is_source, out, seen, depth + 1)
            if not followed:
                ops = body.blocks[bb]["term"]["args"]
                for i, a in enumerate(t[2]):
                    if i < len(ops) and _scalar_operand(ops[i]):
                        continue  # integers / booleans carry no object identity
                    self._orig(body, a, is_source, out, seen, depth)
        elif k == "field":
            adt = t[3]
            if adt and adt != "tuple":
                out.add(("field", adt, t[2]))
            else:
                self._orig(body, t[1], is_source, out, seen, depth)
        elif k in ("index", "variant", "proj"):
            self._orig(body, t[1], is_source, out, seen, depth)
        elif k == "cast":
            self._orig(body, t[2], is_source, out, seen, depth)
        elif k == "agg":
            if t[1] == "closure":
                out.add(("closure", t[2]))
            for a in t[3]:
                self._orig(body, a, is_source, out, seen, depth)
        elif k == "phi":
            for a in t[2]:
                self._orig(body, a, is_source, out, seen, depth)
        elif k in ("bin", "un", "len", "discr"):
            out.add(("scalar", k))
        elif k == "var":
            out.add(("var", body.key, t[1]))
        elif k == "undef":
            out.add(("undef", body.key, t[1]))

    def _param(self, body, i, is_source, out, seen, depth):
        if body.is_closure:
            if i == 1:
                out.add(("env", body.key))
                return
            self._closure_param(body, i, is_source, out, seen, depth)
            return
        callers = self.facts.callers().get(body.key, [])
        if not callers or body.key in self.stop_bodies:
            out.add(("param", body.key, i))
            return
        for cb, bb in callers:
            args = self.bt(cb).call_args(bb)
            if i - 1 < len(args):
                self._orig(cb, args[i - 1], is_source, out, seen, depth + 1)
            else:
                out.add(("param", body.key, i))

    def creation(self, closure_body):
        """(parent body, agg term, dest local) where a closure is created."""
        parent = self.facts.bodies.get(closure_body.parent_key)
        if parent is None:
            return None
        cr = self.bt(parent).find_closure_creation(closure_body.key)
        if len(cr) != 1:
            return None
        bb, idx, agg, dest = cr[0]
        return parent, agg, dest, bb

    def _upvar(self, body, name, is_source, out, seen, depth):
        cr = self.creation(body)
        if cr is None:
            out.add(("upvar", body.key, name))
            return
        parent, agg, dest, _ = cr
        names = agg[4]
        if name in names:
            self._orig(parent, agg[3][names.index(name)], is_source, out, seen, depth + 1)
        else:
            out.add(("upvar", body.key, name))

    def closure_uses(self, closure_body):
        """Calls in the parent that receive the closure value as an argument:
        list of (parent, bb, arg position)."""
        cr = self.creation(closure_body)
        if cr is None:
            return []
        parent, agg, dest, _ = cr
        bt = self.bt(parent)
        uses = []
        for bb, t in parent.normal_calls():
            for j, a in enumerate(bt.call_args(bb)):
                if _mentions_closure(a, closure_body.key):
                    uses.append((parent, bb, j))
        return uses

    def _closure_param(self, body, i, is_source, out, seen, depth):
        uses = self.closure_uses(body)
        if not uses:
            out.add(("param", body.key, i))
            return
        for parent, bb, j in uses:
            bt = self.bt(parent)
            c = bt.callee(bb)
            args = bt.call_args(bb)
            if c.name == "fold" and len(args) == 3 and j == 2:
                # closure(acc, elem)
                src = args[1] if i == 2 else args[0]
                self._orig(parent, src, is_source, out, seen, depth + 1)
            elif j >= 1 and (c.name in self.ELEM_ADAPTORS or not c.local):
                out.add(("elem_of_call", parent.key, bb))
                self._orig(parent, args[0], is_source, out, seen, depth + 1)
            else:
                out.add(("param", body.key, i))


SCALARS = set(["usize", "u8", "u16", "u32", "u64", "u128", "isize", "i8", "i16", "i32", "i64", "i128", "bool", "char", "()"])


def _scalar_operand(op):
    if op.get("k") == "const":
        return "fn" not in op and "closure" not in op and op.get("ty", "").lstrip("&").replace("mut ", "") in SCALARS
    pl = op.get("place")
    if pl is None:
        return False
    ty = pl.get("ty", "")
    while ty.startswith("&"):
        ty = ty[1:].lstrip()
        if ty.startswith("mut "):
            ty = ty[4:]
    return ty in SCALARS


def _mentions_closure(t, key):
    for s_ in subterms(t):
        if isinstance(s_, tuple) and s_:
            if s_[0] == "agg" and s_[1] == "closure" and s_[2] == key:
                return True
            if s_[0] == "closure" and s_[1] == key:
                return True
    return False
