"""A8: who-may / zero-count inventories over call cones."""
from .facts import Callee

HASH_TYPES = ("HashMap<", "AHashMap<", "HashSet<", "AHashSet<", "hash_map::", "hash_set::")
HASH_ITER_NAMES = set(["iter", "iter_mut", "keys", "values", "values_mut", "into_iter", "drain", "retain", "into_keys", "into_values",
                       "for_each", "extract_if", "par_iter", "par_iter_mut"])
ORDER_NAMES = set(["cmp", "partial_cmp", "lt", "le", "gt", "ge", "max", "min", "max_by", "min_by", "max_by_key", "min_by_key", "clamp",
                   "binary_search", "binary_search_by", "binary_search_by_key", "sort", "sort_unstable", "sort_by", "sort_by_key",
                   "sort_unstable_by", "sort_unstable_by_key", "sort_by_cached_key", "is_sorted", "partition_point", "select_nth_unstable"])
ENV_MARKS = ["std::time::Instant::now", "std::time::SystemTime::now", "std::thread::current", "std::env::", "RandomState::new",
             "std::process::id", "available_parallelism", "rand::", "getrandom", "std::thread::Thread::id", "current_thread_index",
             "current_num_threads", "std::fs::", "std::net::", "type_name"]
SWALLOW_MARKS = ["catch_unwind", "resume_unwind", "set_hook", "take_hook", "update_hook"]
THREAD_NAMES = set(["spawn", "spawn_scoped", "spawn_unchecked", "scope", "join"])


def thread_handoffs(body):
    """std::thread spawn / scope / join calls: work handed to a thread of its own ends its panics in a JoinHandle."""
    out = []
    for bb, t in body.normal_calls():
        c = Callee(t["func"])
        if not c.local and c.name in THREAD_NAMES and ("std::thread::" in c.path or "std::thread::" in c.inst_path):
            out.append((bb, c))
    return out


LEAK_MARKS = ["std::mem::forget", "ManuallyDrop::<", "::leak", "into_raw", "mem::forget", "ManuallyDrop::new"]


def recv_ty(term):
    a = term["args"][0] if term["args"] else None
    if a and "place" in a:
        return a["place"].get("ty", "")
    return ""


def hash_iterations(body):
    out = []
    for bb, t in body.normal_calls():
        c = Callee(t["func"])
        if c.local:
            continue
        ty = recv_ty(t)
        st = c.self_arg_s or ""
        if c.name in HASH_ITER_NAMES and (any(h in ty for h in HASH_TYPES) or any(h in st for h in HASH_TYPES) or "hash_map" in c.path or "hash_set" in c.path):
            out.append((bb, c))
    return out


def order_uses(body, types):
    """Calls that consult an ordering on one of `types` (substring match on the instantiated callee path)."""
    out = []
    for bb, t in body.normal_calls():
        c = Callee(t["func"])
        ip = c.inst_path
        if not any(ty in ip for ty in types):
            continue
        if c.trait in ("std::cmp::Ord", "std::cmp::PartialOrd", "core::cmp::Ord", "core::cmp::PartialOrd") or c.name in ORDER_NAMES:
            out.append((bb, c))
    return out


def hash_uses(body, types):
    out = []
    for bb, t in body.normal_calls():
        c = Callee(t["func"])
        if c.trait in ("std::hash::Hash", "core::hash::Hash", "std::hash::BuildHasher", "core::hash::BuildHasher") and any(ty in c.inst_path for ty in types):
            out.append((bb, c))
    return out


HASHING_TRAITS = ("std::hash::Hash", "core::hash::Hash", "std::hash::BuildHasher", "core::hash::BuildHasher", "std::hash::Hasher", "core::hash::Hasher")


def explicit_hashing(body):
    """Calls that compute a hash value explicitly (not the hashing std does inside its own maps)."""
    out = []
    for bb, t in body.normal_calls():
        c = Callee(t["func"])
        if c.trait in HASHING_TRAITS or c.name in ("hash_one", "build_hasher", "with_seeds") or "DefaultHasher" in c.path or (c.crate == "ahash" and c.name in ("new", "with_seed", "with_seeds", "generate_with", "hash_one")):
            out.append((bb, c))
    return out


def marked_calls(body, marks):
    out = []
    for bb, t in body.normal_calls():
        c = Callee(t["func"])
        if any(m in c.inst_path or m in c.path for m in marks):
            out.append((bb, c))
    return out


def _uses_of(body, local):
    """Kinds of rvalues / terminators that read a bare local."""
    uses = []

    def op(o, what):
        if isinstance(o, dict) and "place" in o and o["place"]["l"] == local:
            uses.append(what)

    for blk in body.blocks:
        for st in blk["stmts"]:
            if st["k"] != "assign":
                continue
            rv = st["rv"]
            for k in ("op", "a", "b"):
                if k in rv:
                    op(rv[k], rv["k"] + ":" + rv.get("op", "") if rv["k"] == "binop" else rv["k"])
            for o in rv.get("ops", []):
                op(o, "agg")
            if "place" in rv and rv["place"]["l"] == local:
                uses.append(rv["k"])
        t = blk["term"]
        if t["k"] == "call":
            for a in t["args"]:
                op(a, "call")
        elif t["k"] in ("switch",):
            op(t["discr"], "switch")
        elif t["k"] == "assert":
            op(t["cond"], "assert")
    return uses


def ptr_to_int_casts(body):
    """Pointer-to-integer conversions, excluding the compiler-inserted debug
    alignment / null checks (whose integer only feeds BitAnd / Eq)."""
    out = []
    for bb, blk in enumerate(body.blocks):
        if blk["cleanup"]:
            continue
        for st in blk["stmts"]:
            if st["k"] == "assign" and st["rv"]["k"] == "cast":
                kind = st["rv"]["kind"]
                ty = st["rv"]["ty"]
                src = st["rv"]["op"].get("place", {}).get("ty", "")
                if kind.startswith("PointerExposeProvenance"):
                    out.append((bb, kind))
                elif kind.startswith("Transmute") and ty in ("usize", "u64", "isize") and ("*" in src or "&" in src):
                    dest = st["place"]
                    uses = _uses_of(body, dest["l"]) if not dest["p"] else ["?"]
                    if uses and all(u.startswith("binop:BitAnd") or u.startswith("binop:Eq") or u.startswith("binop:Ne") for u in uses):
                        continue
                    out.append((bb, kind))
    return out
