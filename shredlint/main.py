"""Entry point: ./check <ID> [--tier quick|thorough] [--explain <replay file>]"""
import importlib
import json
import os
import sys

from .core import Ctx, Report, finish
from .extract import ExtractError

PROPS = ["C%02d" % i for i in range(1, 21)]


def run(prop, tier, explain=None):
    mod = importlib.import_module("shredlint.rules.%s" % prop.lower())
    ctx = Ctx(tier)
    report = Report(prop)
    key = None
    if explain:
        # read first: the run rewrites the replay directory
        try:
            with open(explain) as f:
                key = json.load(f)["violation"]["key"]
        except (OSError, ValueError, KeyError) as e:
            print("NOTE: replay file %s cannot be read (%s); running the check without a focus" % (explain, e))
    try:
        mod.run(ctx, report)
    except ExtractError as e:
        # the tree does not build: nothing can be decided; report as broken run
        print("ERROR: fact extraction failed (does /repo build?)\n%s" % e)
        report.ob(prop + ".EXTRACT", "BUILD", False, "fact extraction failed: %s" % str(e)[:300])
    return finish(prop, report, ctx, mod.EXPLANATION, mod.ASSUMPTIONS, mod.TRUSTED, mod.RULE_TEXT, explain_key=key)


def main(argv):
    if len(argv) < 2 or argv[1] not in PROPS:
        print("usage: check <%s..%s> [--tier quick|thorough] [--explain file]" % (PROPS[0], PROPS[-1]))
        return 2
    prop = argv[1]
    tier = os.environ.get("VERIF_TIER", "quick")
    explain = None
    i = 2
    while i < len(argv):
        if argv[i] == "--tier":
            tier = argv[i + 1]
            i += 2
        elif argv[i] in ("--explain", "--replay"):
            explain = argv[i + 1]
            i += 2
        else:
            i += 1
    if tier not in ("quick", "thorough"):
        tier = "quick"
    return run(prop, tier, explain)


if __name__ == "__main__":
    sys.exit(main(sys.argv))
