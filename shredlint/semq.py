"""Queries over sem.py results that several rule families share."""
from .facts import AnchorError
from .sem import Evaluator, Policy, Loop
from .shapes import TRANSPARENT

FLIP = {"Lt": "Gt", "Gt": "Lt", "Le": "Ge", "Ge": "Le", "Eq": "Eq", "Ne": "Ne"}
NEG = {"Lt": "Ge", "Ge": "Lt", "Gt": "Le", "Le": "Gt", "Eq": "Ne", "Ne": "Eq"}


def sem(ctx, facts, qname, opaque=(), only=None):
    """Cached structured evaluation of one body: (Evaluator, ends)."""
    cache = ctx.__dict__.setdefault("_sem", {})
    k = (id(facts), qname, tuple(sorted(opaque)), tuple(sorted(only)) if only is not None else None)
    if k not in cache:
        body = qname if hasattr(qname, "blocks") else facts.one(qname)
        ev = Evaluator(facts, Policy(opaque=opaque, only=only))
        ends = ev.eval(body)
        cache[k] = (ev, ends)
    return cache[k]


def callee_of(ev, t):
    return ev.callee(t[1]) if isinstance(t, tuple) and t and t[0] == "call" else None


def is_call(ev, t, name, trait=None, key=None):
    c = callee_of(ev, t)
    return bool(c is not None and c.name == name and (trait is None or c.trait == trait) and (key is None or c.key == key or getattr(c, "resolved_key", None) == key))


def strip(ev, t, extra=()):
    """Drop casts and the unary library calls that hand out a view of their receiver."""
    while isinstance(t, tuple) and t:
        if t[0] == "cast":
            t = t[2]
        elif t[0] == "call":
            c = ev.callee(t[1])
            if c is not None and not c.local and (c.name in TRANSPARENT or c.name in extra) and t[2] and c.name not in ("map", "flatten", "enumerate", "chain", "index", "index_mut", "get_mut", "unwrap", "expect"):
                t = t[2][0]
            else:
                break
        else:
            break
    return t


def table_access(ev, t):
    """Describe a place-like term: ([(adt, field), ...] from the base outward, [index terms], base)."""
    fields = []
    idx = []
    while isinstance(t, tuple) and t:
        k = t[0]
        if k == "cast":
            t = t[2]
        elif k == "field":
            if t[3] and t[3] != "tuple":
                fields.append((t[3], t[2]))
            t = t[1]
        elif k == "index":
            idx.append(t[2])
            t = t[1]
        elif k in ("variant", "proj"):
            t = t[1]
        elif k == "call":
            c = ev.callee(t[1])
            if c is None or c.local:
                break
            if c.name in ("index", "index_mut", "get", "get_mut", "get_unchecked", "get_unchecked_mut") and len(t[2]) == 2:
                idx.append(t[2][1])
                t = t[2][0]
            elif c.name in TRANSPARENT and t[2] and c.name not in ("map", "flatten", "enumerate", "chain"):
                t = t[2][0]
            else:
                break
        else:
            break
    fields.reverse()
    idx.reverse()
    return fields, idx, t


def crate_fields(fields, crate="shred"):
    return [(a, f) for a, f in fields if a.startswith(crate + "::")]


def leaves(ev, t, order_free=False):
    """The collections an iterator term ranges over: `a.iter().chain(b.iter())` has the leaves a and b.
    order_free: the consumer does not care in which order the elements come (an intersection test), so `rev()` is a view too."""
    extra = ("rev",) if order_free else ()
    t = strip(ev, t, extra=extra)
    c = callee_of(ev, t)
    if c is not None and not c.local and c.name in ("chain", "zip") and len(t[2]) == 2:
        return leaves(ev, t[2][0], order_free) + leaves(ev, t[2][1], order_free)
    return [t]


def norm_cmp(atom, value):
    """Canonical form of an integer comparison decided on a path: (op, a, b) with the relation that HOLDS."""
    if not (isinstance(atom, tuple) and atom[0] == "bin" and atom[1] in FLIP):
        return None
    op, a, b = atom[1], atom[2], atom[3]
    if value == 0:
        op = NEG[op]
    if a[0] == "int" and b[0] != "int":
        op, a, b = FLIP[op], b, a
    # `x + k OP c` is `x OP c - k` (the overflow of a checked addition is a way of its own, not this one)
    if b[0] == "int":
        base, off = _linear(a)
        if off and b[1] - off >= 0:
            a, b = base, ("int", b[1] - off)
    return (op, a, b)


def _linear(t):
    """(x, k) with t = x + k for an integer constant k (through checked and unchecked additions / subtractions)."""
    off = 0
    while isinstance(t, tuple) and t:
        if t[0] == "cast" and t[1] in ("IntToInt",):
            break
        if t[0] == "field" and t[2] == "0" and isinstance(t[1], tuple) and t[1] and t[1][0] == "bin" and t[1][1].endswith("WithOverflow"):
            t = t[1]
        if t[0] == "bin" and t[1] in ("Add", "AddWithOverflow", "AddUnchecked") and t[3][0] == "int":
            off += t[3][1]
            t = t[2]
        elif t[0] == "bin" and t[1] in ("Add", "AddWithOverflow", "AddUnchecked") and t[2][0] == "int":
            off += t[2][1]
            t = t[3]
        elif t[0] == "bin" and t[1] in ("Sub", "SubWithOverflow", "SubUnchecked") and t[3][0] == "int":
            off -= t[3][1]
            t = t[2]
        else:
            break
    return t, off


def holds_for(op, n, k):
    return {"Lt": n < k, "Le": n <= k, "Gt": n > k, "Ge": n >= k, "Eq": n == k, "Ne": n != k}[op]


def all_loops(ends):
    """Every Loop object met on the given ends (outer first), including nested ones; duplicates by identity removed."""
    out = []
    seen = set()

    def visit_events(events):
        for e in events:
            if e[0] == "loop" and id(e[1]) not in seen:
                seen.add(id(e[1]))
                out.append(e[1])
                for it in e[1].iters:
                    visit_events(it.path.events)

    for e in ends:
        visit_events(e.path.events)
    return out


def calls_in(events, pred, deep=False):
    out = []
    for e in events:
        if e[0] == "call" and pred(e[2]):
            out.append(e)
        elif deep and e[0] == "loop":
            for it in e[1].iters:
                out.extend(calls_in(it.path.events, pred, True))
    return out


def loop_contains_call(L, pred, deep=True):
    return any(calls_in(it.path.events, pred, deep) for it in L.iters)


def range_of(L):
    """(lo, hi) if the loop runs over a forward half-open integer range, else None."""
    s = L.source
    if isinstance(s, tuple) and s[0] == "agg" and s[2] == "std::ops::Range::Range" and len(s[3]) == 2:
        return s[3][0], s[3][1]
    return None


def exits(L):
    return [(i, it) for i, it in enumerate(L.iters) if it.end in ("break", "return")]


def is_full(L):
    """Every element is visited: no iteration leaves the loop except by diverging."""
    return not [it for it in L.iters if it.end in ("break", "return")]


def site_of(ev, L):
    try:
        return ev.loc(L.site)
    except Exception:
        return None


def record(ev, t, name):
    """{field: value} if `t` is the record `name` built on this path (by literal, helper or later field stores), else None."""
    t = strip(ev, t)
    if isinstance(t, tuple) and t and t[0] == "agg" and t[2] == name and len(t) > 4 and len(t[4]) == len(t[3]):
        return dict(zip(t[4], t[3]))
    return None


def returns(ends):
    return [e for e in ends if e.kind == "return"]


BENIGN_STD = frozenset(["deref", "deref_mut", "borrow", "borrow_mut", "as_ref", "as_mut", "into", "from", "clone", "as_deref", "as_deref_mut", "drop", "drop_in_place"])


def forwards_once(ev, ends, pred):
    """Every returning way makes exactly one call that satisfies pred(callee, event), outside any loop, and no other call
    than the standard library's reference conversions.  Returns (ok, [description of what was found per way])."""
    seen = []
    ok = bool(returns(ends))
    for e in returns(ends):
        hit = 0
        other = []
        for x in e.path.events:
            if x[0] == "loop":
                inner = [y for it in x[1].iters for y in calls_in(it.path.events, lambda c: True, deep=True)]
                if inner:
                    other.append("a loop calling %s" % sorted(set(y[2].name for y in inner)))
            elif x[0] == "call":
                if pred(x[2], x):
                    hit += 1
                elif x[2].local or x[2].name not in BENIGN_STD:
                    other.append(x[2].short() if hasattr(x[2], "short") else x[2].name)
        seen.append((hit, other))
        if hit != 1 or other:
            ok = False
    return ok, seen


def origins(ev, t, crate="shred"):
    """Where the value of a term comes from: the set of its leaves, with the outermost in-crate field access
    ('field', adt, name), parameters ('param', i), loop elements and the like; constants contribute nothing."""
    out = set()

    def go(t):
        if not (isinstance(t, tuple) and t):
            return
        k = t[0]
        if k in ("int", "const", "fnref", "unit"):
            return
        if k == "field":
            if t[3] and t[3].startswith(crate + "::"):
                out.add(("field", t[3], t[2]))
            else:
                go(t[1])
        elif k == "cast":
            go(t[2])
        elif k in ("variant", "proj"):
            go(t[1])
        elif k == "index":
            go(t[1])
        elif k == "call":
            for a in t[2]:
                go(a)
        elif k == "agg":
            for a in t[3]:
                go(a)
        elif k in ("bin",):
            go(t[2])
            go(t[3])
        elif k == "un":
            go(t[2])
        elif k == "param":
            out.add(t)
        else:
            out.add((k,))

    go(t)
    return out


def extend_like(ev, L):
    """(target collection, 'extend' | 'set-extend') if the loop is a full traversal whose every step appends the current element
    to one collection - or, for 'set-extend', leaves it out exactly when that collection already holds an equal element
    (`if !list.contains(&x) { list.push(x) }`).  None otherwise."""
    from .sem import PseudoCallee
    from .shared import SHAPE_MUTATORS
    if L.kind in ("while",) or L.source is None or L.stages or L.elem is None or not is_full(L):
        return None
    target = None
    mode = "extend"
    n = 0
    for it in L.iters:
        if it.end != "continue":
            continue
        n += 1
        pushes = [x for x in it.path.events if x[0] == "call" and not x[2].local and x[2].name == "push" and len(x[3]) == 2 and strip(ev, x[3][1]) == L.elem]
        muts = [x for x in it.path.events if x[0] == "call" and not x[2].local and x[2].name in SHAPE_MUTATORS and x not in pushes]
        loops = [x for x in it.path.events if x[0] == "loop"]
        if muts or [x for x in loops if x[1].kind != "model:any"] or len(loops) > 1 or len(pushes) > 1:
            return None
        t = None
        if loops:
            M, idx = loops[0][1], loops[0][2]
            if idx is None or M.source is None or M.stages:
                return None
            mway = M.iters[idx]
            eqs = [(ct, cv) for (ct, cv, cn, cs) in mway.path.conds if is_call(ev, ct, "eq") and len(ct[2]) == 2
                   and set([strip(ev, ct[2][0]), strip(ev, ct[2][1])]) == set([M.elem, L.elem])]
            if mway.end == "done" and len(pushes) == 1:
                t = strip(ev, M.source)
                if strip(ev, pushes[0][3][0]) != t:
                    return None
            elif mway.end == "break" and not pushes and eqs and all(cv == 1 for _, cv in eqs):
                t = strip(ev, M.source)
            else:
                return None
            mode = "set-extend"
        elif len(pushes) == 1:
            t = strip(ev, pushes[0][3][0])
        else:
            return None
        if target is not None and t != target:
            return None
        target = t
    if not n or target is None:
        return None
    return target, mode


def fold_extend_loops(ev, events):
    """The events with every loop that merely appends its source to a collection replaced by the `extend` call it stands for
    (value None; the callee carries `.mode`)."""
    from .sem import PseudoCallee
    out = []
    for x in events:
        if x[0] == "loop":
            r = extend_like(ev, x[1])
            if r is not None:
                c = PseudoCallee("extend", path="std::iter::Extend::extend")
                c.mode = r[1]
                c.local = False
                out.append(("call", x[1].site, c, (r[0], x[1].source), None))
                continue
        out.append(x)
    return out
