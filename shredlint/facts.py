"""Loading and indexing of the fact files written by the shred-facts driver.

Nothing here is specific to a property.  Bodies are addressed by *qualified
names* that do not contain impl numbers or line numbers:

  inherent method   <self head>::<name>          shred::dispatch::stage::StagesBuilder::insert
  trait impl method <SelfTy as Trait>::<name>    <shred::dispatch::stage::Stage<'_> as ...>::..
  trait default     <trait path>::<name>
  free fn           <path>
  closure           <qname of parent>::{closure#n}
"""
import json
import re


class AnchorError(Exception):
    """A rule could not find the construct it starts from (fail closed)."""


def _strip_lifetimes(s):
    if s is None:
        return None
    s = re.sub(r"<'[a-z_]+>", "", s)
    s = re.sub(r"'[a-z_]+, ", "", s)
    s = re.sub(r"&'[a-z_]+ ", "&", s)
    return s


class Body(object):
    def __init__(self, raw, facts):
        self.raw = raw
        self.facts = facts
        self.key = raw["key"]
        self.path = raw["path"]
        self.name = raw.get("name")
        self.kind = raw["kind"]
        self.container = raw.get("container")
        self.trait = raw.get("trait")
        self.self_ty = raw.get("self_ty")
        self.self_head = raw.get("self_head")
        self.blocks = raw["blocks"]
        self.locals = raw["locals"]
        self.arg_count = raw["arg_count"]
        self.span = raw["span"]
        self.is_closure = self.kind == "Closure"
        self.parent_key = raw.get("parent")
        self.root_key = raw.get("root")
        self.captures = raw.get("captures", [])
        self.qname = None  # filled by Facts
        self.closures = []  # child closure bodies (direct)

    @property
    def api(self):
        """Can a user of the crate name or be handed this function?  (A nominally `pub` item of a private module cannot.)"""
        r = self.raw
        return bool(r["exported"]) if "exported" in r else bool(r.get("pub"))

    def loc(self, bb=None):
        if bb is None:
            sp = self.span
        else:
            sp = self.blocks[bb]["term"]["span"]
        return "%s:%d" % (sp["file"], sp["line"])

    def __repr__(self):
        return "<Body %s>" % self.qname

    # ---- iteration helpers
    def calls(self):
        """Yield (bb, terminator) for every call terminator."""
        for i, blk in enumerate(self.blocks):
            t = blk["term"]
            if t["k"] == "call":
                yield i, t

    def normal_calls(self):
        """Calls in non-cleanup blocks."""
        for i, blk in enumerate(self.blocks):
            t = blk["term"]
            if t["k"] == "call" and not blk["cleanup"]:
                yield i, t


class Callee(object):
    """Normalised description of the function named in a call terminator."""

    def __init__(self, func_op):
        self.op = func_op
        self.fn = func_op.get("fn") if func_op.get("k") == "const" else None
        self.indirect = self.fn is None
        f = self.fn or {}
        self.key = f.get("key")
        self.path = f.get("path", "<indirect>")
        self.inst_path = f.get("inst_path", "<indirect>")
        self.name = f.get("name")
        self.local = f.get("local", False)
        self.crate = f.get("crate")
        self.container = f.get("container")
        self.trait = f.get("trait")
        self.self_head = f.get("self_head")
        self.self_ty = f.get("self_ty")
        self.args = f.get("args", [])
        r = f.get("resolved")
        self.resolved = r
        self.resolved_key = r.get("key") if r else None
        self.resolved_kind = r.get("inst_kind") if r else None
        self.resolved_local = bool(r and r.get("local"))
        self.virtual = bool(r and r.get("inst_kind") == "virtual")

    @property
    def self_arg(self):
        """For trait methods: the Self type argument (generic arg 0)."""
        if self.container == "trait" and self.args and self.args[0]["k"] == "ty":
            return self.args[0]
        return None

    @property
    def self_arg_s(self):
        a = self.self_arg
        return a["s"] if a else None

    def type_args(self):
        return [a for a in self.args if a["k"] == "ty"]

    def is_trait_method(self, trait, name=None):
        return self.trait == trait and (name is None or self.name == name)

    def short(self):
        if self.indirect:
            return "<indirect>"
        if self.trait and self.container == "trait":
            return "<%s as %s>::%s" % (self.self_arg_s, self.trait, self.name)
        return self.path

    def __repr__(self):
        return "<Callee %s>" % self.short()


class Facts(object):
    def __init__(self, raw, label=""):
        self.raw = raw
        self.label = label
        self.crate = raw["crate"]
        self.cfg = raw["cfg"]
        self.is_test = raw["is_test"]
        self.bodies = {}
        for b in raw["bodies"]:
            self.bodies[b["key"]] = Body(b, self)
        self.adts = {a["path"]: a for a in raw["adts"]}
        self.impls = raw["impls"]
        self.traits = {t["path"]: t for t in raw["traits"]}
        self.consts = {c["path"]: c for c in raw["consts"]}
        self._name_bodies()
        self.by_qname = {}
        for b in self.bodies.values():
            self.by_qname.setdefault(b.qname, []).append(b)
        self._callers = None

    # ---- naming
    def _name_bodies(self):
        for b in self.bodies.values():
            if b.is_closure:
                continue
            if b.container == "inherent":
                head = b.self_head if isinstance(b.self_head, str) else b.self_ty
                b.qname = "%s::%s" % (head, b.name)
            elif b.container == "trait_impl":
                b.qname = "<%s as %s>::%s" % (_strip_lifetimes(b.self_ty), b.trait, b.name)
            else:
                b.qname = re.sub(r"::<[^>]*>", "", b.path) if b.container == "trait" else b.path
        # closures: parent's qname + suffix, in order of nesting depth
        pending = [b for b in self.bodies.values() if b.is_closure]
        pending.sort(key=lambda b: b.key.count("{closure#"))
        for b in pending:
            parent = self.bodies.get(b.parent_key)
            suffix = b.key[len(b.parent_key):] if b.parent_key and b.key.startswith(b.parent_key) else "::{closure}"
            if parent is not None and parent.qname:
                b.qname = parent.qname + suffix
                parent.closures.append(b)
            else:
                b.qname = b.key

    # ---- lookup
    def find(self, qname=None, name=None, trait=None, self_head=None, container=None, pred=None):
        out = []
        for b in self.bodies.values():
            if qname is not None and b.qname != qname:
                continue
            if name is not None and b.name != name:
                continue
            if trait is not None and b.trait != trait:
                continue
            if self_head is not None and b.self_head != self_head:
                continue
            if container is not None and b.container != container:
                continue
            if pred is not None and not pred(b):
                continue
            out.append(b)
        out.sort(key=lambda b: b.key)
        return out

    def _free_fn_elsewhere(self, qname, kw):
        """A free function named by path that lives in another module now (and nowhere else)."""
        if not qname or kw or "<" in qname or qname.count("::") < 2:
            return []
        tail = qname.rsplit("::", 1)[1]
        crate = qname.split("::", 1)[0]
        c = [b for b in self.bodies.values() if not b.is_closure and b.container in (None, "none") and b.name == tail and b.qname.startswith(crate + "::")]
        return c if len(c) == 1 else []

    def one(self, qname=None, **kw):
        r = self.find(qname=qname, **kw) or self._free_fn_elsewhere(qname, kw)
        if len(r) != 1:
            raise AnchorError("anchor %s %s: expected exactly one body, found %d" % (qname or "", kw or "", len(r)))
        return r[0]

    def maybe(self, qname=None, **kw):
        r = self.find(qname=qname, **kw) or self._free_fn_elsewhere(qname, kw)
        return r[0] if len(r) == 1 else None

    def closures_of(self, body, recursive=True):
        out = []
        for c in sorted(body.closures, key=lambda b: b.key):
            out.append(c)
            if recursive:
                out.extend(self.closures_of(c, True))
        return out

    def adt(self, path):
        a = self.adts.get(path)
        if a is None:
            raise AnchorError("anchor ADT %s not found" % path)
        return a

    def adt_field(self, path, field):
        a = self.adt(path)
        for v in a["variants"]:
            for f in v["fields"]:
                if f["name"] == field:
                    return f
        raise AnchorError("anchor field %s.%s not found" % (path, field))

    # ---- call graph
    def callee(self, term):
        return Callee(term["func"])

    def target_bodies(self, callee, precise=False):
        """In-crate bodies a call may execute (static edge).  Resolved item if
        resolvable; otherwise for trait methods every in-crate impl/default
        (not with precise=True)."""
        out = []
        if callee.indirect:
            return out
        if callee.resolved_key and callee.resolved_kind == "item":
            if callee.resolved_key in self.bodies:
                return [self.bodies[callee.resolved_key]]
            if not callee.resolved_local:
                return []
        if callee.key in self.bodies and callee.container != "trait":
            return [self.bodies[callee.key]]
        if precise:
            return out
        if callee.container == "trait" and callee.trait:
            if callee.virtual or callee.resolved is None:
                # dyn or generic: all in-crate impls + default body
                for b in self.bodies.values():
                    if b.name == callee.name and b.trait == callee.trait and not b.is_closure:
                        out.append(b)
        return sorted(out, key=lambda b: b.key)

    def callers(self):
        """key of body -> list of (caller body, bb) for direct static calls and
        function references."""
        if self._callers is None:
            m = {}
            for b in self.bodies.values():
                for bb, t in b.calls():
                    c = Callee(t["func"])
                    for tb in self.target_bodies(c):
                        m.setdefault(tb.key, []).append((b, bb))
            self._callers = m
        return self._callers

    def cone(self, roots, follow_closures=True, stop=None, foreign_traits=True):
        """Set of in-crate bodies reachable from the root bodies through static
        call edges; closures created in a reached body are reached.
        foreign_traits=False: an unresolved call of a method of a trait that is not the crate's own (Iterator, IntoIterator,
        Clone, Debug, ..) is not taken to reach every in-crate impl of that trait - only resolved calls are followed for those."""
        seen = {}
        work = list(roots)
        while work:
            b = work.pop()
            if b.key in seen:
                continue
            if stop is not None and stop(b):
                continue
            seen[b.key] = b
            if follow_closures:
                work.extend(b.closures)
            for bb, t in b.calls():
                c = Callee(t["func"])
                if not foreign_traits and c.container == "trait" and c.trait and not c.trait.startswith(self.crate + "::"):
                    work.extend(self.target_bodies(c, precise=True))
                else:
                    work.extend(self.target_bodies(c))
            # function items referenced as values (e.g. `Conflict::add` passed to fold)
            for ref in fn_refs(b):
                if ref in self.bodies:
                    work.append(self.bodies[ref])
        return seen


def fn_refs(body):
    """Keys of functions mentioned as constants (not as the callee) in a body."""
    out = []

    def op(o):
        if isinstance(o, dict) and o.get("k") == "const" and "fn" in o:
            f = o["fn"]
            out.append(f.get("resolved", {}).get("key") if f.get("resolved") else f["key"])
            out.append(f["key"])

    for blk in body.blocks:
        for st in blk["stmts"]:
            if st["k"] == "assign":
                rv = st["rv"]
                for k in ("op", "a", "b"):
                    if k in rv:
                        op(rv[k])
                for o in rv.get("ops", []):
                    op(o)
        t = blk["term"]
        if t["k"] == "call":
            for a in t["args"]:
                op(a)
    return [x for x in out if x]


def _moved(data):
    """Types, traits and free functions the rules name by path (anchors.py) that are not where that path says, but exist exactly
    once elsewhere in the crate under the same name: {path found: path expected}.  Moving an item to another module changes
    nothing but its path."""
    from . import anchors as A
    if data.get("crate") != A.C:
        return {}
    want = sorted(set(v for k, v in vars(A).items() if k.isupper() and isinstance(v, str) and v.startswith(A.C + "::")))
    have = {}
    for a in data.get("adts", []):
        have.setdefault(a["path"].rsplit("::", 1)[-1], set()).add(a["path"])
    for t in data.get("traits", []):
        pth = t.get("path") if isinstance(t, dict) else None
        if pth:
            have.setdefault(pth.rsplit("::", 1)[-1], set()).add(pth)
    for b in data.get("bodies", []):
        if b.get("container") in (None, "none") and b.get("kind") != "closure" and b.get("path", "").startswith(A.C + "::") and "{" not in b.get("path", ""):
            have.setdefault(b["path"].rsplit("::", 1)[-1], set()).add(b["path"])
    present = set(p for ps in have.values() for p in ps)
    out = {}
    for w in want:
        if w in present:
            continue
        c = have.get(w.rsplit("::", 1)[-1], set())
        if len(c) == 1:
            out[list(c)[0]] = w
    return out


def load(path, label=""):
    with open(path) as f:
        text = f.read()
    data = json.loads(text)
    ren = _moved(data)
    if ren:
        import re
        for found, expected in sorted(ren.items(), key=lambda kv: -len(kv[0])):
            text = re.sub(re.escape(found) + r"(?![A-Za-z0-9_])", expected.replace("\\", "\\\\"), text)
        data = json.loads(text)
    return Facts(data, label=label)
