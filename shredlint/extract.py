"""Runs the fact extractor over /repo's current working tree.

Facts are cached under /verif/.cache/<tree hash>/<config>/ where the hash
covers the path and content of every file of /repo outside target/ and .git/,
the driver binary and the configuration, so a hit is only possible for
byte-identical inputs."""
import fcntl
import glob
import hashlib
import os
import shutil
import subprocess
import sys
import tempfile
import time

VERIF = os.path.dirname(os.path.dirname(os.path.abspath(__file__)))
REPO = os.environ.get("VERIF_REPO", "/repo")
DRIVER = os.path.join(VERIF, "driver", "target", "release", "shred-facts")
CACHE = os.environ.get("VERIF_CACHE_DIR") or os.path.join(VERIF, ".cache")

CONFIGS = {
    "default": ["--lib"],
    "nopar": ["--lib", "--no-default-features"],
    "nopar-derive": ["--lib", "--no-default-features", "--features", "shred-derive"],
    "nightly": ["--lib", "--features", "nightly"],
    "all-targets": ["--all-targets"],
}


def tree_hash(root, extra=()):
    h = hashlib.sha256()
    files = []
    for dp, dns, fns in os.walk(root):
        dns[:] = sorted(d for d in dns if d not in ("target", ".git"))
        for fn in sorted(fns):
            if fn.startswith("rustc-ice-"):
                continue
            files.append(os.path.join(dp, fn))
    for p in files:
        h.update(os.path.relpath(p, root).encode())
        h.update(b"\0")
        try:
            with open(p, "rb") as f:
                h.update(hashlib.sha256(f.read()).digest())
        except OSError:
            h.update(b"<unreadable>")
    for e in extra:
        h.update(b"\1")
        h.update(e.encode() if isinstance(e, str) else e)
    return h.hexdigest()


def driver_id():
    if not os.path.exists(DRIVER):
        raise SystemExit("driver not built: run MANIFEST.setup_cmd (cargo +nightly build --release --offline in /verif/driver)")
    with open(DRIVER, "rb") as f:
        return hashlib.sha256(f.read()).hexdigest()


def sysroot_lib():
    out = subprocess.check_output(["rustc", "+nightly", "--print", "sysroot"], cwd=os.path.join(VERIF, "driver"))
    return os.path.join(out.decode().strip(), "lib")


def _env(out_dir, target_dir, crates):
    env = dict(os.environ)
    env.update({
        "LD_LIBRARY_PATH": sysroot_lib() + (":" + env["LD_LIBRARY_PATH"] if env.get("LD_LIBRARY_PATH") else ""),
        "RUSTFLAGS": "-Zmir-opt-level=0 -Awarnings",
        "RUSTC_WORKSPACE_WRAPPER": DRIVER,
        "SHRED_FACTS_OUT": out_dir,
        "SHRED_FACTS_CRATES": crates,
        "CARGO_TARGET_DIR": target_dir,
        "CARGO_NET_OFFLINE": "true",
        "RUSTC_ICE": "0",
        "CARGO_INCREMENTAL": "0",
    })
    env.pop("RUSTC_WRAPPER", None)
    return env


class ExtractError(Exception):
    pass


_probe_tmp = []


def probe_dir():
    """Directory of the probe crate, with /repo's lock file; when a scratch copy of the
    repository is analysed (VERIF_REPO), a temporary copy whose dependency points there."""
    src = os.path.join(VERIF, "probe")
    if REPO == "/repo":
        shutil.copyfile(os.path.join(REPO, "Cargo.lock"), os.path.join(src, "Cargo.lock"))
        return src
    d = tempfile.mkdtemp(prefix="shred-probe-copy.")
    _probe_tmp.append(d)
    shutil.copytree(os.path.join(src, "src"), os.path.join(d, "src"))
    with open(os.path.join(src, "Cargo.toml")) as f:
        toml = f.read().replace('path = "/repo"', 'path = "%s"' % REPO)
    with open(os.path.join(d, "Cargo.toml"), "w") as f:
        f.write(toml)
    shutil.copyfile(os.path.join(REPO, "Cargo.lock"), os.path.join(d, "Cargo.lock"))
    import atexit
    atexit.register(lambda: shutil.rmtree(d, ignore_errors=True))
    return d


def extract(config, no_cache=False, log=None):
    """Return (dir with fact files, info dict)."""
    t0 = time.time()
    os.makedirs(CACHE, exist_ok=True)
    did = driver_id()
    th = tree_hash(REPO, extra=[did])
    sub = config + "-v4"    # v2: the derive crate is extracted with the library
    if config == "probe":
        sub = "probe-" + tree_hash(os.path.join(VERIF, "probe"))[:16]
    dest = os.path.join(CACHE, th[:32], sub)
    info = {"tree_hash": th, "config": config, "cache_hit": False}
    lock_path = os.path.join(CACHE, "lock-" + config)
    with open(lock_path, "w") as lock:
        fcntl.flock(lock, fcntl.LOCK_EX)
        if os.path.isdir(dest) and glob.glob(os.path.join(dest, "*.json")) and not no_cache and not os.environ.get("VERIF_NO_CACHE"):
            info["cache_hit"] = True
            info["extract_s"] = 0.0
            return dest, info
        tmp_out = tempfile.mkdtemp(prefix="shred-facts-out.")
        target = tempfile.mkdtemp(prefix="shred-facts-target.")
        try:
            if config == "probe":
                cwd = probe_dir()
                args = ["--lib"]
                crates = "shred_probe"
            else:
                cwd = REPO
                args = CONFIGS[config]
                crates = "*" if config == "all-targets" else "shred,shred_derive"
            cmd = ["cargo", "+nightly", "check", "--offline"] + args
            p = subprocess.run(cmd, cwd=cwd, env=_env(tmp_out, target, crates), stdout=subprocess.PIPE, stderr=subprocess.STDOUT)
            text = p.stdout.decode(errors="replace")
            if p.returncode != 0:
                raise ExtractError("cargo check failed for config %s:\n%s" % (config, text[-4000:]))
            files = glob.glob(os.path.join(tmp_out, "*.json"))
            if not files:
                raise ExtractError("no fact file produced for config %s:\n%s" % (config, text[-2000:]))
            os.makedirs(os.path.dirname(dest), exist_ok=True)
            if os.path.isdir(dest):
                shutil.rmtree(dest)
            shutil.move(tmp_out, dest)
        finally:
            shutil.rmtree(target, ignore_errors=True)
            shutil.rmtree(tmp_out, ignore_errors=True)
            _prune_cache(keep=th[:32])
    info["extract_s"] = round(time.time() - t0, 2)
    return dest, info


def _prune_cache(keep, max_entries=3):
    try:
        ents = [os.path.join(CACHE, d) for d in os.listdir(CACHE) if os.path.isdir(os.path.join(CACHE, d))]
        ents.sort(key=os.path.getmtime)
        for e in ents[:-max_entries]:
            if os.path.basename(e) != keep:
                shutil.rmtree(e, ignore_errors=True)
    except OSError:
        pass


def fact_files(d, crate=None, kind=None):
    out = []
    for p in sorted(glob.glob(os.path.join(d, "*.json"))):
        base = os.path.basename(p)
        parts = base.rsplit("-", 2)
        if crate is not None and parts[0] != crate:
            continue
        if kind is not None and parts[1] != kind:
            continue
        out.append(p)
    return out


if __name__ == "__main__":
    cfg = sys.argv[1] if len(sys.argv) > 1 else "default"
    d, info = extract(cfg, no_cache="--no-cache" in sys.argv)
    print(d, info)
    for f in fact_files(d):
        print("  ", os.path.basename(f), os.path.getsize(f))
