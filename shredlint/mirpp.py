"""Pretty-printer for the MIR facts (debugging / report text only)."""


def pp_place(p):
    s = "_%d" % p["l"]
    for e in p["p"]:
        k = e["k"]
        if k == "deref":
            s = "(*%s)" % s
        elif k == "field":
            s = "%s.%s" % (s, e.get("name", e["i"]))
        elif k == "index":
            s = "%s[_%d]" % (s, e["l"])
        elif k == "cindex":
            s = "%s[%s%d]" % (s, "-" if e["from_end"] else "", e["off"])
        elif k == "downcast":
            s = "(%s as %s)" % (s, e.get("variant"))
        else:
            s = "%s.<%s>" % (s, k)
    return s


def pp_op(o):
    k = o["k"]
    if k in ("copy", "move"):
        return ("move " if k == "move" else "") + pp_place(o["place"])
    if k == "const":
        if "fn" in o:
            return "fn " + o["fn"]["inst_path"]
        if "closure" in o:
            return "closure " + o["closure"]
        if "int" in o:
            return "const %s_%s" % (o["int"], o["ty"])
        return "const " + o.get("val", "?")
    return "<%s>" % k


def pp_rv(rv):
    k = rv["k"]
    if k == "use":
        return pp_op(rv["op"])
    if k == "ref":
        return "&%s%s" % ("mut " if rv["bk"] == "mut" else ("fake " if rv["bk"] == "fake" else ""), pp_place(rv["place"]))
    if k == "rawptr":
        return "&raw %s %s" % (rv["bk"], pp_place(rv["place"]))
    if k == "cast":
        return "%s as %s (%s)" % (pp_op(rv["op"]), rv["ty"], rv["kind"])
    if k == "binop":
        return "%s(%s, %s)" % (rv["op"], pp_op(rv["a"]), pp_op(rv["b"]))
    if k == "unop":
        return "%s(%s)" % (rv["op"], pp_op(rv["a"]))
    if k == "discr":
        return "discriminant(%s)" % pp_place(rv["place"])
    if k == "agg":
        ops = ", ".join(pp_op(x) for x in rv["ops"])
        a = rv["agg"]
        if a == "adt":
            fl = rv.get("fields", [])
            inner = ", ".join("%s: %s" % (f, pp_op(x)) for f, x in zip(fl, rv["ops"]))
            return "%s::%s { %s }" % (rv["adt"], rv["variant"], inner)
        if a == "closure":
            fl = rv.get("fields", [])
            inner = ", ".join("%s: %s" % (f, pp_op(x)) for f, x in zip(fl, rv["ops"]))
            return "closure %s { %s }" % (rv["closure"], inner)
        return "%s(%s)" % (a, ops)
    if k == "copy_for_deref":
        return "deref_copy " + pp_place(rv["place"])
    if k == "repeat":
        return "[%s; _]" % pp_op(rv["op"])
    return "<%s>" % k


def pp_span(sp):
    return "%s:%d%s" % (sp["file"], sp["line"], " (exp)" if sp["exp"] else "")


def pp_term(t):
    k = t["k"]
    if k == "call":
        f = t["func"]
        fs = pp_op(f)
        r = ""
        if f.get("k") == "const" and "fn" in f and f["fn"].get("resolved"):
            rr = f["fn"]["resolved"]
            if rr["key"] != f["fn"]["key"]:
                r = "  {=> %s [%s]}" % (rr["path"], rr.get("inst_kind"))
        return "%s = %s(%s) -> %s unwind %s%s" % (
            pp_place(t["dest"]), fs, ", ".join(pp_op(a) for a in t["args"]), t["target"], t["unwind"], r)
    if k == "goto":
        return "goto -> %s" % t["target"]
    if k == "switch":
        return "switch(%s) -> [%s, otherwise: %s]" % (
            pp_op(t["discr"]), ", ".join("%s: %s" % (v, b) for v, b in t["arms"]), t["otherwise"])
    if k == "drop":
        return "drop(%s) -> %s unwind %s" % (pp_place(t["place"]), t["target"], t["unwind"])
    if k == "assert":
        return "assert(%s == %s, %s) -> %s unwind %s" % (pp_op(t["cond"]), t["expected"], t["msg"], t["target"], t["unwind"])
    return k


def pp_body(b):
    out = []
    out.append("fn %s   [%s]  %s" % (b["path"], b["key"], pp_span(b["span"])))
    if b.get("sig"):
        out.append("  sig: %s" % b["sig"])
    if b.get("captures"):
        out.append("  captures: %s" % ", ".join("%s%s: %s" % ("&" if c["by_ref"] else "", c["name"], c["ty"]) for c in b["captures"]))
    names = {}
    for d in b["debug"]:
        v = d["val"]
        if "l" in v:
            names.setdefault(v["l"], []).append(d["name"] + ("" if not v["p"] else "@" + pp_place(v)))
    for i, l in enumerate(b["locals"]):
        tag = "ret" if i == 0 else ("arg" if i <= b["arg_count"] else "")
        out.append("  let _%d: %s  %s %s" % (i, l["ty"], tag, ",".join(names.get(i, []))))
    for i, blk in enumerate(b["blocks"]):
        out.append("  bb%d%s:" % (i, " (cleanup)" if blk["cleanup"] else ""))
        for st in blk["stmts"]:
            if st["k"] == "assign":
                out.append("    %s = %s" % (pp_place(st["place"]), pp_rv(st["rv"])))
            else:
                out.append("    <%s>" % st["k"])
        out.append("    %s      // %s" % (pp_term(blk["term"]), pp_span(blk["term"]["span"])))
    return "\n".join(out)


if __name__ == "__main__":
    import json, sys
    f = json.load(open(sys.argv[1]))
    pats = sys.argv[2:]
    for b in f["bodies"]:
        if not pats or any(p in b["key"] or p in b["path"] for p in pats):
            print(pp_body(b))
            print()
