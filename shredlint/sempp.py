"""Pretty-printer for sem.py results (debugging and report text)."""
from .sem import Evaluator, Policy


def short(ev, t, depth=0):
    if not isinstance(t, tuple) or not t:
        return str(t)
    k = t[0]
    if depth > 6:
        return "…"
    s = lambda x: short(ev, x, depth + 1)
    if k == "param":
        return "p%d" % t[1]
    if k == "upvar":
        return "^%s" % t[1]
    if k == "int":
        return str(t[1])
    if k == "const":
        return "const"
    if k == "fnref":
        return "fn:%s" % t[2]
    if k == "call":
        c = ev.callee(t[1])
        return "%s(%s)" % (c.name if c is not None else "?", ", ".join(s(a) for a in t[2]))
    if k == "field":
        return "%s.%s" % (s(t[1]), t[2])
    if k == "index":
        return "%s[%s]" % (s(t[1]), s(t[2]))
    if k == "variant":
        return "(%s as %s)" % (s(t[1]), t[2])
    if k == "agg":
        if t[1] == "closure":
            return "closure{%s}" % ", ".join("%s=%s" % (n, s(a)) for n, a in zip(t[4], t[3]))
        return "%s(%s)" % (t[2].rsplit("::", 1)[-1] if t[1] == "adt" else t[1], ", ".join(s(a) for a in t[3]))
    if k == "bin":
        return "(%s %s %s)" % (s(t[2]), t[1], s(t[3]))
    if k == "un":
        return "%s(%s)" % (t[1], s(t[2]))
    if k == "len":
        return "len(%s)" % s(t[1])
    if k == "discr":
        return "discr(%s)" % s(t[1])
    if k == "cast":
        return s(t[2])
    if k == "elem":
        return "elem@%s" % (t[1][-1],)
    if k == "iternext":
        return "next@%s" % (t[1][-1],)
    if k == "lvar":
        return "lvar@%s:%s" % (t[1][-1], t[2][-1])
    if k == "lexit":
        return "lexit@%s:%s" % (t[1][-1], t[2][-1])
    if k == "cellref":
        return "&cell%s" % (t[1][-1],)
    if k == "variant_of":
        return "variant:%s" % t[1]
    return "%s(..)" % k


def pp_path(ev, path, ind):
    out = []
    for (ct, cv, cn, cs) in path.conds:
        out.append("%s? %s = %s" % (ind, short(ev, ct), cn if cn is not None else cv))
    for e in path.events:
        if e[0] == "call":
            out.append("%s! %s" % (ind, short(ev, e[4])))
        elif e[0] == "store":
            out.append("%s! %s := %s" % (ind, short(ev, e[2]) if e[2][0] != "cell" else "cell%s" % (e[2][1][-1],), short(ev, e[3])))
        elif e[0] == "loop":
            out.append(pp_loop(ev, e[1], e[2], ind))
        else:
            out.append("%s! %s" % (ind, e[:1] + e[2:]))
    return "\n".join(x for x in out if x)


_shown = set()


def pp_loop(ev, L, idx, ind):
    out = ["%sLOOP %s %s over %s stages=%s exit-by=%s" % (ind, L.kind, L.id[-1:], short(ev, L.source) if L.source else None, [n for n, _ in L.stages], idx)]
    if id(L) in _shown:
        return out[0]
    _shown.add(id(L))
    for k, v in L.carried.items():
        out.append("%s  carried %s init %s" % (ind, k[-1], short(ev, v)))
    for i, it in enumerate(L.iters):
        out.append("%s  way %d: %s %s" % (ind, i, it.end, ("-> " + short(ev, it.ret)) if it.ret is not None else ""))
        out.append(pp_path(ev, it.path, ind + "      "))
        for k, v in it.updates.items():
            if v != ("lvar", L.id, k):
                out.append("%s      %s' = %s" % (ind, k[-1], short(ev, v)))
    return "\n".join(x for x in out if x)


def pp(ev, ends):
    out = []
    for i, e in enumerate(ends):
        out.append("END %d: %s %s" % (i, e.kind, short(ev, e.ret) if e.ret is not None else ""))
        out.append(pp_path(ev, e.path, "   "))
    return "\n".join(x for x in out if x)


if __name__ == "__main__":
    import sys
    from .facts import load
    f = load(sys.argv[1])
    opaque = sys.argv[3].split(",") if len(sys.argv) > 3 else []
    b = f.one(sys.argv[2])
    ev = Evaluator(f, Policy(opaque=opaque))
    ends = ev.eval(b)
    print(pp(ev, ends))
