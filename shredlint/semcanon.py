"""Canonical form of a structured evaluation: independent of call sites, frame identities, local numbering and the
order in which paths were found, so that two spellings of one computation compare equal.  Used by the engine
self-test (selftest/engine_equiv.py) and available to sibling rules."""
from .shapes import TRANSPARENT

# calls that only hand out a view / a pure observation: they stay inside terms but are not events of their own
QUIET = set(TRANSPARENT) | set(["filter", "map", "enumerate", "flatten", "flat_map", "rev", "chain", "zip", "skip", "take", "cloned", "copied", "filter_map", "inspect",
                                "by_ref", "len", "is_empty", "clone", "into_iter", "iter", "iter_mut", "deref", "deref_mut", "index", "index_mut", "from", "into",
                                "as_ref", "as_mut", "borrow", "to_owned", "must_use", "discriminant_value",
                                "new_uninit", "box_assume_init_into_vec_unsafe", "into_vec", "as_slice", "as_mut_slice"])


def _fresh_box(ev, t):
    """The place is inside a box that was allocated (uninitialised) on this path: writing it is how `vec![..]` fills
    its buffer, not something anybody else can see."""
    while isinstance(t, tuple) and t and t[0] in ("field", "proj", "cast", "variant", "index"):
        t = t[2] if t[0] == "cast" else t[1]
    if isinstance(t, tuple) and t and t[0] == "call":
        c = ev.callee(t[1])
        return c is not None and not c.local and c.name == "new_uninit"
    return False


class Canon(object):
    def __init__(self, ev, keep=()):
        self.ev = ev
        self.keep = frozenset(keep)   # names that stay visible although they are normally looked through
        self.live = None              # (loop id, key) of carried variables that are looked at; None: all
        self.loops = {}
        self.keys = {}
        self.subst = {}
        self.index_subst = {}

    def loop_name(self, lid):
        if lid not in self.loops:
            self.loops[lid] = "L%d" % len(self.loops)
        return self.loops[lid]

    def key_name(self, k):
        if k not in self.keys:
            self.keys[k] = "k%d" % len(self.keys)
        return self.keys[k]

    def term(self, t):
        if not isinstance(t, tuple) or not t:
            return t
        if t in self.subst:
            return self.subst[t]
        k = t[0]
        if k == "call":
            c = self.ev.callee(t[1])
            name = (c.name if c is not None else "?")
            if name in ("call", "call_mut", "call_once", "<indirect>") and t[2]:
                # calling an unknown callable: one spelling for `f(x)`, FnOnce::call_once(f, (x,)) and a modelled call
                rest = t[2][1:]
                if len(rest) == 1 and isinstance(rest[0], tuple) and rest[0][:2] == ("agg", "tuple"):
                    rest = rest[0][3]
                return ("apply", self.term(t[2][0]), tuple(self.term(a) for a in rest))
            if name in ("cast", "cast_mut", "cast_const") and c is not None and not getattr(c, "local", False) and "ptr::" in (getattr(c, "path", "") or "") and len(t[2]) == 1:
                return self.term(t[2][0])    # a raw pointer retyped: same address, same provenance
            if name in ("deref", "deref_mut", "as_ref", "as_mut", "borrow", "into_iter", "iter", "iter_mut", "from", "into", "clone", "must_use", "as_slice", "as_mut_slice") and t[2] and name not in self.keep:
                return self.term(t[2][0])
            return ("call", name, tuple(self.term(a) for a in t[2]))
        if k in ("elem", "iternext"):
            return (k, self.loop_name(t[1]))
        if k in ("lvar", "lexit"):
            return (k, self.loop_name(t[1]), self.key_name(t[2]))
        if k == "cellref":
            return (k, self.key_name(t[1]))
        if k == "agg":
            if t[1] == "closure":
                return ("closure", tuple(self.term(a) for a in t[3]))
            return ("agg", t[2], tuple(self.term(a) for a in t[3]))
        if k == "fnref":
            return ("fnref", t[2])
        if k == "cast":
            return self.term(t[2])
        if k == "field":
            return ("field", self.term(t[1]), t[2])
        if k == "index":
            b_, i_ = self.term(t[1]), self.term(t[2])
            return self.index_subst.get((b_, i_), ("index", b_, i_))
        if k == "bin":
            op, a, b = t[1].replace("WithOverflow", "").replace("Unchecked", ""), self.term(t[2]), self.term(t[3])
            flip = {"Gt": "Lt", "Ge": "Le"}
            if op in flip:
                op, a, b = flip[op], b, a
            return ("bin", op, a, b)
        if k == "const":
            return ("const",)
        if k in ("undef", "havoc"):
            return (k,)
        return (k,) + tuple(self.term(x) if isinstance(x, tuple) else x for x in t[1:])

    def cond(self, c):
        ct, cv, cn, cs = c
        t = self.term(ct)
        v = cn if cn is not None else cv
        # `a <= b` decided false is `b < a` decided true
        if isinstance(t, tuple) and t and t[0] == "bin" and t[1] in ("Lt", "Le") and v in (0, 1):
            if v == 0:
                t = ("bin", "Le" if t[1] == "Lt" else "Lt", t[3], t[2])
                v = 1
        return (t, v)

    def conds(self, path):
        """What the path decided, as a sorted tuple: for enum scrutinees the final set of possible variants."""
        out = set()
        for c in path.conds:
            if c[0][0] == "discr":
                continue
            out.add(repr(self.cond(c)))
        for atom, names in path.narrow.items():
            if atom[1][0] == "iternext":
                continue   # "the iterator yielded an element" is what being in the iteration means
            out.add(repr((self.term(atom), "|".join(sorted(names)))))
        return tuple(sorted(out))

    def events(self, events):
        out = []
        for x in events:
            if x[0] == "call":
                if x[2].name in QUIET and x[2].name not in self.keep:
                    continue
                if x[2].name in ("cast", "cast_mut", "cast_const") and not getattr(x[2], "local", False) and "ptr::" in (getattr(x[2], "path", "") or ""):
                    continue
                out.append(self.term(x[4]) if x[4] is not None else ("call", x[2].name, tuple(self.term(a) for a in x[3])))
            elif x[0] == "store":
                if x[2][0] != "cell" and _fresh_box(self.ev, x[2]):
                    continue
                pl = ("cell", self.key_name(x[2][1])) if x[2][0] == "cell" else self.term(x[2])
                out.append(("store", pl, self.term(x[3])))
            elif x[0] == "loop":
                out.append(self.loop(x[1], x[2]))
                # what the way that leaves the loop does before leaving belongs to the sequence of this path, whether it is
                # written inside the loop body or after the loop
                L, idx = x[1], x[2]
                if idx is not None and L.iters[idx].end in ("break", "return", "diverge"):
                    out.extend(self.events(L.iters[idx].path.events))
            elif x[0] in ("yield", "retain"):
                out.append((x[0], self.term(x[2]) if isinstance(x[2], tuple) else x[2]))
            elif x[0] == "panic":
                out.append(("panic",))
            elif x[0] == "optset":
                continue
            elif x[0] in ("once", "once-end"):
                out.append((x[0], x[2] if len(x) > 2 else None))
        return tuple(out)

    def loop(self, L, idx):
        name = self.loop_name(L.id)
        skip = set()
        if L.kind == "counter":
            # `while i < n { ..; i += 1 }`: the counter is the element of a range traversal, not a variable of its own
            if L.elem is not None and L.elem[0] == "lvar":
                self.subst[L.elem] = ("elem", name)
            if L.counter_key is not None:
                skip.add(L.counter_key)
        if self.live is not None:
            skip |= set(k for k in L.carried if (L.id, k) not in self.live)
        # `for i in 0..xs.len() { .. xs[i] .. }` visits the elements of xs: xs[i] is the element
        src_override = None
        s = L.source
        if isinstance(s, tuple) and s[0] == "agg" and s[2] == "std::ops::Range::Range" and len(s[3]) == 2 and s[3][0] == ("int", 0):
            hi = self.term(s[3][1])
            inner = None
            if isinstance(hi, tuple) and hi[0] == "call" and hi[1] == "len" and len(hi[2]) == 1:
                inner = hi[2][0]
            elif isinstance(hi, tuple) and hi[0] == "len":
                inner = hi[1]
            if inner is not None:
                self.index_subst[(inner, ("elem", name))] = ("elem", name + "@")
                src_override = inner
        for k in sorted(L.carried, key=lambda k: repr(self.term(L.carried[k]))):
            if k not in skip:
                self.key_name(k)
        def build():
            ws = []
            for it in L.iters:
                if it.end == "done":
                    continue
                ups = tuple(sorted((self.key_name(k), repr(self.term(v))) for k, v in it.updates.items() if v != ("lvar", L.id, k) and k not in skip))
                if it.end == "continue":
                    ws.append((it.end, self.conds(it.path), repr(self.events(it.path.events)), ups, None))
                else:
                    # a way out: when it is taken is part of the loop; what it does on the way out is part of the path that takes it
                    ws.append(("exit", self.conds(it.path), None, ups, None))
            return ws

        ways = build()
        src = self.term(L.source) if L.source is not None else None
        stages = ()
        if src_override is not None:
            text = repr(ways)
            marked = "'elem', '%s@'" % name
            bare = "'elem', '%s'" % name
            if marked in text.replace("\\", "") and bare not in text.replace("\\", "").replace(marked, ""):
                # every use of the index is an access to xs[i]: a traversal of xs
                for k2 in [k2 for k2, v2 in self.index_subst.items() if v2 == ("elem", name + "@")]:
                    self.index_subst[k2] = ("elem", name)
                ways = build()
                src = src_override
        carried = tuple(sorted((self.key_name(k), repr(self.term(v))) for k, v in L.carried.items() if k not in skip))
        exit_how = None
        if idx is not None:
            it = L.iters[idx]
            exit_how = "done" if it.end == "done" else ("exit", self.conds(it.path))
        return ("loop", name, repr(src), stages, carried, tuple(sorted(ways, key=repr)), repr(exit_how))


def _vars_in(t, acc):
    if isinstance(t, tuple):
        if len(t) == 3 and t[0] in ("lvar", "lexit"):
            acc.add((t[1], t[2]))
        for x in t:
            if isinstance(x, (tuple, list)):
                _vars_in(x, acc)
    elif isinstance(t, list):
        for x in t:
            _vars_in(x, acc)


def _live_keys(e):
    """(loop id, key) of the loop-carried variables that something on this way looks at: a condition, an argument, a stored
    or returned value, or the update of another live variable.  A variable that is only ever written (a drop flag, a
    temporary that happens to straddle the loop head) is not part of what the function does."""
    live = set()
    updates = {}

    def scan_path(path):
        for (ct, cv, cn, cs) in path.conds:
            _vars_in(ct, live)
        for x in path.events:
            if x[0] == "loop":
                L = x[1]
                _vars_in(L.source, live)
                for it in L.iters:
                    scan_path(it.path)
                    _vars_in(it.ret, live)
                    for k, v in it.updates.items():
                        updates.setdefault((L.id, k), []).append(v)
            elif x[0] == "call":
                _vars_in(x[3], live)
            elif x[0] in ("store", "yield", "optset"):
                _vars_in(tuple(y for y in x[2:] if isinstance(y, tuple)), live)
            elif x[0] == "once":
                _vars_in(x[3], live)

    scan_path(e.path)
    _vars_in(e.ret, live)
    changed = True
    while changed:
        changed = False
        for lk in list(live):
            for v in updates.get(lk, []):
                acc = set()
                _vars_in(v, acc)
                new = acc - live
                if new:
                    live |= new
                    changed = True
    return live


def canonical(ev, ends, keep=()):
    """A frozenset of path descriptions."""
    out = set()
    for e in ends:
        c = Canon(ev, keep)
        c.live = _live_keys(e)
        evs = c.events(e.path.events)
        conds = c.conds(e.path)
        ret = repr(c.term(e.ret)) if e.ret is not None else None
        out.add((e.kind, conds, repr(evs), ret))
    return frozenset(out)
