"""Meaning of the standard-library combinators that shred's code (or a refactoring of it) uses, for sem.py.

Every model returns a list of results: ('val', env, path, value) or ('diverge' | 'unreachable', env, path).
They are the documented semantics of the functions, written once here instead of being re-derived from
the (specialised, unsafe) library source."""
from .sem import (model, Loop, Iter, Path, Cx, PseudoCallee, NONE, UNIT, OPTION, RESULT, CONTROL, some, mk_variant, ITER_TRAITS)

# unary adaptors that neither drop nor reorder nor transform elements
IDENTITY_ADAPTORS = set(["cloned", "copied", "by_ref", "fuse", "peekable"])
STAGE_ADAPTORS = set(["map", "filter", "filter_map", "inspect", "enumerate", "flat_map", "flatten"])
FLAT = ("flat_map", "flatten")
LAZY = STAGE_ADAPTORS | IDENTITY_ADAPTORS | set(["rev", "skip", "take", "zip", "chain", "flatten", "flat_map", "step_by", "take_while",
                                                 "skip_while", "map_while", "scan", "cycle", "iter", "iter_mut", "into_iter"])


def _fork(cx, n):
    """n independent copies of the environment (the first is the original)."""
    return [cx.env] + [dict(cx.env) for _ in range(n - 1)]


def _apply(ev, cx, f, argv, env, path, tag, i=None):
    return ev.apply(f, argv, cx.fid, (cx.bb, tag), env, path, fop=cx.fop(i) if i is not None else None)


# ---------------------------------------------------------------------------- Option

def _opt_split(ev, cx, opt):
    sp = ev.split_variant(opt, OPTION, cx.path, cx.site)
    envs = _fork(cx, len(sp))
    return [(n, p, envs[i]) for i, (n, p) in enumerate(sp)]


def _res_split(ev, cx, r):
    sp = ev.split_variant(r, RESULT, cx.path, cx.site)
    envs = _fork(cx, len(sp))
    return [(n, p, envs[i]) for i, (n, p) in enumerate(sp)]


def _panic(cx, env, path, what):
    path.events.append(("panic", cx.site, what))
    return ("diverge", env, path)


@model("map", "option")
def opt_map(ev, cx, args):
    out = []
    for n, p, env in _opt_split(ev, cx, args[0]):
        if n == "None":
            out.append(("val", env, p, NONE))
        else:
            for r in _apply(ev, cx, args[1], (ev.payload(args[0], OPTION, "Some"),), env, p, "f", 1):
                out.append(("val", r[1], r[2], some(r[3])) if r[0] == "val" else r)
    return out


@model("and_then", "option")
def opt_and_then(ev, cx, args):
    out = []
    for n, p, env in _opt_split(ev, cx, args[0]):
        if n == "None":
            out.append(("val", env, p, NONE))
        else:
            out.extend(_apply(ev, cx, args[1], (ev.payload(args[0], OPTION, "Some"),), env, p, "f", 1))
    return out


@model("unwrap_or", "option")
def opt_unwrap_or(ev, cx, args):
    out = []
    for n, p, env in _opt_split(ev, cx, args[0]):
        out.append(("val", env, p, args[1] if n == "None" else ev.payload(args[0], OPTION, "Some")))
    return out


@model("unwrap_or_else", "option")
def opt_unwrap_or_else(ev, cx, args):
    out = []
    for n, p, env in _opt_split(ev, cx, args[0]):
        if n == "None":
            out.extend(_apply(ev, cx, args[1], (), env, p, "f", 1))
        else:
            out.append(("val", env, p, ev.payload(args[0], OPTION, "Some")))
    return out


@model("or_else", "option")
def opt_or_else(ev, cx, args):
    out = []
    for n, p, env in _opt_split(ev, cx, args[0]):
        if n == "None":
            out.extend(_apply(ev, cx, args[1], (), env, p, "f", 1))
        else:
            out.append(("val", env, p, args[0]))
    return out


@model("map_or", "option")
def opt_map_or(ev, cx, args):
    out = []
    for n, p, env in _opt_split(ev, cx, args[0]):
        if n == "None":
            out.append(("val", env, p, args[1]))
        else:
            out.extend(_apply(ev, cx, args[2], (ev.payload(args[0], OPTION, "Some"),), env, p, "f", 2))
    return out


@model("map_or_else", "option")
def opt_map_or_else(ev, cx, args):
    out = []
    for n, p, env in _opt_split(ev, cx, args[0]):
        if n == "None":
            out.extend(_apply(ev, cx, args[1], (), env, p, "d", 1))
        else:
            out.extend(_apply(ev, cx, args[2], (ev.payload(args[0], OPTION, "Some"),), env, p, "f", 2))
    return out


@model("is_some_and", "option")
def opt_is_some_and(ev, cx, args):
    out = []
    for n, p, env in _opt_split(ev, cx, args[0]):
        if n == "None":
            out.append(("val", env, p, ("int", 0)))
        else:
            out.extend(_apply(ev, cx, args[1], (ev.payload(args[0], OPTION, "Some"),), env, p, "f", 1))
    return out


@model("filter", "option")
def opt_filter(ev, cx, args):
    """`x.filter(p)` is `match x { Some(v) if p(&v) => Some(v), _ => None }`."""
    out = []
    for n, p, env in _opt_split(ev, cx, args[0]):
        if n == "None":
            out.append(("val", env, p, NONE))
            continue
        v = ev.payload(args[0], OPTION, "Some")
        for r in _apply(ev, cx, args[1], (v,), env, p, "f", 1):
            if r[0] != "val":
                out.append(r)
                continue
            sp = ev.split_bool(r[3], r[2], (cx.fid, (cx.bb, "t")))
            envs = [r[1]] + [dict(r[1]) for _ in sp[1:]]
            for i, (b, p2) in enumerate(sp):
                out.append(("val", envs[i], p2, some(v) if b == 1 else NONE))
    return out


@model("ok_or", "option")
def opt_ok_or(ev, cx, args):
    out = []
    for n, p, env in _opt_split(ev, cx, args[0]):
        out.append(("val", env, p, mk_variant(RESULT, "Err", [args[1]]) if n == "None" else mk_variant(RESULT, "Ok", [ev.payload(args[0], OPTION, "Some")])))
    return out


@model("ok_or_else", "option")
def opt_ok_or_else(ev, cx, args):
    out = []
    for n, p, env in _opt_split(ev, cx, args[0]):
        if n == "None":
            for r in _apply(ev, cx, args[1], (), env, p, "f", 1):
                out.append(("val", r[1], r[2], mk_variant(RESULT, "Err", [r[3]])) if r[0] == "val" else r)
        else:
            out.append(("val", env, p, mk_variant(RESULT, "Ok", [ev.payload(args[0], OPTION, "Some")])))
    return out


def _opt_unwrap(ev, cx, args):
    out = []
    for n, p, env in _opt_split(ev, cx, args[0]):
        if n == "None":
            out.append(_panic(cx, env, p, cx.callee.name))
        else:
            out.append(("val", env, p, ev.payload(args[0], OPTION, "Some")))
    return out


model("unwrap", "option")(_opt_unwrap)
model("expect", "option")(_opt_unwrap)


@model("is_some", "option")
def opt_is_some(ev, cx, args):
    return [("val", env, p, ("int", 1 if n == "Some" else 0)) for n, p, env in _opt_split(ev, cx, args[0])]


@model("is_none", "option")
def opt_is_none(ev, cx, args):
    return [("val", env, p, ("int", 1 if n == "None" else 0)) for n, p, env in _opt_split(ev, cx, args[0])]


def _identity(ev, cx, args):
    return [("val", cx.env, cx.path, args[0])]


for _n in ("as_ref", "as_mut", "as_deref", "as_deref_mut", "cloned", "copied"):
    model(_n, "option")(_identity)


# ---------------------------------------------------------------------------- Result

@model("map", "result")
def res_map(ev, cx, args):
    out = []
    for n, p, env in _res_split(ev, cx, args[0]):
        if n == "Err":
            out.append(("val", env, p, mk_variant(RESULT, "Err", [ev.payload(args[0], RESULT, "Err")])))
        else:
            for r in _apply(ev, cx, args[1], (ev.payload(args[0], RESULT, "Ok"),), env, p, "f", 1):
                out.append(("val", r[1], r[2], mk_variant(RESULT, "Ok", [r[3]])) if r[0] == "val" else r)
    return out


@model("map_err", "result")
def res_map_err(ev, cx, args):
    out = []
    for n, p, env in _res_split(ev, cx, args[0]):
        if n == "Ok":
            out.append(("val", env, p, mk_variant(RESULT, "Ok", [ev.payload(args[0], RESULT, "Ok")])))
        else:
            for r in _apply(ev, cx, args[1], (ev.payload(args[0], RESULT, "Err"),), env, p, "f", 1):
                out.append(("val", r[1], r[2], mk_variant(RESULT, "Err", [r[3]])) if r[0] == "val" else r)
    return out


@model("and_then", "result")
def res_and_then(ev, cx, args):
    out = []
    for n, p, env in _res_split(ev, cx, args[0]):
        if n == "Err":
            out.append(("val", env, p, mk_variant(RESULT, "Err", [ev.payload(args[0], RESULT, "Err")])))
        else:
            out.extend(_apply(ev, cx, args[1], (ev.payload(args[0], RESULT, "Ok"),), env, p, "f", 1))
    return out


@model("or_else", "result")
def res_or_else(ev, cx, args):
    out = []
    for n, p, env in _res_split(ev, cx, args[0]):
        if n == "Ok":
            out.append(("val", env, p, mk_variant(RESULT, "Ok", [ev.payload(args[0], RESULT, "Ok")])))
        else:
            out.extend(_apply(ev, cx, args[1], (ev.payload(args[0], RESULT, "Err"),), env, p, "f", 1))
    return out


@model("ok", "result")
def res_ok(ev, cx, args):
    return [("val", env, p, some(ev.payload(args[0], RESULT, "Ok")) if n == "Ok" else NONE) for n, p, env in _res_split(ev, cx, args[0])]


@model("err", "result")
def res_err(ev, cx, args):
    return [("val", env, p, some(ev.payload(args[0], RESULT, "Err")) if n == "Err" else NONE) for n, p, env in _res_split(ev, cx, args[0])]


@model("is_ok", "result")
def res_is_ok(ev, cx, args):
    return [("val", env, p, ("int", 1 if n == "Ok" else 0)) for n, p, env in _res_split(ev, cx, args[0])]


@model("is_err", "result")
def res_is_err(ev, cx, args):
    return [("val", env, p, ("int", 1 if n == "Err" else 0)) for n, p, env in _res_split(ev, cx, args[0])]


def _res_unwrap(ev, cx, args):
    out = []
    for n, p, env in _res_split(ev, cx, args[0]):
        if n == "Err":
            out.append(_panic(cx, env, p, cx.callee.name))
        else:
            out.append(("val", env, p, ev.payload(args[0], RESULT, "Ok")))
    return out


model("unwrap", "result")(_res_unwrap)
model("expect", "result")(_res_unwrap)


@model("unwrap_or_else", "result")
def res_unwrap_or_else(ev, cx, args):
    out = []
    for n, p, env in _res_split(ev, cx, args[0]):
        if n == "Err":
            out.extend(_apply(ev, cx, args[1], (ev.payload(args[0], RESULT, "Err"),), env, p, "f", 1))
        else:
            out.append(("val", env, p, ev.payload(args[0], RESULT, "Ok")))
    return out


@model("unwrap_or", "result")
def res_unwrap_or(ev, cx, args):
    return [("val", env, p, args[1] if n == "Err" else ev.payload(args[0], RESULT, "Ok")) for n, p, env in _res_split(ev, cx, args[0])]


for _n in ("as_ref", "as_mut"):
    model(_n, "result")(_identity)


# ---------------------------------------------------------------------------- `?`

@model("branch", "try")
def try_branch(ev, cx, args):
    st = cx.callee.self_arg_s or ""
    out = []
    if st.startswith(OPTION):
        for n, p, env in _opt_split(ev, cx, args[0]):
            out.append(("val", env, p, mk_variant(CONTROL, "Continue", [ev.payload(args[0], OPTION, "Some")]) if n == "Some" else mk_variant(CONTROL, "Break", [NONE])))
        return out
    if st.startswith(RESULT):
        for n, p, env in _res_split(ev, cx, args[0]):
            out.append(("val", env, p, mk_variant(CONTROL, "Continue", [ev.payload(args[0], RESULT, "Ok")]) if n == "Ok"
                        else mk_variant(CONTROL, "Break", [mk_variant(RESULT, "Err", [ev.payload(args[0], RESULT, "Err")])])))
        return out
    return None


@model("from_residual", "try")
def try_from_residual(ev, cx, args):
    st = cx.callee.self_arg_s or ""
    if st.startswith(OPTION):
        return [("val", cx.env, cx.path, NONE)]
    if st.startswith(RESULT) and args[0][0] == "agg" and args[0][2] == RESULT + "::Err":
        return [("val", cx.env, cx.path, args[0])]
    return None


# ---------------------------------------------------------------------------- bool

@model("then", "bool")
def bool_then(ev, cx, args):
    out = []
    sp = ev.split_bool(args[0], cx.path, cx.site)
    envs = _fork(cx, len(sp))
    for i, (v, p) in enumerate(sp):
        if v == 0:
            out.append(("val", envs[i], p, NONE))
        else:
            for r in _apply(ev, cx, args[1], (), envs[i], p, "f", 1):
                out.append(("val", r[1], r[2], some(r[3])) if r[0] == "val" else r)
    return out


@model("then_some", "bool")
def bool_then_some(ev, cx, args):
    sp = ev.split_bool(args[0], cx.path, cx.site)
    envs = _fork(cx, len(sp))
    return [("val", envs[i], p, some(args[1]) if v else NONE) for i, (v, p) in enumerate(sp)]


# ---------------------------------------------------------------------------- Fn traits, intrinsics

def _tuple_arity(ty):
    ty = ty.strip()
    if not (ty.startswith("(") and ty.endswith(")")):
        return None
    inner = ty[1:-1].strip()
    if not inner:
        return 0
    depth = 0
    n = 1
    for ch in inner:
        if ch in "<([":
            depth += 1
        elif ch in ">)]":
            depth -= 1
        elif ch == "," and depth == 0:
            n += 1
    if inner.endswith(","):
        n -= 1
    return n


def _fn_call(ev, cx, args):
    f = args[0]
    tup = args[1] if len(args) > 1 else UNIT
    if tup[0] == "agg" and tup[1] == "tuple":
        argv = tup[3]
    else:
        n = None
        o = cx.ops[1] if cx.ops and len(cx.ops) > 1 else None
        if o is not None and "place" in o:
            n = _tuple_arity(o["place"].get("ty", ""))
        if n is None:
            return None
        argv = tuple(("field", tup, str(i), "tuple") for i in range(n))
    if f[0] not in ("agg", "closure", "fnref"):
        return None
    return ev.apply(f, argv, cx.fid, (cx.bb, "call"), cx.env, cx.path, fop=cx.fop(0))


for _n in ("call", "call_mut", "call_once"):
    model(_n, "fn")(_fn_call)


@model("discriminant_value", "intrinsic")
def discriminant_value(ev, cx, args):
    t = args[0]
    if t[0] == "agg" and t[1] == "adt":
        return [("val", cx.env, cx.path, ("variant_of", t[2].rsplit("::", 1)[1], t))]
    ty = None
    o = cx.ops[0] if cx.ops else None
    if o is not None and "place" in o:
        ty = o["place"].get("ty")
    if ty is None:
        return None
    return [("val", cx.env, cx.path, ev.discr_atom(t, ty))]


# ---------------------------------------------------------------------------- iterators

def peel(ev, t):
    """Split an iterator term into (base, [(adaptor, callable term), ...] in application order)."""
    stages = []
    while isinstance(t, tuple) and t and t[0] == "call":
        c = ev.callee(t[1])
        if c is None or c.local or not t[2]:
            break
        if c.name == "into_iter" and isinstance(t[2][0], tuple) and t[2][0][0] == "call":
            ic = ev.callee(t[2][0][1])
            if ic is not None and not ic.local and ic.trait in ITER_TRAITS and ic.name in LAZY:
                t = t[2][0]
                continue
            break
        if c.trait in ITER_TRAITS and c.name in IDENTITY_ADAPTORS:
            t = t[2][0]
        elif c.trait in ITER_TRAITS and c.name in STAGE_ADAPTORS:
            stages.append((c.name, t[2][1] if len(t[2]) > 1 else None))
            t = t[2][0]
        else:
            break
    stages.reverse()
    return t, stages


def run_stages(ev, cx, L, stages, x, env, path):
    """Push element `x` through the lazy adaptors: list of ('val'|'continue'|'diverge'.., env, path, element)."""
    cur = [("val", env, path, x)]
    for si, (name, f) in enumerate(stages):
        nxt = []
        for (st, env1, p1, x1) in cur:
            if st != "val":
                nxt.append((st, env1, p1, x1))
                continue
            if name == "enumerate":
                nxt.append(("val", env1, p1, ("agg", "tuple", "tuple", (("index_of", L.id), x1), ())))
                continue
            rs = _apply(ev, cx, f, (x1,), env1, p1, "s%d" % si)
            for r in rs:
                if r[0] != "val":
                    nxt.append((r[0], r[1], r[2], None))
                    continue
                _, env2, p2, v = r
                if name == "map":
                    nxt.append(("val", env2, p2, v))
                elif name == "inspect":
                    nxt.append(("val", env2, p2, x1))
                elif name == "filter":
                    sp = ev.split_bool(v, p2, (cx.fid, (cx.bb, "s%d" % si)))
                    envs = [env2] + [dict(env2) for _ in sp[1:]]
                    for i, (b, p3) in enumerate(sp):
                        nxt.append(("val" if b else "continue", envs[i], p3, x1))
                elif name == "filter_map":
                    sp = ev.split_variant(v, OPTION, p2, (cx.fid, (cx.bb, "s%d" % si)))
                    envs = [env2] + [dict(env2) for _ in sp[1:]]
                    for i, (n, p3) in enumerate(sp):
                        nxt.append(("val", envs[i], p3, ev.payload(v, OPTION, "Some")) if n == "Some" else ("continue", envs[i], p3, None))
        cur = nxt
    return cur


def _loop(ev, cx, lid, kind, base, stages, body_fn, iter_ty):
    """One modelled loop (recursively: one per flatten / flat_map level).  Returns (Loop, results) with results
    (end, env, path, value, idx): end in break / done / diverge / unreachable."""
    flat = [i for i, (n, _) in enumerate(stages) if n in FLAT]
    pre, rest = (stages[:flat[0]], stages[flat[0]:]) if flat else (stages, [])
    L = Loop(lid, cx.site, kind)
    L.elem = ("elem", lid)
    env = cx.env

    def iterate(env0):
        L.source = L.raw_source = base
        L.stages = pre
        L.iter_ty = iter_ty
        out = []
        for (st, env1, p1, x) in run_stages(ev, cx, L, pre, L.elem, env0, Path()):
            if st != "val":
                out.append((st, env1, p1, None, None))
                continue
            if not rest:
                for (end, env2, p2, ret) in body_fn(x, env1, p1, L):
                    out.append((end, env2, p2, ret, None))
                continue
            # the element is itself traversed (flatten) or mapped to something that is (flat_map)
            name, f = rest[0]
            inners = [("val", env1, p1, x)] if name == "flatten" else _apply(ev, cx, f, (x,), env1, p1, "fm%d" % len(lid))
            for r in inners:
                if r[0] != "val":
                    out.append((r[0], r[1], r[2], None, None))
                    continue
                ibase, istages = peel(ev, r[3])
                sub = Cx(cx.fid, cx.body, cx.bb, r[1], r[2], cx.site, cx.callee, cx.ops)
                Li, res = _loop(ev, sub, lid + ("in",), kind, ibase, istages + rest[1:], body_fn, None)
                for (end, env2, p2, val, idx) in res:
                    out.append(("continue" if end == "done" else end, env2, p2, val, None))
        return out

    ev.loop_fixpoint(L, env, iterate)
    results = []
    for idx, it in enumerate(L.iters):
        if it.end == "continue":
            continue
        p = cx.path.copy()
        p.events.append(("loop", L, idx))
        p.conds.extend(c for c in it.path.conds if c not in p.conds)
        p.narrow.update(it.path.narrow)
        results.append((it.end, dict(it.env) if it.end == "break" else it.env, p, it.ret, idx))
    env_after = dict(env)
    L.set_exit(env_after)
    L.iters.append(Iter(Path(), "done", dict((k, ("lvar", lid, k)) for k in L.carried)))
    p = cx.path.copy()
    p.events.append(("loop", L, len(L.iters) - 1))
    results.append(("done", env_after, p, None, len(L.iters) - 1))
    return L, results


def model_loop(ev, cx, name, recv, body_fn, done_value, init=None):
    """Common skeleton of the consuming iterator methods.
    body_fn(x, env, path, L) -> list of (end, env, path, ret) with end in continue / break / diverge."""
    base, stages = peel(ev, recv)
    lid = (cx.fid, cx.bb, name)
    if init is not None:
        cx.env[(lid, "acc")] = init
    ev.callees.setdefault(cx.site, cx.callee)
    L, res = _loop(ev, cx, lid, "model:" + name, base, stages, body_fn, cx.callee.self_arg_s)
    out = []
    for (end, env, path, val, idx) in res:
        if end == "break":
            out.append(("val", env, path, val))
        elif end == "done":
            out.append(("val", env, path, done_value(env, L)))
        else:
            out.append((end, env, path))
    return out


@model("fold", "iter")
def it_fold(ev, cx, args):
    recv, init, f = args
    lid = (cx.fid, cx.bb, "fold")
    acc = (lid, "acc")

    def body(x, env, path, L):
        out = []
        for r in _apply(ev, cx, f, (env[acc], x), env, path, "f", 2):
            if r[0] == "val":
                r[1][acc] = r[3]
                out.append(("continue", r[1], r[2], None))
            else:
                out.append((r[0], r[1], r[2], None))
        return out

    return model_loop(ev, cx, "fold", recv, body, lambda env, L: env[acc], init=init)


@model("for_each", "iter")
def it_for_each(ev, cx, args):
    recv, f = args

    def body(x, env, path, L):
        return [("continue" if r[0] == "val" else r[0], r[1], r[2], None) for r in _apply(ev, cx, f, (x,), env, path, "f", 1)]

    return model_loop(ev, cx, "for_each", recv, body, lambda env, L: UNIT)


def _search(name, on_hit, on_miss, hit_when=1):
    def m(ev, cx, args):
        recv, f = args

        def body(x, env, path, L):
            out = []
            for r in _apply(ev, cx, f, (x,), env, path, "f", 1):
                if r[0] != "val":
                    out.append((r[0], r[1], r[2], None))
                    continue
                sp = ev.split_bool(r[3], r[2], (cx.fid, (cx.bb, "t")))
                envs = [r[1]] + [dict(r[1]) for _ in sp[1:]]
                for i, (b, p) in enumerate(sp):
                    if b == hit_when:
                        out.append(("break", envs[i], p, on_hit(x, L)))
                    else:
                        out.append(("continue", envs[i], p, None))
            return out

        return model_loop(ev, cx, name, recv, body, lambda env, L: on_miss)
    return m


model("find", "iter")(_search("find", lambda x, L: some(x), NONE))
model("any", "iter")(_search("any", lambda x, L: ("int", 1), ("int", 0)))
model("all", "iter")(_search("all", lambda x, L: ("int", 0), ("int", 1), hit_when=0))
model("position", "iter")(_search("position", lambda x, L: some(("index_of", L.id)), NONE))


@model("find_map", "iter")
def it_find_map(ev, cx, args):
    recv, f = args

    def body(x, env, path, L):
        out = []
        for r in _apply(ev, cx, f, (x,), env, path, "f", 1):
            if r[0] != "val":
                out.append((r[0], r[1], r[2], None))
                continue
            sp = ev.split_variant(r[3], OPTION, r[2], (cx.fid, (cx.bb, "t")))
            envs = [r[1]] + [dict(r[1]) for _ in sp[1:]]
            for i, (n, p) in enumerate(sp):
                if n == "Some":
                    out.append(("break", envs[i], p, some(ev.payload(r[3], OPTION, "Some"))))
                else:
                    out.append(("continue", envs[i], p, None))
        return out

    return model_loop(ev, cx, "find_map", recv, body, lambda env, L: NONE)


def _extremum(name):
    """`max()`: keep the previous best unless the new element is not smaller (the last of equal maxima wins);
    `min()`: keep it unless the new element is smaller (the first of equal minima wins)."""
    def m(ev, cx, args):
        recv = args[0]
        lid = (cx.fid, cx.bb, name)
        acc = (lid, "acc")

        def body(x, env, path, L):
            out = []
            prev = env[acc]
            sp = ev.split_variant(prev, OPTION, path, (cx.fid, (cx.bb, "t")))
            envs = [env] + [dict(env) for _ in sp[1:]]
            for i, (n, p) in enumerate(sp):
                if n == "None":
                    envs[i][acc] = some(x)
                    out.append(("continue", envs[i], p, None))
                    continue
                pv = ev.payload(prev, OPTION, "Some")
                cond = ("bin", "Gt", pv, x) if name == "max" else ("bin", "Gt", pv, x)
                sb = ev.split_bool(cond, p, (cx.fid, (cx.bb, "c")))
                e2 = [envs[i]] + [dict(envs[i]) for _ in sb[1:]]
                for j_, (b, p2) in enumerate(sb):
                    keep = (b == 1) if name == "max" else (b == 0)
                    e2[j_][acc] = some(pv) if keep else some(x)
                    out.append(("continue", e2[j_], p2, None))
            return out

        return model_loop(ev, cx, name, recv, body, lambda env, L: env[acc], init=NONE)
    return m


model("max", "iter")(_extremum("max"))
model("min", "iter")(_extremum("min"))


@model("retain", "vec")
def vec_retain(ev, cx, args):
    recv, f = args

    def body(x, env, path, L):
        out = []
        for r in _apply(ev, cx, f, (x,), env, path, "f", 1):
            if r[0] != "val":
                out.append((r[0], r[1], r[2], None))
                continue
            sp = ev.split_bool(r[3], r[2], (cx.fid, (cx.bb, "t")))
            envs = [r[1]] + [dict(r[1]) for _ in sp[1:]]
            for i, (b, p) in enumerate(sp):
                p.events.append(("retain", cx.site, b))
                out.append(("continue", envs[i], p, ("int", b)))
        return out

    return model_loop(ev, cx, "retain", recv, body, lambda env, L: UNIT)


model("retain_mut", "vec")(vec_retain)


# ---------------------------------------------------------------------------- rayon: combinators that run their closure(s) once, and the parallel for_each

def _close(cx, results):
    """Mark the end of what ran inside the combinator (paths that return from it)."""
    for r in results:
        if r[0] == "val":
            r[2].events.append(("once-end", cx.site))
    return results


@model("install", "rayon")
def rayon_install(ev, cx, args):
    cx.path.events.append(("once", cx.site, "install", args[0]))
    return _close(cx, _apply(ev, cx, args[-1], (), cx.env, cx.path, "f", len(args) - 1))


@model("spawn", "rayon")
def rayon_spawn(ev, cx, args):
    cx.path.events.append(("once", cx.site, "spawn", args[0] if len(args) > 1 else None))
    out = []
    for r in _apply(ev, cx, args[-1], (), cx.env, cx.path, "f", len(args) - 1):
        out.append(("val", r[1], r[2], UNIT) if r[0] == "val" else r)
    return _close(cx, out)


@model("join", "rayon")
def rayon_join(ev, cx, args):
    fa, fb = args[-2], args[-1]
    cx.path.events.append(("once", cx.site, "join", args[0] if len(args) > 2 else None))
    out = []
    for r in _apply(ev, cx, fa, (), cx.env, cx.path, "a", len(args) - 2):
        if r[0] != "val":
            out.append(r)
            continue
        for r2 in _apply(ev, cx, fb, (), r[1], r[2], "b", len(args) - 1):
            out.append(("val", r2[1], r2[2], ("agg", "tuple", "tuple", (r[3], r2[3]), ())) if r2[0] == "val" else r2)
    return _close(cx, out)


@model("scope", "rayon")
def rayon_scope(ev, cx, args):
    """rayon::scope(|s| ..) runs the closure (on a pool thread) before returning."""
    cx.path.events.append(("once", cx.site, "scope", args[0] if len(args) > 1 else None))
    scope_tok = ("call", (cx.fid, (cx.bb, "scope-token")), ())
    return _close(cx, _apply(ev, cx, args[-1], (scope_tok,), cx.env, cx.path, "f", len(args) - 1))


model("in_place_scope", "rayon")(rayon_scope)


@model("for_each", "rayon")
def rayon_for_each(ev, cx, args):
    recv, f = args

    def body(x, env, path, L):
        return [("continue" if r[0] == "val" else r[0], r[1], r[2], None) for r in _apply(ev, cx, f, (x,), env, path, "f", 1)]

    return model_loop(ev, cx, "par_for_each", recv, body, lambda env, L: UNIT)


@model("collect", "iter")
def it_collect(ev, cx, args):
    """`collect` drains its receiver: the adaptors' closures run once per element; the collection itself stays the
    opaque result of the call, the elements it receives are recorded as ('yield', site, element)."""
    recv = args[0]

    def body(x, env, path, L):
        path.events.append(("yield", cx.site, x))
        return [("continue", env, path, None)]

    val = ("call", cx.site, (recv,))
    ev.callees[cx.site] = cx.callee
    return model_loop(ev, cx, "collect", recv, body, lambda env, L: val)


# ---------------------------------------------------------------------------- std::collections::hash_map::Entry

HASH_ENTRY = "std::collections::hash_map::Entry"


def _entry_or_insert(ev, cx, args, make):
    """`entry.or_insert_with(f)` is `match entry { Occupied(o) => o.into_mut(), Vacant(v) => v.insert(f()) }`."""
    e = args[0]
    out = []
    sp = ev.split_variant(e, HASH_ENTRY, cx.path, cx.site)
    envs = _fork(cx, len(sp))
    for i, (n, p) in enumerate(sp):
        env = envs[i]
        if n == "Occupied":
            site = (cx.fid, (cx.bb, "into_mut"))
            c = PseudoCallee("into_mut", path="std::collections::hash_map::OccupiedEntry::into_mut")
            out.extend(ev.opaque(site, c, (ev.payload(e, HASH_ENTRY, "Occupied"),), env, p))
        else:
            for r in make(env, p):
                if r[0] != "val":
                    out.append(r)
                    continue
                site = (cx.fid, (cx.bb, "vinsert"))
                c = PseudoCallee("insert", path="std::collections::hash_map::VacantEntry::insert")
                out.extend(ev.opaque(site, c, (ev.payload(e, HASH_ENTRY, "Vacant"), r[3]), r[1], r[2]))
    return out


@model("or_insert_with", "hashentry")
def entry_or_insert_with(ev, cx, args):
    return _entry_or_insert(ev, cx, args, lambda env, p: _apply(ev, cx, args[1], (), env, p, "f", 1))


@model("or_insert", "hashentry")
def entry_or_insert(ev, cx, args):
    return _entry_or_insert(ev, cx, args, lambda env, p: [("val", env, p, args[1])])


# ---------------------------------------------------------------------------- Option: in-place mutation

def _opt_store(ev, cx, env, path, opt, value, how):
    path.events.append(("store", cx.site, opt, value))
    path.events.append(("optset", cx.site, opt, value, how))
    ev._remember(env, opt, value)


@model("get_or_insert_with", "option")
def opt_get_or_insert_with(ev, cx, args):
    out = []
    for n, p, env in _opt_split(ev, cx, args[0]):
        if n == "Some":
            out.append(("val", env, p, ev.payload(args[0], OPTION, "Some")))
        else:
            for r in _apply(ev, cx, args[1], (), env, p, "f", 1):
                if r[0] != "val":
                    out.append(r)
                    continue
                _opt_store(ev, cx, r[1], r[2], args[0], some(r[3]), "get_or_insert_with")
                out.append(("val", r[1], r[2], r[3]))
    return out


@model("get_or_insert", "option")
def opt_get_or_insert(ev, cx, args):
    out = []
    for n, p, env in _opt_split(ev, cx, args[0]):
        if n == "Some":
            out.append(("val", env, p, ev.payload(args[0], OPTION, "Some")))
        else:
            _opt_store(ev, cx, env, p, args[0], some(args[1]), "get_or_insert")
            out.append(("val", env, p, args[1]))
    return out


@model("insert", "option")
def opt_insert(ev, cx, args):
    _opt_store(ev, cx, cx.env, cx.path, args[0], some(args[1]), "insert")
    return [("val", cx.env, cx.path, args[1])]


@model("replace", "option")
def opt_replace(ev, cx, args):
    old = ("call", cx.site, args)
    ev.callees[cx.site] = cx.callee
    _opt_store(ev, cx, cx.env, cx.path, args[0], some(args[1]), "replace")
    return [("val", cx.env, cx.path, old)]


@model("take", "option")
def opt_take(ev, cx, args):
    old = ("call", cx.site, args)
    ev.callees[cx.site] = cx.callee
    _opt_store(ev, cx, cx.env, cx.path, args[0], NONE, "take")
    return [("val", cx.env, cx.path, old)]


@model("try_for_each", "iter")
def it_try_for_each(ev, cx, args):
    """Stops at the first element for which the closure's result is a residual (Err / None / Break)."""
    recv, f = args

    def body(x, env, path, L):
        out = []
        for r in _apply(ev, cx, f, (x,), env, path, "f", 1):
            if r[0] != "val":
                out.append((r[0], r[1], r[2], None))
                continue
            v = r[3]
            head = None
            if v[0] == "agg" and v[1] == "adt":
                head = v[2].rsplit("::", 1)[0]
            else:
                head = ev.enum_of.get(v) or (RESULT if "Result" in (cx.callee.inst_path or "") else (OPTION if "Option" in (cx.callee.inst_path or "") else None))
            if head not in (RESULT, OPTION, CONTROL):
                return None
            good = {RESULT: "Ok", OPTION: "Some", CONTROL: "Continue"}[head]
            sp = ev.split_variant(v, head, r[2], (cx.fid, (cx.bb, "t")))
            envs = [r[1]] + [dict(r[1]) for _ in sp[1:]]
            for i, (n, p) in enumerate(sp):
                out.append(("continue", envs[i], p, None) if n == good else ("break", envs[i], p, v))
        return out

    res = model_loop(ev, cx, "try_for_each", recv, lambda x, env, path, L: body(x, env, path, L) or [("diverge", env, path, None)],
                     lambda env, L: ("agg", "adt", RESULT + "::Ok", (UNIT,), ("0",)))
    return res


# ---------------------------------------------------------------------------- vec![a, b, ..]

def _array_behind(ev, cx, boxed):
    """The array a freshly made box holds: `Box::new([..])`, or an uninitialised box the array was then written into."""
    t = boxed
    while isinstance(t, tuple) and t and t[0] == "cast":
        t = t[2]
    if isinstance(t, tuple) and t and t[0] == "agg" and t[1] == "array":
        return t
    if isinstance(t, tuple) and t and t[0] == "call":
        c = ev.callee(t[1])
        if c is not None and not c.local and c.name == "new" and "Box" in (c.path or "") and len(t[2]) == 1:
            return _array_behind(ev, cx, t[2][0])
        mem = cx.env.get("mem") or {}
        for k, v in mem.items():
            r = k
            while isinstance(r, tuple) and r and r[0] in ("field", "proj", "cast", "variant"):
                r = r[2] if r[0] == "cast" else r[1]
            if r == t and isinstance(v, tuple) and v and v[0] == "agg" and v[1] == "array":
                return v
    return None


@model("box_assume_init_into_vec_unsafe", "alloc")
def vec_literal(ev, cx, args):
    arr = _array_behind(ev, cx, args[0]) if args else None
    if arr is None:
        return None
    return [("val", cx.env, cx.path, ("agg", "veclit", "veclit", arr[3], ()))]


model("into_vec", "alloc")(vec_literal)


# ---------------------------------------------------------------------------- slice::contains

@model("contains", "slice")
def slice_contains(ev, cx, args):
    """`xs.contains(&x)` is `xs.iter().any(|e| *e == *x)`."""
    if len(args) != 2:
        return None
    recv, x = args

    def body(e, env, path, L):
        c = PseudoCallee("eq", path="std::cmp::PartialEq::eq", trait="std::cmp::PartialEq")
        out = []
        for r in ev.opaque((cx.fid, (cx.bb, "eq")), c, (e, x), env, path):
            if r[0] != "val":
                out.append((r[0], r[1], r[2], None))
                continue
            sp = ev.split_bool(r[3], r[2], (cx.fid, (cx.bb, "t")))
            envs = [r[1]] + [dict(r[1]) for _ in sp[1:]]
            for i, (b, p) in enumerate(sp):
                out.append(("break", envs[i], p, ("int", 1)) if b == 1 else ("continue", envs[i], p, None))
        return out

    return model_loop(ev, cx, "any", recv, body, lambda env, L: ("int", 0))


# ---------------------------------------------------------------------------- mem::replace / take / swap

def _replace(ev, cx, env, path, place, value):
    """`mem::replace(place, value)`: what the place held comes back, the place now holds `value`."""
    if isinstance(place, tuple) and place and place[0] == "cellref":
        cell = place[1]
        old = env.get(cell, ("undef",) + tuple(cell))
        env[cell] = value
        path.events.append(("store", cx.site, ("cell", cell), value))
        return old
    mem = env.get("mem") or {}
    old = mem.get(place, place)     # the bare place term stands for what it held when the path began
    path.events.append(("store", cx.site, place, value))
    ev._remember(env, place, value)
    return old


@model("replace", "mem")
def mem_replace(ev, cx, args):
    if len(args) != 2:
        return None
    old = _replace(ev, cx, cx.env, cx.path, args[0], args[1])
    return [("val", cx.env, cx.path, old)]


@model("take", "mem")
def mem_take(ev, cx, args):
    if len(args) != 1:
        return None
    c = PseudoCallee("default", path="std::default::Default::default", trait="std::default::Default")
    out = []
    for r in ev.opaque((cx.fid, (cx.bb, "default")), c, (), cx.env, cx.path):
        if r[0] != "val":
            out.append(r)
            continue
        old = _replace(ev, cx, r[1], r[2], args[0], r[3])
        out.append(("val", r[1], r[2], old))
    return out


@model("swap", "mem")
def mem_swap(ev, cx, args):
    """`swap(place, &mut local)` where the local's value is known is `local = replace(place, value of local)`."""
    if len(args) != 2:
        return None
    a, b = args
    if isinstance(a, tuple) and a and a[0] == "cellref" and not (isinstance(b, tuple) and b and b[0] == "cellref"):
        a, b = b, a
    if not (isinstance(b, tuple) and b and b[0] == "cellref") or (isinstance(a, tuple) and a and a[0] == "cellref"):
        return None
    cell = b[1]
    val = cx.env.get(cell)
    if val is None or val[0] in ("undef", "havoc"):
        return None
    old = _replace(ev, cx, cx.env, cx.path, a, val)
    cx.env[cell] = old
    return [("val", cx.env, cx.path, UNIT)]

