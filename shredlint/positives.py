"""Positive examples for zero-count rules: the scanner that must find nothing
in shred must find the construct planted in /verif/probe/src/positive.rs on
the same run, or the rule is broken (a rule matching zero sites would
otherwise pass vacuously forever)."""
from . import inventory as I
from . import poolrules as R
from . import builderrules as B
from .facts import Callee
from .shapes import traversals

PROBE_MOD = "shred_probe::positive::"


def _probe(ctx):
    fs = [f for f in ctx.all_facts("probe") if f.crate == "shred_probe"]
    if len(fs) != 1:
        raise RuntimeError("probe facts not available")
    return fs[0]


SCANNERS = {
    "catch_unwind": ("swallow_catch_unwind", lambda ctx, f, b: I.marked_calls(b, I.SWALLOW_MARKS)),
    "resume_unwind": ("swallow_resume_unwind", lambda ctx, f, b: I.marked_calls(b, I.SWALLOW_MARKS)),
    "thread_handoff": ("swallow_thread", lambda ctx, f, b: I.thread_handoffs(b)),
    "panic_hook": ("swallow_hook", lambda ctx, f, b: I.marked_calls(b, I.SWALLOW_MARKS)),
    "forget_guard": ("leak_guard_forget", lambda ctx, f, b: R.guard_leaks(b)),
    "manually_drop_guard": ("leak_guard_manually_drop", lambda ctx, f, b: R.guard_leaks(b)),
    "leak_guard": ("leak_guard_box", lambda ctx, f, b: R.guard_leaks(b)),
    "launder_guard": ("launder_guard", lambda ctx, f, b: [h for h in R.guard_launder(f)[0] if h[0].qname.startswith(PROBE_MOD + "launder_guard")]),
    "num_threads": ("cap_threads", lambda ctx, f, b: [(bb, Callee(t["func"])) for bb, t in b.normal_calls()
                                                      if Callee(t["func"]).name == "num_threads" and Callee(t["func"]).crate in ("rayon", "rayon_core")]),
    "hash_iteration": ("hash_iteration", lambda ctx, f, b: I.hash_iterations(b)),
    "order_on_ids": ("order_on_ids", lambda ctx, f, b: I.order_uses(b, ("shred::world::ResourceId", "shred::ResourceId"))),
    "hash_on_ids": ("hash_on_ids", lambda ctx, f, b: I.explicit_hashing(b)),
    "env_calls": ("env_sources", lambda ctx, f, b: I.marked_calls(b, I.ENV_MARKS)),
    "ptr_to_int": ("env_sources", lambda ctx, f, b: I.ptr_to_int_casts(b)),
    "cell_as_ptr": ("bypass_cell", lambda ctx, f, b: [(bb, Callee(t["func"])) for bb, t in b.normal_calls()
                                                      if Callee(t["func"]).name == "as_ptr" and "AtomicRefCell" in Callee(t["func"]).path]),
    "panic_constructs": ("panic_constructs", lambda ctx, f, b: [x for x in B.panic_constructs(b)]),
    "write_lock": ("write_lock", lambda ctx, f, b: [(bb, Callee(t["func"])) for bb, t in b.normal_calls()
                                                    if "RwLock" in Callee(t["func"]).path and Callee(t["func"]).name == "write"]),
    "partial_traversals": ("rev_loop", lambda ctx, f, b: [t for t in traversals(ctx.program(f), b) if not t.full]),
}
MIN_HITS = {"launder_guard": 3, "panic_constructs": 4, "partial_traversals": 3, "hash_iteration": 2, "order_on_ids": 2, "env_calls": 3}


def check(ctx, report, rule, names):
    try:
        f = _probe(ctx)
    except Exception as e:
        # The probe does not build against this tree (an API it uses changed).  That says nothing about the
        # property; the scanners themselves are unchanged, so the zero-count verdicts on /repo stand.  The
        # derive-corpus and macro rules, which need the probe's expansions, report the build failure themselves.
        report.note("%s: positive examples skipped, probe crate does not build against this tree: %s" % (rule, str(e)[-200:]))
        return
    for n in names:
        fn, scan = SCANNERS[n]
        bs = f.find(qname=PROBE_MOD + fn)
        if len(bs) != 1:
            report.ob(rule, "POSITIVE/%s" % n, False, "positive example %s not found in the probe crate" % fn, config="probe")
            continue
        hits = scan(ctx, f, bs[0])
        need = MIN_HITS.get(n, 1)
        report.ob(rule, "POSITIVE/%s" % n, len(hits) >= need,
                  "the scanner finds the planted construct in probe::positive::%s (%d hit(s))" % (fn, len(hits)) if len(hits) >= need else
                  "the scanner does not find the planted construct in probe::positive::%s (%d hit(s), need %d): the zero-count rule is vacuous" % (fn, len(hits), need),
                  site=bs[0].loc(), config="probe")


def engine(ctx, report, rule):
    """Self-test of the structured evaluation on every run that uses it in depth: the spelling pairs of
    probe/src/equiv.rs.  Equivalent spellings must tabulate identically, inequivalent ones must not - otherwise the
    verdicts of the rules built on the evaluation mean nothing."""
    from .sem import Evaluator
    from .semcanon import canonical
    try:
        f = _probe(ctx)
    except Exception as e:
        report.note("%s: engine self-test skipped, probe crate does not build against this tree: %s" % (rule, str(e)[-200:]))
        return
    groups = {}
    for b in f.bodies.values():
        q = b.qname
        if q.startswith("shred_probe::equiv::") and not b.is_closure:
            n = q.rsplit("::", 1)[1]
            if n[:3] in ("eq_", "ne_") and len(n) > 2 and n[-2] == "_":
                groups.setdefault(n[:-2], {})[n[-1]] = b
    for g in sorted(groups):
        forms = []
        err = None
        for k, b in sorted(groups[g].items()):
            ev = Evaluator(f)
            try:
                forms.append(canonical(ev, ev.eval(b)))
            except Exception as e:
                err = "%s: %s" % (type(e).__name__, e)
        same = not err and all(v == forms[0] for v in forms)
        want = g.startswith("eq_")
        report.ob(rule, "ENGINE/%s" % g, (same == want) and not err,
                  ("%d spellings tabulate identically" % len(forms)) if (want and same) else
                  ("the spellings tabulate differently, as they must" if (not want and not same) else
                   (err or ("equivalent spellings tabulate differently" if want else "inequivalent spellings tabulate identically: the evaluation loses a distinction"))),
                  config="probe")
    report.floor(rule, "ENGINE spelling groups", len(groups), 20, config="probe")
