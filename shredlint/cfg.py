"""A2/A3: control-flow graph over *normal* edges, dominators, natural loops and
min/max path counting.  Unwind edges are excluded: a panic is an allowed exit
unless a rule says otherwise."""
import heapq

INF = float("inf")


def succ(body, bb):
    t = body.blocks[bb]["term"]
    k = t["k"]
    if k == "goto":
        return [t["target"]]
    if k == "switch":
        out = []
        for _, b in t["arms"]:
            if b not in out:
                out.append(b)
        if t["otherwise"] not in out:
            out.append(t["otherwise"])
        return out
    if k == "call":
        return [t["target"]] if t["target"] is not None else []
    if k in ("drop", "assert"):
        return [t["target"]]
    return []


class Cfg(object):
    def __init__(self, body):
        self.body = body
        n = len(body.blocks)
        self.n = n
        self.succ = [succ(body, i) for i in range(n)]
        # reachable from entry via normal edges
        seen = set()
        order = []
        stack = [(0, iter(self.succ[0]))]
        seen.add(0)
        while stack:
            node, it = stack[-1]
            adv = False
            for s in it:
                if s not in seen:
                    seen.add(s)
                    stack.append((s, iter(self.succ[s])))
                    adv = True
                    break
            if not adv:
                order.append(node)
                stack.pop()
        self.reach = seen
        self.rpo = list(reversed(order))
        self.pred = {i: [] for i in seen}
        for i in seen:
            for s in self.succ[i]:
                if s in seen:
                    self.pred[s].append(i)
        self.returns = [i for i in seen if body.blocks[i]["term"]["k"] == "return"]
        self._idom = None
        self._scc = None

    # ---- dominators (Cooper-Harvey-Kennedy)
    def idom(self):
        if self._idom is not None:
            return self._idom
        rpo_index = {b: i for i, b in enumerate(self.rpo)}
        idom = {0: 0}
        changed = True
        while changed:
            changed = False
            for b in self.rpo[1:]:
                new = None
                for p in self.pred[b]:
                    if p in idom:
                        if new is None:
                            new = p
                        else:
                            f1, f2 = p, new
                            while f1 != f2:
                                while rpo_index[f1] > rpo_index[f2]:
                                    f1 = idom[f1]
                                while rpo_index[f2] > rpo_index[f1]:
                                    f2 = idom[f2]
                            new = f1
                if new is not None and idom.get(b) != new:
                    idom[b] = new
                    changed = True
        self._idom = idom
        return idom

    def dominates(self, a, b):
        """Block a dominates block b (every normal path entry->b passes a)."""
        if a not in self.reach or b not in self.reach:
            return False
        idom = self.idom()
        x = b
        while True:
            if x == a:
                return True
            if x == 0:
                return False
            x = idom[x]

    # ---- post-dominance w.r.t. normal return ("every path from a to return passes b")
    def must_pass_after(self, a, b):
        """Every normal path from block a to a `return` passes through block b
        (b strictly after or equal to a)."""
        if a == b:
            return True
        # remove b and see whether a return is still reachable from a
        seen = {a}
        work = [a]
        while work:
            x = work.pop()
            if self.body.blocks[x]["term"]["k"] == "return":
                return False
            for s in self.succ[x]:
                if s != b and s not in seen:
                    seen.add(s)
                    work.append(s)
        return True

    def reachable_from(self, a, avoid=()):
        seen = set()
        work = [a]
        while work:
            x = work.pop()
            for s in self.succ[x]:
                if s not in seen and s not in avoid:
                    seen.add(s)
                    work.append(s)
        return seen

    def can_reach_return(self):
        """Blocks from which a normal `return` is reachable."""
        ok = set(self.returns)
        work = list(self.returns)
        while work:
            x = work.pop()
            for p in self.pred.get(x, []):
                if p not in ok:
                    ok.add(p)
                    work.append(p)
        return ok

    # ---- SCCs / loops
    def sccs(self):
        if self._scc is not None:
            return self._scc
        index = {}
        low = {}
        onstack = set()
        stack = []
        comps = []
        counter = [0]

        def strong(v):
            work = [(v, 0)]
            index[v] = low[v] = counter[0]
            counter[0] += 1
            stack.append(v)
            onstack.add(v)
            while work:
                node, i = work.pop()
                succs = [s for s in self.succ[node] if s in self.reach]
                if i < len(succs):
                    work.append((node, i + 1))
                    w = succs[i]
                    if w not in index:
                        index[w] = low[w] = counter[0]
                        counter[0] += 1
                        stack.append(w)
                        onstack.add(w)
                        work.append((w, 0))
                    elif w in onstack:
                        low[node] = min(low[node], index[w])
                else:
                    if low[node] == index[node]:
                        comp = []
                        while True:
                            w = stack.pop()
                            onstack.discard(w)
                            comp.append(w)
                            if w == node:
                                break
                        comps.append(comp)
                    if work:
                        parent = work[-1][0]
                        low[parent] = min(low[parent], low[node])

        for v in self.rpo:
            if v not in index:
                strong(v)
        self._scc = comps
        return comps

    def in_cycle(self):
        s = set()
        for comp in self.sccs():
            if len(comp) > 1 or comp[0] in self.succ[comp[0]]:
                s.update(comp)
        return s

    def loops(self):
        """Natural loops: list of (header, set(blocks))."""
        out = {}
        for u in self.reach:
            for v in self.succ[u]:
                if v in self.reach and self.dominates(v, u):
                    body = out.setdefault(v, {v})
                    work = [u]
                    while work:
                        x = work.pop()
                        if x not in body:
                            body.add(x)
                            work.extend(self.pred[x])
        return sorted(out.items())

    def is_acyclic(self):
        return not self.in_cycle()

    # ---- path counting
    def count(self, pred, start=0, ends=None, within=None):
        """(min, max) number of blocks b with pred(b) on any normal path from
        `start` to a block in `ends` (default: return blocks), staying inside
        `within` if given.  max is INF when a counted block lies on a cycle of
        the explored region.  Returns None if no such path exists."""
        ends = set(self.returns if ends is None else ends)
        region = set(self.reach if within is None else within) | ends
        w = lambda b: 1 if pred(b) else 0
        # forward-reachable from start within region
        fwd = {start}
        work = [start]
        while work:
            x = work.pop()
            if x in ends and x != start:
                continue
            for s in self.succ[x]:
                if s in region and s not in fwd:
                    fwd.add(s)
                    work.append(s)
        # backward-reachable to ends within fwd
        bwd = set(e for e in ends if e in fwd)
        work = list(bwd)
        preds = {}
        for x in fwd:
            if x in ends and x != start:
                continue
            for s in self.succ[x]:
                if s in fwd:
                    preds.setdefault(s, []).append(x)
        while work:
            x = work.pop()
            for p in preds.get(x, []):
                if p not in bwd:
                    bwd.add(p)
                    work.append(p)
        live = fwd & bwd
        if start not in live:
            return None
        # min: Dijkstra with node weights
        dist = {start: w(start)}
        heap = [(dist[start], start)]
        best = None
        while heap:
            d, x = heapq.heappop(heap)
            if d > dist.get(x, INF):
                continue
            if x in ends and (x != start or not self.succ[x]):
                best = d if best is None else min(best, d)
                continue
            for s in self.succ[x]:
                if s in live:
                    nd = d + w(s)
                    if nd < dist.get(s, INF):
                        dist[s] = nd
                        heapq.heappush(heap, (nd, s))
        # max: longest path on the live subgraph; INF if a counted node is on a cycle
        sub_succ = {x: [s for s in self.succ[x] if s in live and not (x in ends and x != start)] for x in live}
        # detect cycles in live subgraph (Tarjan-free: DFS colours)
        color = {}
        cyc_nodes = set()
        order = []
        for root in [start]:
            stack = [(root, iter(sub_succ[root]))]
            color[root] = 1
            path = [root]
            while stack:
                node, it = stack[-1]
                adv = False
                for s in it:
                    if color.get(s, 0) == 0:
                        color[s] = 1
                        stack.append((s, iter(sub_succ[s])))
                        path.append(s)
                        adv = True
                        break
                    elif color.get(s) == 1:
                        # back edge: nodes from s to node on path are cyclic
                        i = path.index(s)
                        cyc_nodes.update(path[i:])
                if not adv:
                    color[node] = 2
                    order.append(node)
                    stack.pop()
                    path.pop()
        if any(w(x) for x in cyc_nodes):
            mx = INF
        else:
            # longest path ignoring back edges (cycle nodes have weight 0)
            longest = {}
            pos = {b: i for i, b in enumerate(order)}  # postorder index
            for x in order:  # postorder: successors first (except back edges)
                bestv = None
                if x in ends and (x != start or not sub_succ[x]):
                    bestv = 0
                for s_ in sub_succ[x]:
                    if s_ in longest and pos[s_] < pos[x]:
                        v = longest[s_]
                        if v is not None and (bestv is None or v > bestv):
                            bestv = v
                longest[x] = None if bestv is None else bestv + w(x)
            mx = longest.get(start)
        return (best, mx)


def per_iteration_counts(cfg, header, loop_blocks, pred, limit=4096):
    """(min, max) number of pred-blocks on any path that starts at the loop header,
    stays inside the loop and returns to the header (one continuing iteration).
    None if no such path.  Inner cycles make max INF."""
    results = []
    inner_cycle = [False]

    def dfs(x, cnt, seen):
        if len(results) > limit:
            return
        for s in cfg.succ[x]:
            if s == header:
                results.append(cnt)
            elif s in loop_blocks:
                if s in seen:
                    inner_cycle[0] = True
                    continue
                dfs(s, cnt + (1 if pred(s) else 0), seen | {s})

    dfs(header, 1 if pred(header) else 0, {header})
    if not results:
        return None
    return (min(results), INF if inner_cycle[0] else max(results))
