"""FANOUT coverage over the structured evaluation (sem.py): how often, on every normal path of a method, is a
method of a family invoked on the object a source description selects?

  * a call whose receiver is rooted at the source counts once;
  * a loop over the source (any spelling: for / for_each / rayon for_each / while let) counts once if it visits
    every element front to back and every way through one iteration covers the element exactly once;
  * closures handed to run-once combinators (rayon install / join / spawn), in-crate helpers and std
    combinators are evaluated in place, so what they do is simply part of the path.
Anything else - a count that depends on the path, a loop that can stop early, a call inside a loop over
something else - is 'bad'."""
from . import semq as Q
from .sem import Evaluator, Policy
from .shapes import Cov, Src, SELF, TRANSPARENT, iter_type_class  # noqa: F401  (re-exported)

LIFECYCLE_NAMES = set(["run_now", "run", "execute", "execute_seq", "dispatch", "dispatch_par", "dispatch_seq", "dispatch_thread_local",
                       "setup", "dispose", "reads", "writes", "wait",
                       # the typestate accessors of the async dispatcher: sources are described relative to their results
                       "sender", "inner", "inner_noblock"])
ITER = ("std::iter::Iterator", "core::iter::Iterator")


def sroot(ev, t, crate="shred"):
    """Strip a receiver term down to its base: (base, [in-crate field names / tuple positions, outermost last])."""
    path = []
    while True:
        if not isinstance(t, tuple) or not t:
            return ("other", t), list(reversed(path))
        k = t[0]
        if k == "cast":
            t = t[2]
        elif k == "field":
            adt = t[3]
            if adt and adt != "tuple" and adt.startswith(crate + "::"):
                path.append(t[2])
            elif adt == "tuple":
                path.append("#" + str(t[2]))
            t = t[1]
        elif k in ("index", "variant", "proj"):
            t = t[1]
        elif k == "agg" and t[1] == "tuple":
            return t, list(reversed(path))
        elif k == "call":
            c = ev.callee(t[1])
            if c is not None and c.name in TRANSPARENT and not c.local and t[2]:
                t = t[2][0]
                continue
            return t, list(reversed(path))
        else:
            return t, list(reversed(path))


def evaluate(prog, body, extra_opaque=(), inline=(), keep=None):
    cache = prog.__dict__.setdefault("_semcov", {})
    k = (body.key, tuple(sorted(extra_opaque)), tuple(sorted(inline)), tuple(sorted(keep)) if keep is not None else None)
    if k not in cache:
        ev = Evaluator(prog.facts, Policy(opaque_names=(LIFECYCLE_NAMES | set(extra_opaque)) - set(inline), self_keep=keep))
        ends = ev.eval(body)
        cache[k] = (ev, ends)
    return cache[k]


PARTIAL_NAMES = set(["rev", "skip", "take", "step_by", "filter", "filter_map", "zip", "take_while", "skip_while", "peekable", "map_while",
                     "scan", "fuse", "cycle", "chunks", "windows", "skip_any", "take_any", "drain", "split_at", "split_at_mut", "get", "get_mut",
                     "first", "last", "nth", "chain"])


def _term_class(ev, t):
    """'full' if the iterator term visits every element of its base front to back (judged by the adaptors left in it)."""
    while isinstance(t, tuple) and t and t[0] == "call":
        c = ev.callee(t[1])
        if c is None or not t[2]:
            break
        if c.name in PARTIAL_NAMES and not c.local:
            return "adaptor `%s` may skip or reorder elements" % c.name
        if c.name not in TRANSPARENT or c.local:
            break
        t = t[2][0]
    return "full"


class _Bad(Exception):
    def __init__(self, detail, site=None):
        Exception.__init__(self, detail)
        self.detail = detail
        self.site = site


def _count(ev, events, src, fam, fname, depth=0):
    """(count, shape, sites) of family calls on the source along one sequence of events."""
    total = 0
    shape = None
    sites = []
    for e in events:
        if e[0] == "call":
            c = e[2]
            if fam(c) and e[3]:
                b, p = sroot(ev, e[3][0])
                if (src.match_term(ev, e[3][0]) if hasattr(src, "match_term") else src.exact(b, p, ev)):
                    total += 1
                    shape = ("call", c.name)
                    sites.append(ev.loc(e[1]))
        elif e[0] == "loop":
            L = e[1]
            b, p = sroot(ev, L.source) if L.source is not None else (("other", None), [])
            if src.exact(b, p, ev) or (hasattr(src, "match_term") and L.source is not None and src.match_term(ev, L.source)):
                n, sh, ss = _traversal(ev, L, fam, fname, depth)
                total += n
                if n:
                    shape = sh
                    sites.extend(ss)
            else:
                idx = _index_loop(ev, L, src)
                if idx:
                    # `for i in 0..xs.len() { xs[i].f() }`: a full traversal of xs by index
                    counts = set()
                    isrc = _IndexedSrc(src, L.elem)
                    sub_sites = []
                    for it in L.iters:
                        if it.end in ("done", "diverge", "unreachable"):
                            continue
                        if it.end in ("break", "return"):
                            raise _Bad("traversal of the source at %s is not full: it can stop early (%s)" % (Q.site_of(ev, L), it.end), Q.site_of(ev, L))
                        n, sh, ss = _count(ev, it.path.events, isrc, fam, fname, depth + 1)
                        counts.add(n)
                        if n:
                            shape = ("for", sh)
                            sub_sites.extend(ss)
                    if counts == set([1]):
                        total += 1
                        sites.append(Q.site_of(ev, L))
                        sites.extend(sub_sites)
                    elif not counts <= set([0]):
                        raise _Bad("per-element coverage inside the index loop at %s is %s (expected exactly 1)" % (Q.site_of(ev, L), sorted(counts)), Q.site_of(ev, L))
                    continue
                via = _through(ev, L.source, src) if L.source is not None and not hasattr(src, "match_term") else None
                if via and Q.calls_in([e], fam, deep=True):
                    # chunks of the source, a window over it, a zip with something else ..: whether every element comes by
                    # exactly once is a property of that library call, which the analysis does not know
                    raise _Bad("elements of the source reach %s through `%s` (%s), which is not known to visit every element exactly once, front to back" % (
                        fname, "`, `".join(via), Q.site_of(ev, L)), Q.site_of(ev, L))
                for it in L.iters:
                    n, sh, ss = _count(ev, it.path.events, src, fam, fname, depth + 1)
                    if n:
                        raise _Bad("%s is called on the source inside a loop over something else (%s)" % (fname, Q.site_of(ev, L)), Q.site_of(ev, L))
    return total, shape, sites


def _through(ev, t, src):
    """The library calls (other than plain views) that stand between an iterated term and the source it is derived from through
    their first argument; None if the term is not derived from the source that way."""
    names = []
    for _ in range(32):
        if not isinstance(t, tuple) or not t:
            return None
        if t[0] == "cast":
            t = t[2]
        elif t[0] == "call":
            c = ev.callee(t[1])
            if c is None or c.local or not t[2]:
                return None
            if c.name not in TRANSPARENT:
                names.append(c.name)
            t = t[2][0]
        else:
            b, p = sroot(ev, t)
            return names if (names and src.exact(b, p, ev)) else None
    return None


def _index_loop(ev, L, src):
    """L runs over 0..len(the source)."""
    rng = Q.range_of(L)
    if rng is None or rng[0] != ("int", 0) or L.kind == "while" or L.stages or L.elem is None or L.elem[0] == "countdown":
        return False
    hi = Q.strip(ev, rng[1])
    inner = None
    if Q.is_call(ev, hi, "len") and hi[2]:
        inner = hi[2][0]
    elif hi[0] == "len":
        inner = hi[1]
    if inner is None:
        return False
    b, p = sroot(ev, inner)
    return src.exact(b, p, ev) and _plain_view(ev, inner)


def _plain_view(ev, t):
    """no index / adaptor between the term and its root: it is the whole collection"""
    while isinstance(t, tuple) and t:
        if t[0] == "cast":
            t = t[2]
        elif t[0] == "field":
            t = t[1]
        elif t[0] == "call":
            c = ev.callee(t[1])
            if c is not None and not c.local and c.name in ("deref", "deref_mut", "as_ref", "as_mut", "as_slice", "as_mut_slice", "borrow", "borrow_mut") and t[2]:
                t = t[2][0]
            else:
                return False
        elif t[0] in ("index", "variant"):
            return False
        else:
            return True
    return True


class _IndexedSrc(object):
    """`source[i]` for the index variable i of an index loop over the source."""
    def __init__(self, src, idx):
        self.src = src
        self.idx = idx

    def exact(self, b, p, ev):
        return False

    def match_term(self, ev, t):
        # the receiver is source[idx] (built-in or Index::index), possibly through views
        seen_idx = False
        while isinstance(t, tuple) and t:
            if t[0] == "cast":
                t = t[2]
            elif t[0] == "index":
                if Q.strip(ev, t[2]) != self.idx or seen_idx:
                    return False
                seen_idx = True
                t = t[1]
            elif t[0] == "call":
                c = ev.callee(t[1])
                if c is None or c.local or not t[2]:
                    return False
                if c.name in ("index", "index_mut", "get_unchecked", "get_unchecked_mut") and len(t[2]) == 2:
                    if Q.strip(ev, t[2][1]) != self.idx or seen_idx:
                        return False
                    seen_idx = True
                    t = t[2][0]
                elif c.name in TRANSPARENT:
                    t = t[2][0]
                else:
                    return False
            elif t[0] in ("field", "variant"):
                if not seen_idx:
                    if t[0] == "field" and not (t[3] or "").startswith("shred::") and t[3] != "tuple":
                        t = t[1]   # the inside of a Box / Unique: still the element itself
                        continue
                    return False   # a part of the element, not the element
                break
            else:
                break
        if not seen_idx:
            return False
        b, p = sroot(ev, t)
        return self.src.exact(b, p, ev)


def _traversal(ev, L, fam, fname, depth):
    site = Q.site_of(ev, L)
    if depth > 6:
        raise _Bad("traversal nesting too deep", site)
    if L.kind == "while":
        raise _Bad("the source is consumed by a loop that is not a plain traversal (%s)" % site, site)
    cls = iter_type_class(L.iter_ty) if (L.kind == "for" and L.iter_ty) else _term_class(ev, L.source)
    if cls != "full":
        raise _Bad("traversal of the source at %s is not full-forward: %s" % (site, cls), site)
    if [n for n, _ in L.stages if n not in ("enumerate",)]:
        raise _Bad("elements pass through %s before being handled (%s)" % ([n for n, _ in L.stages], site), site)
    # a `for (i, x) in it.enumerate()` loop yields pairs; in a modelled chain the pair is already taken apart
    epath = ["#1"] if (L.kind == "for" and not L.enumerated and (L.iter_ty or "").startswith("std::iter::Enumerate<")) else []
    counts = set()
    shape = None
    sites = [site]
    for it in L.iters:
        if it.end in ("done", "diverge", "unreachable"):
            continue
        if it.end in ("break", "return"):
            raise _Bad("traversal of the source at %s is not full: it can stop early (%s)" % (site, it.end), site)
        n, sh, ss = _count(ev, it.path.events, Src(L.elem, epath), fam, fname, depth + 1)
        counts.add(n)
        if n:
            shape = sh
            sites.extend(ss)
    if counts == set([1]):
        kind = "par_for_each" if L.kind == "model:par_for_each" else "for"
        return 1, (kind, shape), sites
    if counts <= set([0]):
        return 0, None, []
    raise _Bad("per-element coverage inside the loop at %s is %s (expected exactly 1 on every way through an iteration)" % (site, sorted(counts)), site)


def _known_empty(ev, e, src):
    """The path has established that the source holds no element."""
    for (ct, cv, cn, cs) in e.path.conds:
        if Q.is_call(ev, ct, "is_empty") and cv == 1:
            b, p = sroot(ev, ct[2][0])
            if src.exact(b, p, ev):
                return True
        nc = Q.norm_cmp(ct, cv)
        if nc is not None and nc[2][0] == "int" and (Q.is_call(ev, nc[1], "len") or nc[1][0] == "len"):
            inner = nc[1][2][0] if nc[1][0] == "call" else nc[1][1]
            b, p = sroot(ev, inner)
            if src.exact(b, p, ev) and [n for n in (0, 1, 2, 3) if Q.holds_for(nc[0], n, nc[2][1])] == [0]:
                return True
    return False


def coverage(prog, body, src, family, extra_opaque=(), inline=(), vacuous=True, keep=None):
    fam = family if callable(family) else (lambda c: c.name in family)
    fname = getattr(family, "__name__", None) if callable(family) else "/".join(sorted(family))
    try:
        ev, ends = evaluate(prog, body, extra_opaque, inline, keep)
    except Exception as e:
        return Cov("bad", "%s could not be evaluated (%s: %s)" % (body.qname, type(e).__name__, e), [body.loc()])
    rets = [e for e in ends if e.kind == "return"]
    if not rets:
        return Cov("bad", "no normal path through %s" % body.qname, [body.loc()])
    counts = []
    shape = None
    sites = []
    try:
        for e in rets:
            n, sh, ss = _count(ev, e.path.events, src, fam, fname)
            if n == 0 and vacuous and _known_empty(ev, e, src):
                n = 1   # nothing to cover: the collection is known to be empty on this path
            counts.append(n)
            if n:
                shape = sh if shape is None or shape == sh else ("mixed", shape, sh)
                sites = sites or ss
    except _Bad as b:
        return Cov("bad", b.detail, [b.site or body.loc()])
    if all(c == 1 for c in counts):
        return Cov("once", "exactly one %s on every path (%d path(s))" % (fname, len(counts)), sites or [body.loc()], shape=shape)
    if all(c == 0 for c in counts):
        return Cov("never", "no %s call reaches the source in %s" % (fname, body.qname))
    if all(c in (0, 1) for c in counts):
        # all of it on some ways through, none of it on the others (a guarded traversal): never a part, never twice
        return Cov("some", "%s on every element on %d of %d way(s) through %s, on none on the others" % (fname, sum(counts), len(counts), body.qname), sites or [body.loc()], shape=shape)
    return Cov("bad", "%s call count on normal paths of %s is min %d / max %d (expected exactly 1)" % (fname, body.qname, min(counts), max(counts)), sites or [body.loc()])
