"""Rules about World, its guards and ResourceId (C06.PRIM, C08, C09)."""
import re

from . import anchors as A
from . import shared as S
from . import inventory as I
from . import poolrules as R
from .facts import Callee, AnchorError
from .paths import enumerate_paths
from .shapes import root, SELF
from .terms import subterms

CELL = "atomic_refcell::AtomicRefCell"
READ_API = set(["get", "contains_key", "is_empty", "len", "deref", "keys", "capacity"])   # `keys` hands out ids, no cell
# through an exclusive World reference nobody else can be looking: what the property needs there is only that nothing is
# handed out that outlives the reference without going through a cell (checked on the cells); which map operation is used
# is not its business (what may be *stored* is C09's: insert / entry / extend are decided there)
MUT_API = READ_API | set(["insert", "remove", "entry", "get_mut", "deref_mut", "clear", "retain", "drain", "remove_entry", "shrink_to_fit", "reserve",
                          "iter", "iter_mut", "keys", "values", "values_mut", "capacity"])
SHARED_BORROWS = set(["borrow", "try_borrow"])
EXCL_BORROWS = set(["borrow_mut", "try_borrow_mut"])


def touches_field(body, adt, field):
    hits = []

    def pl(p, bb):
        for e in p.get("p", []):
            if e["k"] == "field" and e.get("adt") == adt and e.get("name") == field:
                hits.append(bb)

    for bb, blk in enumerate(body.blocks):
        if blk["cleanup"]:
            continue
        for st in blk["stmts"]:
            if st["k"] == "assign":
                pl(st["place"], bb)
                rv = st["rv"]
                if "place" in rv:
                    pl(rv["place"], bb)
                for k in ("op", "a", "b"):
                    if isinstance(rv.get(k), dict) and "place" in rv[k]:
                        pl(rv[k]["place"], bb)
        t = blk["term"]
        if t["k"] == "call":
            for a in t["args"]:
                if "place" in a:
                    pl(a["place"], bb)
    return hits


def world_ref_kind(body):
    """'shared' / 'mut' / 'owned' / None: how the body (or its root fn) holds the World."""
    b = body
    facts = body.facts
    while b.is_closure and b.parent_key in facts.bodies:
        b = facts.bodies[b.parent_key]
    for i in range(1, b.arg_count + 1):
        ty = b.locals[i]["ty"]
        if ty.startswith("&mut " + A.WORLD) or ty.startswith("&'") and "mut " + A.WORLD in ty:
            return "mut"
        if ty == A.WORLD:
            return "owned"
        if ty.startswith("&") and ty.endswith(A.WORLD):
            return "shared"
    return None




def _cell_uses(ev, ends, cell_pred):
    """What happens to looked-up cells in an evaluation: list of (consumer name, site) over all paths."""
    from . import semq as Q
    out = set()

    def view(t):
        # only what is still the cell itself: casts and plain re-borrows (a `borrow()` result is a guard, not the cell)
        while isinstance(t, tuple) and t:
            if t[0] == "cast":
                t = t[2]
            elif t[0] == "call" and ev.callee(t[1]) is not None and not ev.callee(t[1]).local and ev.callee(t[1]).name in ("deref", "as_ref", "as_deref") and t[2] \
                    and CELL not in (ev.callee(t[1]).path or ""):
                t = t[2][0]
            else:
                break
        return t

    def is_cell(t):
        s = view(t)
        while isinstance(s, tuple) and s and s[0] == "agg" and s[1] == "adt" and s[2].startswith("std::option::Option::Some"):
            s = view(s[3][0])
        return cell_pred(s)

    def visit(events):
        for x in events:
            if x[0] == "call":
                for a in x[3]:
                    if is_cell(a):
                        out.add((x[2].name, ev.loc(x[1])))
            elif x[0] == "store" and x[2][0] != "cell" and is_cell(x[3]):
                out.add(("<store>", ev.loc(x[1])))
            elif x[0] == "yield" and is_cell(x[2]):
                out.add(("<collect>", ev.loc(x[1])))
            elif x[0] == "loop":
                for it in x[1].iters:
                    visit(it.path.events)

    for e in ends:
        visit(e.path.events)
        if e.kind == "return" and e.ret is not None:
            r = e.ret
            stack = [r]
            while stack:
                y = stack.pop()
                if is_cell(y):
                    out.add(("<return>", None))
                    break
                if isinstance(y, tuple) and y and y[0] == "agg":
                    stack.extend(y[3])
    return sorted(out, key=str)


def gate(ctx, report, rule, facts, config):
    """C08.GATE: every path from a shared &World to a resource goes through the cell's borrow API."""
    from . import semq as Q
    prog = ctx.program(facts)
    n_shared = n_mut = 0
    tfi_key = facts.one(A.WORLD + "::try_fetch_internal").key
    ast_key = facts.one(A.RESID + "::assert_same_type_id").key
    # every function of World / Entry that reaches the table, directly or through private helpers, is looked at with
    # those helpers evaluated in place: a helper may hand a cell to its caller, the caller may only borrow it
    touching = set()
    for b in facts.bodies.values():
        if touches_field(b, A.WORLD, "resources"):
            r = b
            while r.is_closure and r.parent_key in facts.bodies:
                r = facts.bodies[r.parent_key]
            touching.add(r.key)
    roots = []
    for b in sorted(facts.bodies.values(), key=lambda b: b.key):
        if b.is_closure or b.self_head not in (A.WORLD, A.ENTRY) or b.container != "inherent":
            continue
        cone = facts.cone([b], stop=lambda x: x.key == tfi_key and b.key != tfi_key)
        if any(k in touching for k in cone):
            roots.append(b)
    for b in roots:
        kind = world_ref_kind(b)
        report.touched(b, config)
        if kind == "shared":
            n_shared += 1
        else:
            n_mut += 1
        problems = []
        try:
            ev, ends = Q.sem(ctx, facts, b, opaque=([tfi_key] if b.key != tfi_key else []) + [ast_key, A.RESID + "::new"] + _downcasts(facts))
        except Exception as e_:
            report.ob(rule, "table-access/%s" % b.qname, False, "cannot tabulate %s (%s)" % (b.qname, type(e_).__name__), site=b.loc(), config=config)
            continue
        allowed = READ_API if kind == "shared" else MUT_API
        gets = set()
        for e in ends:
            for x in _deep_all(e.path.events):
                if x[0] != "call" or x[2].local or not x[3] or not _table_recv(ev, x[3][0]):
                    continue
                if x[2].name not in allowed and x[2].name not in ("deref", "deref_mut", "as_ref", "as_mut", "borrow"):
                    problems.append("calls `%s` on the resource table through a %s World reference" % (x[2].name, kind))
                if x[2].name == "get":
                    gets.add(x[4])
        if kind == "shared":
            cells = set(("field", ("variant", g, "Some"), "0", "std::option::Option") for g in gets)
            for name, where in _cell_uses(ev, ends, lambda s: s in cells or s in gets):
                ok = name in SHARED_BORROWS | EXCL_BORROWS
                if name == "<return>":
                    # the audited unsafe escape hatch, or a private helper whose callers are all looked at here with it in place
                    ok = (b.key == tfi_key and bool(b.raw.get("unsafe"))) or not b.api
                if not ok:
                    problems.append("the looked-up cell flows into `%s`%s (only the cell's borrow calls may see it)" % (name, " at %s" % where if where else ""))
        report.ob(rule, "table-access/%s" % b.qname, not problems, "; ".join(sorted(set(problems))) if problems else
                  "%s access: table used through %s only, cells go to borrow calls" % (kind, "get/contains_key/is_empty" if kind == "shared" else "the map API"),
                  site=b.loc(), config=config)
    report.floor(rule, "bodies reaching the table through &World", n_shared, 6, config=config)
    report.floor(rule, "bodies reaching the table through &mut World", n_mut, 4, config=config)
    # callers of the unsafe escape hatch only borrow: decided in each function that calls it, with private helpers that pass
    # the cell on to their callers looked at in those callers
    tfi = facts.one(A.WORLD + "::try_fetch_internal")
    callers_of = facts.callers()

    def rootfn(x):
        return facts.bodies.get(x.root_key, x) if x.is_closure and x.root_key else x

    work = sorted(set(rootfn(cb).key for cb, bb in callers_of.get(tfi.key, [])))
    n_direct = len(work)
    seen_c = set()
    n_dec = 0
    while work:
        k = work.pop(0)
        if k in seen_c:
            continue
        seen_c.add(k)
        cb = facts.bodies[k]
        report.touched(cb, config)
        try:
            ev, ends = Q.sem(ctx, facts, cb, opaque=[tfi.key, A.RESID + "::new", A.RESID + "::from_type_id"] + _downcasts(facts))
        except Exception as e_:
            report.ob(rule, "try_fetch_internal-caller/%s" % cb.qname, False, "cannot tabulate %s (%s)" % (cb.qname, type(e_).__name__), site=cb.loc(), config=config)
            continue
        got = set()
        for e in ends:
            for x in _deep_all(e.path.events):
                if x[0] == "call" and x[2].key == tfi.key:
                    got.add(x[4])
        cells = set(("field", ("variant", g, "Some"), "0", "std::option::Option") for g in got)
        uses = _cell_uses(ev, ends, lambda s_: s_ in cells or s_ in got)
        bad = sorted(set(n for n, _ in uses if n not in SHARED_BORROWS | EXCL_BORROWS and n != "<return>"))
        passes_on = any(n == "<return>" for n, _ in uses)
        detail = "cell handed out by try_fetch_internal only goes to %s" % sorted(set(n for n, _ in uses))
        ok = bool(got) and not bad
        if ok and passes_on:
            cs = sorted(set(rootfn(c2).key for c2, b2 in callers_of.get(cb.key, [])))
            if cb.api or not cs:
                ok = False
                detail = "the cell handed out by try_fetch_internal is passed on by %s, which %s" % (cb.qname, "is public" if cb.api else "nobody in the crate calls")
            else:
                work.extend(cs)
                detail += " (passed on to its callers, which are looked at in turn)"
        elif not got:
            detail = "no call of try_fetch_internal on any way through %s" % cb.qname
        elif bad:
            detail = "cell handed out by try_fetch_internal flows into %s" % bad
        n_dec += 1 if ok and not passes_on else 0
        report.ob(rule, "try_fetch_internal-caller/%s" % cb.qname, ok, detail, site=cb.loc(), config=config)
    report.floor(rule, "callers of try_fetch_internal", n_direct, 1, config=config)
    report.floor(rule, "uses of try_fetch_internal decided in context", n_dec, 2, config=config)
    # AtomicRefCell API inventory
    uses = {}
    for b in sorted(facts.bodies.values(), key=lambda b: b.key):
        for bb, t in b.normal_calls():
            c = Callee(t["func"])
            if c.path.startswith(CELL + "::") or (c.self_head == CELL):
                uses.setdefault(c.name, []).append((b, bb))
    allowed = set(["new", "try_borrow", "try_borrow_mut", "borrow", "borrow_mut", "into_inner", "get_mut"])
    for name in sorted(uses):
        for b, bb in uses[name]:
            ok = name in allowed
            if name in ("into_inner", "get_mut"):
                kind = world_ref_kind(b)
                if kind is None:
                    # no World in sight: fine if what is opened is a cell the function owns (it was taken out of the table)
                    rootb = b
                    while rootb.is_closure and rootb.parent_key in facts.bodies:
                        rootb = facts.bodies[rootb.parent_key]
                    owned_cell = any(rootb.locals[i]["ty"].startswith(CELL + "<") for i in range(1, rootb.arg_count + 1))
                    ok = ok and owned_cell and name == "into_inner"
                else:
                    ok = ok and kind in ("mut", "owned")
            if not ok:
                report.ob(rule, "cell-api/%s/%s" % (name, b.qname), False,
                          "AtomicRefCell::%s in %s bypasses the borrow flag" % (name, b.qname), site=b.loc(bb), config=config)
    report.ob(rule, "cell-api/inventory", set(uses) <= allowed, "AtomicRefCell API used: %s" % dict((k, len(v)) for k, v in sorted(uses.items())), config=config)
    # function pointers to the owned-access API (Option::map(AtomicRefCell::get_mut)) only in &mut World bodies
    for b in sorted(facts.bodies.values(), key=lambda b: b.key):
        for ref in set(prog.facts.bodies and [x for x in _fnref_paths(b)]):
            if ref.startswith(CELL + "::") and ref.rsplit("::", 1)[1] in ("as_ptr", "get_mut", "into_inner"):
                ok = ref.endswith("as_ptr") is False and world_ref_kind(b) in ("mut", "owned")
                report.ob(rule, "cell-api-ref/%s/%s" % (ref.rsplit("::", 1)[1], b.qname), ok,
                          "%s used as a function value in %s (%s World access)" % (ref, b.qname, world_ref_kind(b)), site=b.loc(), config=config)


def _fnref_paths(body):
    out = []

    def op(o):
        if isinstance(o, dict) and o.get("k") == "const" and "fn" in o:
            out.append(re.sub(r"::<.*?>(?=::|$)", "", o["fn"]["path"]))

    for blk in body.blocks:
        if blk["cleanup"]:
            continue
        for st in blk["stmts"]:
            if st["k"] == "assign":
                rv = st["rv"]
                for k in ("op", "a", "b"):
                    if k in rv:
                        op(rv[k])
                for o in rv.get("ops", []):
                    op(o)
        t = blk["term"]
        if t["k"] == "call":
            for a in t["args"]:
                op(a)
    return out




def _deep(events):
    out = []
    for x in events:
        out.append(x)
        if x[0] == "loop" and x[2] is not None:
            out.extend(_deep(x[1].iters[x[2]].path.events))
    return out


def _deep_all(events):
    """Events of a path with those of every way through its loops."""
    out = []
    for x in events:
        out.append(x)
        if x[0] == "loop":
            for it in x[1].iters:
                out.extend(_deep_all(it.path.events))
    return out


def _table_recv(ev, t):
    """`t` is (a view of) the resource table itself, not of something stored in it."""
    from . import semq as Q
    s = Q.strip(ev, t)
    return isinstance(s, tuple) and s[0] == "field" and s[2] == "resources" and s[3] == A.WORLD


def _downcasts(facts):
    return [b.key for b in facts.bodies.values() if not b.is_closure and b.name in ("downcast", "downcast_ref", "downcast_mut", "downcast_unchecked",
                                                                                     "downcast_ref_unchecked", "downcast_mut_unchecked")]


def outcome(ctx, report, rule, facts, config):
    """C08.OUTCOME: None only if absent; a refused borrow panics; a guard only for a present, borrowed resource."""
    from . import semq as Q
    ast = A.RESID + "::assert_same_type_id"
    for name, kinds in (("try_fetch", ("try_borrow",)), ("try_fetch_mut", ("try_borrow_mut",)), ("try_fetch_by_id", ("borrow",)), ("try_fetch_mut_by_id", ("borrow_mut",))):
        b = facts.one(A.WORLD + "::" + name)
        report.touched(b, config)
        ev, ends = Q.sem(ctx, facts, A.WORLD + "::" + name, opaque=[ast, A.RESID + "::new"])
        problems = []
        n_some = n_none = n_panic = 0
        for e in ends:
            present = None
            borrowed = None
            lookup = None
            for (ct, cv, cn, cs) in e.path.conds:
                if ct[0] == "discr" and Q.is_call(ev, ct[1], "get") and _table_recv(ev, ct[1][2][0]):
                    present = e.path.variant(ct[1])
                    lookup = ct[1]
                elif ct[0] == "discr" and Q.callee_of(ev, ct[1]) is not None and Q.callee_of(ev, ct[1]).name in ("try_borrow", "try_borrow_mut") and CELL in Q.callee_of(ev, ct[1]).path:
                    borrowed = e.path.variant(ct[1])
            cell = ("field", ("variant", lookup, "Some"), "0", "std::option::Option") if lookup is not None else None
            hard = [x for x in _deep(e.path.events) if x[0] == "call" and x[2].name in ("borrow", "borrow_mut") and CELL in x[2].path and Q.strip(ev, x[3][0]) == cell]
            if hard:
                borrowed = "Ok"  # the panicking borrow returned
            if e.kind == "return":
                r = e.ret
                if r[0] == "agg" and r[2] == "std::option::Option::Some":
                    n_some += 1
                    if present != "Some" or borrowed != "Ok":
                        problems.append("Some(..) is returned without a present resource and a granted borrow")
                    g = r[3][0]
                    if not (g[0] == "agg" and g[2] in (A.FETCH + "::Fetch", A.FETCHMUT + "::FetchMut")):
                        problems.append("what is returned for a present resource is not a guard")
                elif r[0] == "agg" and r[2] == "std::option::Option::None":
                    n_none += 1
                    if present != "None":
                        problems.append("None is returned although the resource is present (present=%s, borrow=%s)" % (present, borrowed))
                else:
                    problems.append("the result is not decided by the lookup")
            elif e.kind == "diverge":
                n_panic += 1
                if not (present == "Some" and borrowed == "Err"):
                    problems.append("panics on a path other than (present, borrow refused)")
        if not (n_some >= 1 and n_none >= 1 and (n_panic >= 1 or not kinds[0].startswith("try_"))):
            problems.append("expected a Some path, a None path%s; found %d/%d/%d" % (" and a panic path" if kinds[0].startswith("try_") else "", n_some, n_none, n_panic))
        report.ob(rule, name, not problems, "; ".join(sorted(set(problems))) if problems else
                  "absent -> None; present and borrow refused -> panic; present and granted -> Some(guard)", site=b.loc(), config=config)
    # every use of the non-panicking borrow API in the crate: a refused borrow must end in a panic, never in a value
    n_try = 0
    roots = {}
    for b in sorted(facts.bodies.values(), key=lambda b: b.key):
        tries = [bb for bb, t in b.normal_calls() if Callee(t["func"]).name in ("try_borrow", "try_borrow_mut") and CELL in Callee(t["func"]).path]
        if not tries:
            continue
        n_try += len(tries)
        r = b
        while r.is_closure and r.parent_key in facts.bodies:
            r = facts.bodies[r.parent_key]
        roots.setdefault(r.key, (r, b.loc(tries[0])))
    for key, (r, site) in sorted(roots.items()):
        problems = []
        try:
            ev, ends = Q.sem(ctx, facts, r, opaque=[ast, A.RESID + "::new"])
            for e in ends:
                for (ct, cv, cn, cs) in e.path.conds:
                    c = Q.callee_of(ev, ct[1]) if ct[0] == "discr" else None
                    if c is not None and c.name in ("try_borrow", "try_borrow_mut") and CELL in c.path and e.path.variant(ct[1]) == "Err" and e.kind == "return":
                        problems.append("a refused borrow (Err arm) reaches a normal return")
                for x in _deep(e.path.events):
                    if x[0] == "call":
                        for a in x[3]:
                            ac = Q.callee_of(ev, Q.strip(ev, a))
                            if ac is not None and ac.name in ("try_borrow", "try_borrow_mut") and CELL in ac.path:
                                problems.append("the result of %s is handed to `%s`" % (ac.name, x[2].name))
        except Exception as e_:
            problems.append("cannot tabulate the paths around try_borrow (%s)" % type(e_).__name__)
        report.ob(rule, "refused-borrow-panics/%s" % r.qname, not problems,
                  "; ".join(sorted(set(problems))) if problems else "a refused try_borrow ends in a panic on every path", site=site, config=config)
    report.floor(rule, "try_borrow call sites", n_try, 2, config=config)
    for name, inner in (("fetch", "try_fetch"), ("fetch_mut", "try_fetch_mut")):
        b = facts.one(A.WORLD + "::" + name)
        ib = facts.one(A.WORLD + "::" + inner)
        report.touched(b, config)
        ev, ends = Q.sem(ctx, facts, A.WORLD + "::" + name, opaque=[ib.key])
        problems = []
        n_ret = n_pan = 0
        for e in ends:
            tf = [x for x in e.path.events if x[0] == "call" and x[2].key == ib.key]
            if len(tf) != 1 or tf[0][3][0] != SELF:
                problems.append("%s is not asked exactly once about self" % inner)
                continue
            v = e.path.variant(tf[0][4])
            if e.kind == "return":
                n_ret += 1
                if v != "Some" or Q.strip(ev, e.ret) != ("field", ("variant", tf[0][4], "Some"), "0", "std::option::Option"):
                    problems.append("a value is returned that is not the guard %s found" % inner)
            elif e.kind == "diverge":
                n_pan += 1
                if v != "None":
                    problems.append("panics although the resource was found")
        if not (n_ret >= 1 and n_pan >= 1):
            problems.append("expected a returning and a panicking path, found %d/%d" % (n_ret, n_pan))
        report.ob(rule, name, not problems, "%s(): Some(guard) -> guard, None -> panic" % inner if not problems else
                  "%s does not turn an absent resource into a panic: %s" % (name, "; ".join(sorted(set(problems)))), site=b.loc(), config=config)








SHARED_OF = [("try_borrow_mut", "try_borrow"), ("borrow_mut", "borrow"), ("FetchMut", "Fetch"), ("AtomicRefMut", "AtomicRef"), ("as_mut", "as_ref"),
             ("try_fetch_mut", "try_fetch"), ("get_mut", "get"), ("deref_mut", "deref")]


def _tabulation(facts, b, opaque=None, rename=()):
    """The function's canonical tabulation with exclusive names read as their shared counterparts."""
    from .sem import Evaluator, Policy
    from .semcanon import canonical
    ev = Evaluator(facts, Policy(opaque=opaque if opaque is not None else [A.RESID + "::new", A.RESID + "::assert_same_type_id"]))
    out = []
    for row in canonical(ev, ev.eval(b), keep=("borrow", "borrow_mut")):
        r = repr(row)
        for a, b_ in list(rename) + SHARED_OF:
            r = r.replace(a, b_)
        out.append(r)
    return sorted(out)


def sibling(ctx, report, rule, facts, config):
    """C08.SIBLING: the shared and the exclusive variant of a lookup do the same thing on every way through, modulo
    shared <-> exclusive (compared on the canonical tabulation, so that the two may be spelled differently)."""
    pairs = [("try_fetch", "try_fetch_mut"), ("try_fetch_by_id", "try_fetch_mut_by_id")]
    for a, b_ in pairs:
        ba, bb = facts.one(A.WORLD + "::" + a), facts.one(A.WORLD + "::" + b_)
        report.touched(ba, config)
        report.touched(bb, config)
        sa, sb = _tabulation(facts, ba), _tabulation(facts, bb)
        only_a = [x for x in sa if x not in sb]
        only_b = [x for x in sb if x not in sa]
        report.ob(rule, "%s~%s" % (a, b_), sa == sb, "equal tabulations modulo shared<->exclusive (%d ways)" % len(sa) if sa == sb else
                  "shared and exclusive variants diverge: only %s: %s; only %s: %s" % (a, [x[:300] for x in only_a[:2]], b_, [x[:300] for x in only_b[:2]]), site=bb.loc(), config=config)
    da = facts.one(name="deref", trait="std::ops::Deref", self_head=A.FETCH)
    db = facts.one(name="deref", trait="std::ops::Deref", self_head=A.FETCHMUT)
    sa, sb = _tabulation(facts, da), _tabulation(facts, db)
    report.ob(rule, "Fetch::deref~FetchMut::deref", sa == sb, "equal tabulations (%d way(s))" % len(sa) if sa == sb else "the two guards read their content differently: %s vs %s" % (sa[:1], sb[:1]), site=db.loc(), config=config)


def clone_rule(ctx, report, rule, facts, config):
    from . import semq as Q
    b = facts.one(name="clone", trait="std::clone::Clone", self_head=A.FETCH)
    report.touched(b, config)
    ev, ends = Q.sem(ctx, facts, b)
    rets = Q.returns(ends)
    ok = bool(rets)
    for e in rets:
        o = Q.record(ev, e.ret, A.FETCH + "::Fetch")
        v = o.get("inner") if o else None
        while isinstance(v, tuple) and v and v[0] == "cast":
            v = v[2]
        if not (v is not None and Q.is_call(ev, v, "clone") and "AtomicRef" in (Q.callee_of(ev, v).path or "") and len(v[2]) == 1
                and Q.strip(ev, v[2][0]) == ("field", ("param", 1), "inner", A.FETCH)):
            ok = False
    report.ob(rule, "Fetch::clone", ok, "Fetch { inner: AtomicRef::clone(&self.inner) }: the clone registers its own shared borrow" if ok else
              "Fetch::clone does not go through AtomicRef::clone", site=b.loc(), config=config)
    cl = [im for im in facts.impls if im.get("trait") == "std::clone::Clone" and im.get("self_head") in (A.FETCHMUT, A.WRITE)]
    report.ob(rule, "FetchMut-not-Clone", not cl, "exclusive guards are not Clone", config=config)


def unsafe_inventory(ctx, report, rule, facts, config):
    """C08.UNSAFE: the crate's unsafe impls and unsafe fns are the audited ones."""
    got = set()
    for im in facts.impls:
        if im.get("unsafe") and not im.get("auto_derived"):
            got.add((im["self_head"] if isinstance(im["self_head"], str) else str(im["self_head"]), im["trait"]))
    want = set([(A.BCS, "std::marker::Send"), (A.BCS, "std::marker::Sync"), (A.C + "::meta::Invariant", "std::marker::Send"),
                (A.C + "::meta::Invariant", "std::marker::Sync")])
    for x in sorted(got | want):
        report.ob(rule, "unsafe-impl/%s/%s" % (x[0].rsplit("::", 1)[-1], x[1].rsplit("::", 1)[-1]), x in want and x in got,
                  "audited unsafe impl (field audit: C12.AUTO)" if x in want and x in got else
                  ("unaudited `unsafe impl %s for %s`" % (x[1], x[0]) if x in got else "expected unsafe impl missing (update the audit list)"), config=config)
    ufns = sorted(b.qname for b in facts.bodies.values() if b.raw.get("unsafe"))
    want_fns = set([A.WORLD + "::try_fetch_internal", A.BCS + "::create",
                    "dyn:(dyn shred::world::Resource + 'static)::downcast_unchecked", "dyn:(dyn shred::world::Resource + 'static)::downcast_ref_unchecked",
                    "dyn:(dyn shred::world::Resource + 'static)::downcast_mut_unchecked"])
    by_q = {}
    for b_ in facts.bodies.values():
        by_q.setdefault(b_.qname, b_)

    def touches_world(q):
        """Does the unsafe fn (with what it calls) reach the resource table, the cells' API or build a guard?"""
        b_ = by_q.get(q)
        if b_ is None:
            return True
        for cb in facts.cone([b_]).values():
            if touches_field(cb, A.WORLD, "resources"):
                return True
            for bb, t_ in cb.normal_calls():
                c = Callee(t_["func"])
                if c.path.startswith(CELL + "::") or c.self_head == CELL or c.name in ("downcast_unchecked", "downcast_ref_unchecked", "downcast_mut_unchecked", "try_fetch_internal"):
                    return True
            for blk in cb.blocks:
                for st in blk["stmts"]:
                    if st["k"] == "assign" and st["rv"]["k"] == "agg" and st["rv"].get("adt") in (A.FETCH, A.FETCHMUT):
                        return True
        return False

    for q in sorted(set(ufns) | want_fns):
        if q in ufns and q not in want_fns and not touches_world(q):
            # an unsafe helper that never comes near the resource table, its cells or the guards has no bearing on this property
            report.ob(rule, "unsafe-fn/%s" % q.rsplit("::", 1)[-1], True, "unsafe fn %s does not reach the resource table, the cell API or a guard" % q, config=config)
            continue
        report.ob(rule, "unsafe-fn/%s" % q.rsplit("::", 1)[-1], q in want_fns and q in ufns,
                  "audited unsafe fn" if q in want_fns and q in ufns else ("unaudited unsafe fn %s" % q if q in ufns else "expected unsafe fn %s missing" % q), config=config)
    # callers of the unsafe fns
    callers_ok = {
        A.WORLD + "::try_fetch_internal": lambda q: q.startswith("<" + A.METAITER) or q.startswith("<" + A.METAITERMUT),
        A.BCS + "::create": lambda q: q in (A.DB + "::add_batch", A.DB + "::with_batch"),    # with_batch is add_batch chained (C04 / C18 `chain/with_batch`)
    }
    for q, okf in sorted(callers_ok.items()):
        b = facts.one(q)
        owners = set(x.key for x in facts.bodies.values() if not x.is_closure and okf(x.qname))
        for cb, bb in facts.callers().get(b.key, []):
            # the audited callers, or a private helper that only they reach
            report.ob(rule, "unsafe-caller/%s<-%s" % (q.rsplit("::", 1)[-1], cb.qname), S.owned_by(facts, cb, owners), "%s is called from %s" % (q, cb.qname), site=cb.loc(bb), config=config)


# ------------------------------------------------------------------ C09

def _type_args(c):
    return [a["s"] for a in c.type_args()]


def assert_rules(ctx, report, rule, facts, config):
    """C09.ASSERT / ASSERTBODY."""
    prog = ctx.program(facts)
    ast = facts.one(A.RESID + "::assert_same_type_id")
    n = 0
    for b in sorted(facts.find(self_head=A.WORLD, container="inherent"), key=lambda b: b.key):
        gens = [g["name"] for g in b.raw.get("generics", []) if g["kind"] == "ty"]
        has_id = any(b.locals[i]["ty"] == A.RESID for i in range(1, b.arg_count + 1))
        if not (gens and has_id):
            continue
        n += 1
        report.touched(b, config)
        from . import semq as Q
        idp = [i for i in range(1, b.arg_count + 1) if b.locals[i]["ty"] == A.RESID][0]
        # on every path (helpers looked into) the id is asserted for the method's own type parameter before the
        # table is touched
        try:
            ev, ends = Q.sem(ctx, facts, b, opaque=[ast.key, A.RESID + "::new"] + _downcasts(facts))
        except Exception as e_:
            report.ob(rule, "asserted/%s" % b.qname, False, "cannot tabulate %s (%s)" % (b.qname, type(e_).__name__), site=b.loc(), config=config)
            continue
        ok = True
        touched = 0
        for e in ends:
            asserted = False
            for x in _deep_all(e.path.events):
                if x[0] != "call":
                    continue
                if x[2].key == ast.key and Q.strip(ev, x[3][0]) == ("param", idp) and ev.targs(x[4])[:1] == gens[:1]:
                    asserted = True
                elif not x[2].local and x[3] and _table_recv(ev, x[3][0]) and x[2].name not in ("deref", "deref_mut", "as_ref", "as_mut", "borrow", "len", "is_empty"):
                    touched += 1
                    if not asserted:
                        ok = False
        ok = ok and touched >= 1
        report.ob(rule, "asserted/%s" % b.qname, ok, "id.assert_same_type_id::<%s>() comes before every access to the table" % gens[0] if ok else
                  "%s takes a ResourceId and a type parameter but reaches the table without asserting that they agree: a later typed fetch would reinterpret memory" % b.qname,
                  site=b.loc(), config=config)
    report.floor(rule, "id-taking typed World methods", n, 4, config=config)
    report.touched(ast, config)
    from . import semq as Q
    ev, ends = Q.sem(ctx, facts, A.RESID + "::assert_same_type_id")

    def is_r(x):
        return Q.is_call(ev, x, "of") and "TypeId" in Q.callee_of(ev, x).path and ev.targs(x) == ["R"]

    pr = []
    n_ret = n_pan = 0
    for e in ends:
        verdict = None
        for (ct, cv, cn, cs) in e.path.conds:
            c = Q.callee_of(ev, ct)
            if c is not None and c.name in ("eq", "ne") and "TypeId" in c.inst_path and len(ct[2]) == 2:
                a, b_ = Q.strip(ev, ct[2][0]), Q.strip(ev, ct[2][1])
                own = [x for x in (a, b_) if x == ("field", ("param", 1), "type_id", A.RESID)]
                of = [x for x in (a, b_) if is_r(x)]
                if len(own) == 1 and len(of) == 1:
                    verdict = (cv == 1) if c.name == "eq" else (cv == 0)
                else:
                    pr.append("the comparison is not between TypeId::of::<R>() and self.type_id")
            elif ct[0] in ("call", "bin"):
                pr.append("the verdict depends on something else than the type ids")
        if e.kind == "return":
            n_ret += 1
            if verdict is not True:
                pr.append("returns without the type ids being equal")
        elif e.kind == "diverge":
            n_pan += 1
            if verdict is not False:
                pr.append("panics although the type ids agree")
    ok = not pr and n_ret >= 1 and n_pan >= 1
    report.ob(rule, "assert_same_type_id/body", ok, "returns iff TypeId::of::<R>() == self.type_id, else panics" if ok else
              "assert_same_type_id does not compare the type ids of R and self (or does not panic on mismatch): %s" % "; ".join(sorted(set(pr))), site=ast.loc(), config=config)


def insert_rules(ctx, report, rule, facts, config):
    """C09.INSERT / KEY: what is stored under which key."""
    prog = ctx.program(facts)
    # every map insertion
    n = 0
    for b in sorted(facts.bodies.values(), key=lambda b: b.key):
        bt = prog.bt(b)
        for bb, t in b.normal_calls():
            c = Callee(t["func"])
            if c.local or not t["args"]:
                continue
            ty = I.recv_ty(t)
            is_table = "AtomicRefCell<std::boxed::Box<dyn shred::world::Resource" in ty or "AtomicRefCell<std::boxed::Box<dyn shred::world::Resource" in c.inst_path
            if not is_table or c.name not in ("insert", "or_insert_with", "or_insert", "entry", "try_insert", "or_default", "insert_entry", "extend"):
                continue
            if c.name == "insert" and "VacantEntry" in c.path:
                n += 1
                rb = facts.bodies.get(b.root_key, b) if b.is_closure and b.root_key else b
                ok = rb.self_head == A.ENTRY and rb.container == "inherent" and _stores_ok(ctx, facts, rb, "vacant")
                report.ob(rule, "stores/%s" % b.qname, ok, "vacant entry of Entry<T> receives AtomicRefCell::new(Box::<T>::new(the value given))" if ok else "a vacant entry of the resource table is filled in %s with a value of another type" % b.qname, site=b.loc(bb), config=config)
                continue
            n += 1
            args = bt.call_args(bb)
            if c.name == "insert":
                ok = _stores_ok(ctx, facts, b, "insert")
                report.ob(rule, "stores/%s" % b.qname, ok, "resources.insert(id, AtomicRefCell::new(Box::<R>::new(r))) with the asserted id" if ok else
                          "resource table insertion in %s does not store Box::<R>::new(r) under the asserted id" % b.qname, site=b.loc(bb), config=config)
            elif c.name == "entry":
                # what the entry is wrapped into, and for which type, is decided by entry_built (C09.INSERT/entry-built)
                report.ob(rule, "stores/%s" % b.qname, True, "an entry of the table is taken: decided where it is wrapped (entry-built)", site=b.loc(bb), config=config)
            elif c.name in ("or_insert_with", "or_insert"):
                rb = facts.bodies.get(b.root_key, b) if b.is_closure and b.root_key else b
                ok = rb.self_head == A.ENTRY and rb.container == "inherent" and _stores_ok(ctx, facts, rb, "vacant")
                report.ob(rule, "stores/%s" % b.qname, ok, "vacant entry of Entry<T> receives AtomicRefCell::new(Box::<T>::new(the value given))" if ok else "%s stores a value of another type" % b.qname, site=b.loc(bb), config=config)
            else:
                report.ob(rule, "stores/%s/%s" % (b.qname, c.name), False, "unaudited insertion into the resource table through `%s`" % c.name, site=b.loc(bb), config=config)
    report.floor(rule, "insertions into the resource table", n, 3, config=config)
    entry_built(ctx, report, rule, facts, config)
    # wrappers use the id of their own type
    from . import semq as Q
    RNEW = A.RESID + "::new"
    for name, op in (("insert", "insert"), ("remove", "remove"), ("has_value", "contains_key"), ("get_mut", "get_mut")):
        b = facts.one(A.WORLD + "::" + name)
        report.touched(b, config)
        gens = [g["name"] for g in b.raw.get("generics", []) if g["kind"] == "ty"]
        # looked into all the way down to the table (whether or not a *_by_id / *_raw helper is in between): the slot
        # that is touched is the one of the method's own type parameter
        ev, ends = Q.sem(ctx, facts, b, opaque=[RNEW, A.RESID + "::assert_same_type_id"] + _downcasts(facts))
        rets = [e for e in ends if e.kind == "return"]
        ok = bool(rets)
        for e in rets:
            ops = [x for x in _deep(e.path.events) if x[0] == "call" and not x[2].local and x[3] and _table_recv(ev, x[3][0])
                   and x[2].name in ("insert", "remove", "contains_key", "get_mut", "get", "entry")]
            if len(ops) != 1 or ops[0][2].name != op:
                ok = False
                continue
            k = Q.strip(ev, ops[0][3][1])
            good = Q.is_call(ev, k, "new") and Q.callee_of(ev, k).self_head == A.RESID and ev.targs(k) == gens[:1]
            if good and op == "insert":
                good = _boxed_as(ev, ops[0][3][2], gens[0], lambda x: x == ("param", 2))
            asserts = [x for x in _deep(e.path.events) if x[0] == "call" and x[2].name == "assert_same_type_id"]
            for a_ in asserts:
                good = good and Q.strip(ev, a_[3][0]) == k and ev.targs(a_[4])[:1] == gens[:1]
            ok = ok and good
        report.ob(rule, "wrapper/%s" % name, ok, "%s::<T>() works on the slot ResourceId::new::<T>()" % name if ok else "%s does not use the id of its own type" % name, site=b.loc(), config=config)
    # raw operations use their id parameter as the key
    for name, op in (("has_value_raw", "contains_key"), ("try_fetch_by_id", "get"), ("try_fetch_mut_by_id", "get"), ("remove_by_id", "remove"),
                     ("get_mut_raw", "get_mut"), ("try_fetch_internal", "get")):
        b = facts.one(A.WORLD + "::" + name)
        ev, ends = Q.sem(ctx, facts, b, opaque=[A.RESID + "::assert_same_type_id", RNEW])
        ok = False
        n_paths = 0
        bad = False
        for e in ends:
            cs = [x for x in _deep(e.path.events) if x[0] == "call" and x[2].name == op and not x[2].local and _table_recv(ev, x[3][0])]
            others = [x for x in _deep(e.path.events) if x[0] == "call" and not x[2].local and x[2].name in ("get", "get_mut", "remove", "contains_key", "insert", "entry") and x[3] and _table_recv(ev, x[3][0]) and x not in cs]
            if e.kind == "return":
                n_paths += 1
                if len(cs) != 1 or Q.strip(ev, cs[0][3][1]) != ("param", 2) or others:
                    bad = True
        ok = n_paths >= 1 and not bad
        report.ob(rule, "key/%s" % name, ok, "%s(&id)" % op if ok else "%s does not use its id parameter as the key" % name, site=b.loc(), config=config)
    for name in ("try_fetch", "try_fetch_mut"):
        b = facts.one(A.WORLD + "::" + name)
        ev, ends = Q.sem(ctx, facts, b, opaque=[A.RESID + "::assert_same_type_id", RNEW])
        n_paths = 0
        bad = False
        for e in ends:
            if e.kind != "return":
                continue
            n_paths += 1
            cs = [x for x in _deep(e.path.events) if x[0] == "call" and x[2].name == "get" and not x[2].local and _table_recv(ev, x[3][0])]
            if len(cs) != 1:
                bad = True
                continue
            k = Q.strip(ev, cs[0][3][1])
            if not (Q.is_call(ev, k, "new") and Q.callee_of(ev, k).self_head == A.RESID and ev.targs(k) == ["T"]):
                bad = True
        ok = n_paths >= 1 and not bad
        report.ob(rule, "key/%s" % name, ok, "get(&ResourceId::new::<T>())" if ok else "%s looks the resource up under another key" % name, site=b.loc(), config=config)
    # ResourceId constructors wire the fields: whichever way they delegate to each other, the value they build is
    # ResourceId { type_id: <the given / the type's id>, dynamic_id: <the given / 0> }
    def built(qname):
        b_ = facts.one(qname)
        ev_, ends_ = Q.sem(ctx, facts, b_)
        rets_ = [e for e in ends_ if e.kind == "return"]
        if len(rets_) != 1 or [e for e in ends_ if e.kind == "diverge"]:
            return b_, ev_, None
        r = rets_[0].ret
        if not (r[0] == "agg" and r[2] == A.RESID + "::ResourceId"):
            return b_, ev_, None
        return b_, ev_, dict(zip(r[4], r[3]))

    def is_of(ev_, x, ty):
        return Q.is_call(ev_, x, "of") and "TypeId" in Q.callee_of(ev_, x).path and ev_.targs(x) == [ty]

    b, ev, f_ = built(A.RESID + "::from_type_id_and_dynamic_id")
    ok = f_ is not None and f_ == {"type_id": ("param", 1), "dynamic_id": ("param", 2)}
    report.ob(rule, "ResourceId/from_type_id_and_dynamic_id", ok, "ResourceId { type_id, dynamic_id }", site=b.loc(), config=config)
    b, ev, f_ = built(A.RESID + "::new_with_dynamic_id")
    ok = f_ is not None and is_of(ev, f_.get("type_id"), "T") and f_.get("dynamic_id") == ("param", 1)
    report.ob(rule, "ResourceId/new_with_dynamic_id", ok, "ResourceId { type_id: TypeId::of::<T>(), dynamic_id }", site=b.loc(), config=config)
    b, ev, f_ = built(A.RESID + "::new")
    ok = f_ is not None and is_of(ev, f_.get("type_id"), "T") and f_.get("dynamic_id") == ("int", 0)
    report.ob(rule, "ResourceId/new", ok, "ResourceId { type_id: TypeId::of::<T>(), dynamic_id: 0 }", site=b.loc(), config=config)
    b, ev, f_ = built(A.RESID + "::from_type_id")
    ok = f_ is not None and f_.get("type_id") == ("param", 1) and f_.get("dynamic_id") == ("int", 0)
    report.ob(rule, "ResourceId/from_type_id", ok, "ResourceId { type_id, dynamic_id: 0 }", site=b.loc(), config=config)
    # equality and hashing are the compiler-derived ones over both fields
    for tr in ("std::cmp::PartialEq", "std::cmp::Eq", "std::hash::Hash"):
        ims = [im for im in facts.impls if im.get("trait") == tr and im.get("self_head") == A.RESID]
        ok = len(ims) == 1 and ims[0]["auto_derived"]
        report.ob(rule, "ResourceId/derived-%s" % tr.rsplit("::", 1)[1], ok, "#[derive] impl over (type_id, dynamic_id)" if ok else
                  "ResourceId has a hand-written %s: slots with different dynamic ids may no longer be independent" % tr, config=config)
    a = facts.adt(A.RESID)
    fl = [f["name"] for v in a["variants"] for f in v["fields"]]
    report.ob(rule, "ResourceId/fields", fl == ["type_id", "dynamic_id"], "fields %s" % fl, config=config)


def _boxed_as(ev, val, ty, inner_ok):
    """val is AtomicRefCell::new(Box::<ty>::new(x)) (unsizing casts allowed) with inner_ok(x)."""
    from . import semq as Q
    if not (Q.is_call(ev, val, "new") and CELL in Q.callee_of(ev, val).path):
        return False
    boxed = val[2][0]
    while isinstance(boxed, tuple) and boxed[0] == "cast":
        boxed = boxed[2]
    return bool(Q.is_call(ev, boxed, "new") and "Box" in Q.callee_of(ev, boxed).path and ev.targs(boxed)[:1] == [ty] and inner_ok(boxed[2][0]))


def _stores_ok(ctx, facts, b, what):
    """The audited insertion sites, stated over the structured evaluation of their function."""
    from . import semq as Q
    ast = A.RESID + "::assert_same_type_id"
    try:
        if what == "insert":
            # whichever function it is in: the value is Box::<X>::new(its argument) in a fresh cell and the key is either
            # ResourceId::new::<X>() or an id asserted for X earlier on the path
            rootb = b
            while rootb.is_closure and rootb.parent_key in facts.bodies:
                rootb = facts.bodies[rootb.parent_key]
            ev, ends = Q.sem(ctx, facts, rootb, opaque=[ast, A.RESID + "::new"])
            n = 0
            for e in ends:
                if e.kind != "return":
                    continue
                evs = _deep(e.path.events)
                ins = [x for x in evs if x[0] == "call" and x[2].name == "insert" and not x[2].local and _table_recv(ev, x[3][0])]
                if len(ins) != 1:
                    return False
                key, val = Q.strip(ev, ins[0][3][1]), ins[0][3][2]
                if not (Q.is_call(ev, val, "new") and CELL in Q.callee_of(ev, val).path):
                    return False
                boxed = val[2][0]
                while isinstance(boxed, tuple) and boxed[0] == "cast":
                    boxed = boxed[2]
                if not (Q.is_call(ev, boxed, "new") and "Box" in Q.callee_of(ev, boxed).path and ev.targs(boxed)):
                    return False
                x_ty = ev.targs(boxed)[0]
                if boxed[2][0][0] != "param":
                    return False
                if Q.is_call(ev, key, "new") and Q.callee_of(ev, key).self_head == A.RESID:
                    if ev.targs(key) != [x_ty]:
                        return False
                elif key[0] == "param":
                    pos = evs.index(ins[0])
                    asserted = [y for y in evs[:pos] if y[0] == "call" and y[2].name == "assert_same_type_id" and Q.strip(ev, y[3][0]) == key and ev.targs(y[4])[:1] == [x_ty]]
                    if not asserted:
                        return False
                else:
                    return False
                n += 1
            return n >= 1
        if what == "entry":
            ce = facts.one(A.C + "::world::entry::create_entry")
            ev, ends = Q.sem(ctx, facts, b, opaque=[ce.key, A.RESID + "::new"])
            n = 0
            for e in ends:
                if e.kind != "return":
                    continue
                ents = [x for x in e.path.events if x[0] == "call" and x[2].name == "entry" and not x[2].local and _table_recv(ev, x[3][0])]
                if len(ents) != 1:
                    return False
                k = Q.strip(ev, ents[0][3][1])
                if not (Q.is_call(ev, k, "new") and Q.callee_of(ev, k).self_head == A.RESID and ev.targs(k) == ["R"]):
                    return False
                r = e.ret
                if not (Q.is_call(ev, r, "create_entry") and ev.targs(r)[:1] == ["R"] and Q.strip(ev, r[2][0]) == ents[0][4]):
                    return False
                n += 1
            return n >= 1
        if what == "vacant":
            ev, ends = Q.sem(ctx, facts, b)
            n = 0
            for e in ends:
                if e.kind != "return":
                    continue
                vin = [x for x in _deep(e.path.events) if x[0] == "call" and x[2].name == "insert" and "VacantEntry" in x[2].path]
                tabins = [x for x in _deep(e.path.events) if x[0] == "call" and x[2].name in ("insert", "or_insert", "or_default", "insert_entry") and not x[2].local and "VacantEntry" not in x[2].path
                          and ("hash_map" in x[2].path or "HashMap" in x[2].path)]
                if tabins:
                    return False
                for x in vin:
                    src = Q.strip(ev, x[3][0])
                    if not (src == ("field", ("variant", ("field", ("param", 1), "inner", A.ENTRY), "Vacant"), "0", "std::collections::hash_map::Entry")):
                        return False
                    if not _boxed_as(ev, x[3][1], _last_targ(b.self_ty), lambda v: (Q.callee_of(ev, v) is not None and Q.callee_of(ev, v).name in ("call_once", "<indirect>") and ("param", 2) in (v[2][:1] or ()))
                                     or (v[0] == "param" and 1 < v[1] <= b.arg_count and b.locals[v[1]]["ty"] == _last_targ(b.self_ty))):
                        return False
                    n += 1
            return n >= 1
    except Exception:
        return False
    return False


CELL_VIEWS = frozenset(["map", "borrow", "borrow_mut", "try_borrow", "try_borrow_mut", "deref", "deref_mut", "as_ref", "as_mut", "unwrap", "expect",
                        "unwrap_or_else", "clone", "filter_map", "map_split", "unwrap_unchecked", "into_mut", "get", "get_mut"])


def _last_targ(ty):
    """`Path<'a, X>` -> 'X'."""
    if not ty or "<" not in ty:
        return None
    inner = ty[ty.index("<") + 1:ty.rindex(">")]
    depth = 0
    cur = ""
    parts = []
    for ch in inner:
        if ch == "<":
            depth += 1
        elif ch == ">":
            depth -= 1
        if ch == "," and depth == 0:
            parts.append(cur.strip())
            cur = ""
        else:
            cur += ch
    parts.append(cur.strip())
    return parts[-1] if parts else None


def _guard_source(ev, fn, e, g, x, ast_key):
    """Where the cell behind guard aggregate `g` (a Fetch<x> / FetchMut<x>) comes from on way `e` of function `fn`:
    ('ok', why) | ('param', i) | ('bad', why)."""
    from . import semq as Q
    vals = dict(zip(g[4], g[3]))
    t = vals.get("inner")
    if t is None:
        return ("bad", "the guard has no `inner` field")
    for _ in range(64):
        while isinstance(t, tuple) and t and t[0] == "cast":
            t = t[2]
        if not (isinstance(t, tuple) and t):
            return ("bad", "unknown cell")
        k = t[0]
        if k == "param":
            return ("param", t[1])
        if k == "field":
            if t[1][0] == "variant" or t[3] in (None, "tuple") or not str(t[3]).startswith("shred::"):
                t = t[1]
                continue
            if t[3] in (A.FETCH, A.FETCHMUT) and t[2] == "inner" and t[1] == ("param", 1) and fn.self_head == t[3]:
                return ("ok", "the cell of another %s<%s>" % (t[3].rsplit("::", 1)[1], x)) if _last_targ(fn.self_ty) == x else ("bad", "the guard's type differs from that of the guard it is copied from")
            if t[3] == A.ENTRY and t[2] == "inner" and t[1] == ("param", 1) and fn.self_head == A.ENTRY:
                return ("ok", "the slot of an Entry<%s>" % x) if _last_targ(fn.self_ty) == x else ("bad", "the guard's type differs from the entry's")
            return ("bad", "the cell is read from %s.%s" % (t[3].rsplit("::", 1)[1], t[2]))
        if k in ("variant", "proj"):
            t = t[1]
            continue
        if k == "index":
            t = t[1]
            continue
        if k == "call":
            c = ev.callee(t[1])
            if c is None:
                return ("bad", "unknown call")
            if c.name in ("get", "get_mut") and not c.local and len(t[2]) == 2 and _table_recv(ev, t[2][0]):
                key = Q.strip(ev, t[2][1])
                if Q.is_call(ev, key, "new") and Q.callee_of(ev, key).self_head == A.RESID:
                    return ("ok", "lookup keyed by ResourceId::new::<%s>()" % x) if ev.targs(key) == [x] else ("bad", "the lookup is keyed by ResourceId::new::<%s>()" % (ev.targs(key),))
                for y in _deep_all(e.path.events):
                    if y[0] == "call" and y[2].key == ast_key and Q.strip(ev, y[3][0]) == key and (ev.targs(y[4]) or [None])[:1] == [x]:
                        return ("ok", "lookup under an id asserted for %s (C09.ASSERT)" % x)
                return ("bad", "the lookup key is neither ResourceId::new::<%s>() nor asserted for %s" % (x, x))
            if c.local:
                return ("bad", "the cell comes out of %s" % c.name)
            if c.name in CELL_VIEWS and t[2]:
                t = t[2][0]
                continue
            if c.name == "insert" and t[2]:
                # VacantEntry::insert(slot, value) hands back the cell it stored
                t = t[2][0]
                continue
            return ("bad", "the cell comes out of %s" % c.name)
        return ("bad", "the cell is %s" % (t[:2],))
    return ("bad", "too deep")


def guard_built(ctx, report, rule, facts, config):
    """Every Fetch<X> / FetchMut<X> that is built wraps a cell that is visibly the slot of type X: found under
    ResourceId::new::<X>() or an id asserted for X, the slot of an Entry<X>, or the cell of another guard of X.
    A private helper that builds the guard from a cell it is given is decided in each of its callers."""
    from . import semq as Q
    from .terms import subterms
    guards = (A.FETCH, A.FETCHMUT)
    ast = facts.one(A.RESID + "::assert_same_type_id")

    def root(b):
        return facts.bodies.get(b.root_key, b) if b.is_closure and b.root_key else b

    builders = {}
    n_static = dict((g, 0) for g in guards)
    for b in sorted(facts.bodies.values(), key=lambda b: b.key):
        for blk in b.blocks:
            for st in blk["stmts"]:
                if st["k"] == "assign" and st["rv"]["k"] == "agg" and st["rv"].get("adt") in guards:
                    n_static[st["rv"]["adt"]] += 1
                    builders.setdefault(root(b).key, root(b))
    callers = facts.callers()
    decided = {}     # fn key -> (status, detail)
    n_ok = dict((g, 0) for g in guards)
    work = sorted(builders.values(), key=lambda b: b.key)
    seen = set()
    while work:
        fn = work.pop(0)
        if fn.key in seen:
            continue
        seen.add(fn.key)
        report.touched(fn, config)
        ev, ends = Q.sem(ctx, facts, fn, opaque=[ast.key, A.RESID + "::new"] + _downcasts(facts))
        found = []
        for e in ends:
            terms_ = [e.ret] if e.ret is not None else []
            for y in _deep_all(e.path.events):
                if y[0] == "call":
                    terms_.extend(y[3])
                elif y[0] == "store":
                    terms_.append(y[3])
                elif y[0] == "yield":
                    terms_.append(y[2])
            gs = []
            for t in terms_:
                for st in subterms(t):
                    if isinstance(st, tuple) and len(st) > 4 and st[0] == "agg" and st[1] == "adt" and st[2].rsplit("::", 1)[0] in guards and st not in gs:
                        gs.append(st)
            for g in gs:
                xs = ev.agg_targs.get(g, set())
                if len(xs) != 1 or len(list(xs)[0]) != 1:
                    found.append((g[2].rsplit("::", 1)[0], ("bad", "the guard's type cannot be read off its construction")))
                    continue
                found.append((g[2].rsplit("::", 1)[0], _guard_source(ev, fn, e, g, list(xs)[0][0], ast.key)))
        bad = sorted(set("%s: %s" % (a.rsplit("::", 1)[1], r[1]) for a, r in found if r[0] == "bad"))
        needs = sorted(set(r[1] for a, r in found if r[0] == "param"))
        oks = sorted(set(r[1] for a, r in found if r[0] == "ok"))
        if needs and not bad:
            cs = sorted(set(root(cb).key for cb, bb in callers.get(fn.key, [])))
            pub = bool(fn.api)
            if pub or not cs:
                bad.append("the guard is built around a cell handed in by the caller, and %s" % ("the function is public" if pub else "no caller is in sight"))
            else:
                for k in cs:
                    work.append(facts.bodies[k])
        for a in guards:
            if any(x == a and r[0] == "ok" for x, r in found) and not bad:
                n_ok[a] += 1
        if not found and fn.key in builders:
            bad.append("the construction is on no way through the function")
        report.ob(rule, "guard-built/%s" % fn.qname, not bad, "; ".join(bad) if bad else
                  ("; ".join(oks) if oks else "builds the guard around the cell it is given: decided in its callers"), site=fn.loc(), config=config)
    report.floor(rule, "Fetch constructions decided in context", n_ok[A.FETCH], 3, config=config)
    report.floor(rule, "FetchMut constructions decided in context", n_ok[A.FETCHMUT], 3, config=config)
    report.floor(rule, "guard construction sites", n_static[A.FETCH] + n_static[A.FETCHMUT], 2, config=config)


def entry_built(ctx, report, rule, facts, config):
    """Every Entry<X> that is built wraps resources.entry(ResourceId::new::<X>()): the slot a later or_insert fills with an X
    is the slot of X.  A helper that wraps what it is given (create_entry) is decided in its callers."""
    from . import semq as Q
    from .terms import subterms

    def root(b):
        return facts.bodies.get(b.root_key, b) if b.is_closure and b.root_key else b

    builders = {}
    for b in sorted(facts.bodies.values(), key=lambda b: b.key):
        for blk in b.blocks:
            for st in blk["stmts"]:
                if st["k"] == "assign" and st["rv"]["k"] == "agg" and st["rv"].get("adt") == A.ENTRY:
                    builders.setdefault(root(b).key, root(b))
    callers = facts.callers()
    work = sorted(builders.values(), key=lambda b: b.key)
    seen = set()
    n_ok = 0
    while work:
        fn = work.pop(0)
        if fn.key in seen:
            continue
        seen.add(fn.key)
        report.touched(fn, config)
        ev, ends = Q.sem(ctx, facts, fn, opaque=[A.RESID + "::new"])
        found = []
        for e in ends:
            terms_ = [e.ret] if e.ret is not None else []
            for y in _deep_all(e.path.events):
                if y[0] == "call":
                    terms_.extend(y[3])
                elif y[0] == "store":
                    terms_.append(y[3])
            gs = []
            for t in terms_:
                for st in subterms(t):
                    if isinstance(st, tuple) and len(st) > 4 and st[0] == "agg" and st[1] == "adt" and st[2].rsplit("::", 1)[0] == A.ENTRY and st not in gs:
                        gs.append(st)
            for g in gs:
                xs = ev.agg_targs.get(g, set())
                if len(xs) != 1 or len(list(xs)[0]) != 1:
                    found.append(("bad", "the entry's type cannot be read off its construction"))
                    continue
                x = list(xs)[0][0]
                inner = Q.strip(ev, dict(zip(g[4], g[3])).get("inner"))
                if isinstance(inner, tuple) and inner and inner[0] == "param":
                    found.append(("param", inner[1]))
                elif Q.is_call(ev, inner, "entry") and not Q.callee_of(ev, inner).local and len(inner[2]) == 2 and _table_recv(ev, inner[2][0]):
                    k = Q.strip(ev, inner[2][1])
                    if Q.is_call(ev, k, "new") and Q.callee_of(ev, k).self_head == A.RESID and ev.targs(k) == [x]:
                        found.append(("ok", "resources.entry(ResourceId::new::<%s>())" % x))
                    else:
                        found.append(("bad", "an Entry<%s> wraps the slot of another key" % x))
                else:
                    found.append(("bad", "an Entry<%s> wraps something else than an entry of the resource table" % x))
        bad = sorted(set(r[1] for r in found if r[0] == "bad"))
        needs = [r for r in found if r[0] == "param"]
        oks = sorted(set(r[1] for r in found if r[0] == "ok"))
        if needs and not bad:
            cs = sorted(set(root(cb).key for cb, bb in callers.get(fn.key, [])))
            if fn.api or not cs:
                bad.append("the entry wraps what the caller hands in, and %s" % ("the function is public" if fn.api else "no caller is in sight"))
            else:
                work.extend(facts.bodies[k] for k in cs)
        if not found:
            bad.append("the construction is on no way through the function")
        n_ok += 1 if (oks and not bad) else 0
        report.ob(rule, "entry-built/%s" % fn.qname, not bad, "; ".join(bad) if bad else ("; ".join(oks) if oks else "wraps the entry it is given: decided in its callers"),
                  site=fn.loc(), config=config)
    report.floor(rule, "Entry constructions decided in context", n_ok, 1, config=config)


def _downcast_source(ev, fn, t, x, gmr_key, e=None, ast_key=None):
    """Where the value handed to an unchecked downcast to `x` comes from: ('ok', why) | ('param', i) | ('bad', why)."""
    from . import semq as Q
    for _ in range(64):
        while isinstance(t, tuple) and t and t[0] == "cast":
            t = t[2]
        if not (isinstance(t, tuple) and t):
            return ("bad", "unknown value")
        k = t[0]
        if k == "param":
            return ("param", t[1])
        if k in ("variant", "proj", "index"):
            t = t[1]
            continue
        if k == "field":
            if t[3] in (A.FETCH, A.FETCHMUT) and t[2] == "inner" and t[1] == ("param", 1) and fn.self_head == t[3]:
                return ("ok", "the guard's own cell content, a guard of %s" % x) if _last_targ(fn.self_ty) == x else ("bad", "the downcast type is not the guard's")
            if str(t[3] or "").startswith("shred::"):
                return ("bad", "the value is read from %s.%s" % (t[3].rsplit("::", 1)[1], t[2]))
            t = t[1]
            continue
        if k == "call":
            c = ev.callee(t[1])
            if c is None:
                return ("bad", "unknown call")
            if c.key == gmr_key or (c.name in ("get_mut", "get") and not c.local and len(t[2]) == 2 and _table_recv(ev, t[2][0])):
                key = Q.strip(ev, t[2][1])
                if Q.is_call(ev, key, "new") and Q.callee_of(ev, key).self_head == A.RESID and ev.targs(key) == [x]:
                    return ("ok", "what the table holds under ResourceId::new::<%s>()" % x)
                if e is not None and ast_key is not None:
                    k0 = Q.strip(ev, key, extra=("clone",))
                    for y in _deep_all(e.path.events):
                        if y[0] == "call" and y[2].key == ast_key and Q.strip(ev, y[3][0], extra=("clone",)) == k0 and (ev.targs(y[4]) or [None])[:1] == [x]:
                            return ("ok", "what the table holds under an id asserted for %s (C09.ASSERT)" % x)
                return ("bad", "the looked-up slot is not the one of %s" % x)
            if c.local:
                return ("bad", "the value comes out of %s" % c.name)
            if c.name in CELL_VIEWS and t[2]:
                t = t[2][0]
                continue
            return ("bad", "the value comes out of %s" % c.name)
        return ("bad", "the value is %s" % (t[:2],))
    return ("bad", "too deep")


def downcast_sites(ctx, report, rule, facts, config):
    """Every unchecked downcast to X outside the checked helpers is applied to something that is visibly an X: the content
    of a guard of X, or what the table holds under ResourceId::new::<X>().  A private helper that downcasts what it is
    given is decided in each of its callers."""
    from . import semq as Q
    names = ("downcast_unchecked", "downcast_ref_unchecked", "downcast_mut_unchecked")
    gmr = facts.one(A.WORLD + "::get_mut_raw")

    def root(b):
        return facts.bodies.get(b.root_key, b) if b.is_closure and b.root_key else b

    users = {}
    seen = 0
    for b in sorted(facts.bodies.values(), key=lambda b: b.key):
        prog = ctx.program(facts)
        for bb, t in b.normal_calls():
            c = Callee(t["func"])
            if c.name in names and c.local:
                if "res_downcast" in b.key:
                    # the checked variants: call must be dominated by a true `is::<T>()` test
                    bt = prog.bt(b)
                    iss = [x for x, t2 in b.normal_calls() if Callee(t2["func"]).name == "is" and _type_args(Callee(t2["func"])) == _type_args(c)]
                    ok = bool(iss) and bt.cfg.dominates(iss[0], bb)
                    report.ob(rule, "downcast-checked/%s" % b.qname, ok, "unchecked downcast behind self.is::<T>()" if ok else "unchecked downcast without the `is` test", site=b.loc(bb), config=config)
                    continue
                seen += 1
                users.setdefault(root(b).key, root(b))
    report.floor(rule, "unchecked downcast sites outside res_downcast", seen, 4, config=config)
    callers = facts.callers()
    work = sorted(users.values(), key=lambda b: b.key)
    done = set()
    n_ok = 0
    while work:
        fn = work.pop(0)
        if fn.key in done:
            continue
        done.add(fn.key)
        report.touched(fn, config)
        astb = facts.one(A.RESID + "::assert_same_type_id")
        ev, ends = Q.sem(ctx, facts, fn, opaque=[gmr.key, astb.key, A.RESID + "::new"] + _downcasts(facts))
        found = []
        for e in ends:
            for y in _deep_all(e.path.events):
                if y[0] == "call" and y[2].local and y[2].name in names and y[3]:
                    xs = ev.targs(y[4]) or []
                    if len(xs) != 1:
                        found.append(("bad", "the downcast type cannot be read off the call"))
                    else:
                        found.append(_downcast_source(ev, fn, y[3][0], xs[0], gmr.key, e, astb.key))
        bad = sorted(set(r[1] for r in found if r[0] == "bad"))
        needs = [r for r in found if r[0] == "param"]
        oks = sorted(set(r[1] for r in found if r[0] == "ok"))
        if needs and not bad:
            cs = sorted(set(root(cb).key for cb, bb in callers.get(fn.key, [])))
            if fn.api or not cs:
                bad.append("what is downcast is handed in by the caller, and %s" % ("the function is public" if fn.api else "no caller is in sight"))
            else:
                work.extend(facts.bodies[k] for k in cs)
        if not found:
            bad.append("the downcast is on no way through the function")
        n_ok += 1 if (oks and not bad) else 0
        report.ob(rule, "downcast/%s" % fn.qname, not bad, "; ".join(bad) if bad else ("; ".join(oks) if oks else "downcasts what it is given: decided in its callers"),
                  site=fn.loc(), config=config)
    report.floor(rule, "unchecked downcasts decided in context", n_ok, 4, config=config)


def guard_rules(ctx, report, rule, facts, config):
    """C09.GUARD / DOWNCAST / ONCE."""
    prog = ctx.program(facts)
    guard_built(ctx, report, rule, facts, config)
    # unchecked downcasts
    downcast_sites(ctx, report, rule, facts, config)
    from . import semq as Q
    gm = facts.one(A.WORLD + "::get_mut")
    gmr = facts.one(A.WORLD + "::get_mut_raw")
    ev, ends = Q.sem(ctx, facts, gm, opaque=[gmr.key, A.RESID + "::new"] + _downcasts(facts))
    ok = False
    bad = False
    for e in ends:
        if e.kind != "return":
            continue
        raws = [x for x in e.path.events if x[0] == "call" and x[2].key == gmr.key]
        dcs = [x for x in _deep(e.path.events) if x[0] == "call" and x[2].name == "downcast_mut_unchecked"]
        if len(raws) != 1:
            bad = True
            continue
        found = e.path.variant(raws[0][4])
        r = e.ret
        if r[0] == "agg" and r[2] == "std::option::Option::Some":
            want = ("field", ("variant", raws[0][4], "Some"), "0", "std::option::Option")
            if not (found == "Some" and len(dcs) == 1 and Q.strip(ev, dcs[0][3][0]) == want and Q.strip(ev, r[3][0]) == dcs[0][4]):
                bad = True
            else:
                ok = True
        elif r[0] == "agg" and r[2] == "std::option::Option::None":
            if found != "None" or dcs:
                bad = True
        else:
            bad = True
    report.ob(rule, "downcast/get_mut-source", ok and not bad, "the unchecked downcast in get_mut is applied to what get_mut_raw(ResourceId::new::<T>()) found, and only then", site=gm.loc(), config=config)
    # Box::from_raw fed by Box::into_raw
    n_from = 0
    done_roots = set()
    for b in sorted(facts.bodies.values(), key=lambda b: b.key):
        if not any(Callee(t["func"]).name == "from_raw" and "Box" in Callee(t["func"]).path for bb, t in b.normal_calls()):
            continue
        rb_ = facts.bodies.get(b.root_key, b) if b.is_closure and b.root_key else b
        if rb_.key in done_roots:
            continue
        done_roots.add(rb_.key)
        ev, ends = Q.sem(ctx, facts, rb_, opaque=_downcasts(facts) if rb_.name not in ("downcast", "downcast_unchecked") else [])
        ok = True
        k = 0
        for e in ends:
            for y in _deep_all(e.path.events):
                if y[0] == "call" and y[2].name == "from_raw" and "Box" in (y[2].path or "") and y[3]:
                    k += 1
                    a = y[3][0]
                    while isinstance(a, tuple) and a and a[0] == "cast":
                        a = a[2]
                    if not (Q.is_call(ev, a, "into_raw") and "Box" in (Q.callee_of(ev, a).path or "") and len(a[2]) == 1 and Q.strip(ev, a[2][0])[0] == "param"):
                        ok = False
        n_from += 1 if k else 0
        report.ob(rule, "once/%s" % rb_.qname, ok and k >= 1, "Box::from_raw(Box::into_raw(self) as *mut T): ownership moves once" if ok and k else "Box::from_raw on a pointer that is not a fresh Box::into_raw of the function's own argument", site=rb_.loc(), config=config)
    report.floor(rule, "Box::from_raw sites", n_from, 1, config=config)
    # remove_by_id returns the removed value through the checked downcast
    rb = facts.one(A.WORLD + "::remove_by_id")
    ast = facts.one(A.RESID + "::assert_same_type_id")
    ev, ends = Q.sem(ctx, facts, rb, opaque=[ast.key, A.RESID + "::new"] + _downcasts(facts))
    pr = []
    n_some = n_none = 0
    for e in ends:
        if e.kind != "return":
            continue
        deep = [x for x in _deep(e.path.events) if x[0] == "call"]
        names = [x[2].name for x in deep]
        if names[:1] != ["assert_same_type_id"]:
            pr.append("the id is not asserted first")
        rms = [x for x in deep if x[2].name == "remove" and not x[2].local and _table_recv(ev, x[3][0])]
        if len(rms) != 1 or Q.strip(ev, rms[0][3][1]) != ("param", 2):
            pr.append("not exactly one remove(&id) on the table")
            continue
        found = e.path.variant(rms[0][4])
        r = e.ret
        if r[0] == "agg" and r[2] == "std::option::Option::Some":
            n_some += 1
            dc = [x for x in deep if x[2].name in ("downcast",) and x[2].local]
            if found != "Some" or len(dc) != 1 or "into_inner" not in names:
                pr.append("the removed value is not returned through the checked downcast")
        elif r[0] == "agg" and r[2] == "std::option::Option::None":
            n_none += 1
            if found != "None":
                pr.append("None is returned although something was removed")
        else:
            pr.append("the result is not decided by the removal")
    ok = not pr and n_some >= 1 and n_none >= 1
    report.ob(rule, "remove_by_id/chain", ok, "assert, remove(&id), into_inner, checked downcast::<R>()" if ok else "remove_by_id: %s" % "; ".join(sorted(set(pr)) or ["missing outcome"]), site=rb.loc(), config=config)


def prim(ctx, report, rule, facts, config):
    """C06.PRIM: the fetch primitives borrow shared / exclusive only."""
    for name, allowed, kind in (("fetch", SHARED_BORROWS, "SHARED"), ("try_fetch", SHARED_BORROWS, "SHARED"), ("try_fetch_by_id", SHARED_BORROWS, "SHARED"),
                                ("fetch_mut", EXCL_BORROWS, "EXCLUSIVE"), ("try_fetch_mut", EXCL_BORROWS, "EXCLUSIVE"), ("try_fetch_mut_by_id", EXCL_BORROWS, "EXCLUSIVE")):
        b = facts.one(A.WORLD + "::" + name)
        cone = facts.cone([b], stop=lambda x: x.self_head == A.RESID)
        used = set()
        for cb in cone.values():
            for bb, t in cb.normal_calls():
                c = Callee(t["func"])
                if c.path.startswith(CELL + "::") and c.name in SHARED_BORROWS | EXCL_BORROWS:
                    used.add(c.name)
        report.ob(rule, "prim/%s" % name, bool(used) and used <= allowed, "World::%s is %s: reaches %s only" % (name, kind, sorted(used)) if used and used <= allowed else
                  "World::%s must be %s but reaches %s" % (name, kind, sorted(used)), site=b.loc(), config=config)
