"""Rules about the placement algorithm of StagesBuilder (insert, insertion_target, find_conflict,
remove_ids, add_barrier).  Shared by C01, C02, C03, C04, C05, C10, C16, C18.

The rules are stated over the structured evaluation of sem.py, not over the way the source happens to be
written: a loop is a loop whether it is a `for`, a `while` or a `filter(..).fold(..)`; a helper function,
a closure and inline code tabulate the same; `a < K` and `!(a >= K)` are the same condition."""
import re

from . import anchors as A
from . import semq as Q
from .facts import AnchorError
from .sem import OPTION

PEQ = ("std::cmp::PartialEq", "core::cmp::PartialEq")
SEARCH = ("model:any", "model:find", "model:position", "model:find_map", "model:all")

OPAQUE_FC = [A.F_CHECK_INTERSECTION, A.CONFLICT + "::add"]
OPAQUE_IT = [A.SB + "::find_conflict", A.SB + "::remove_ids", A.SB + "::improves_balance"]
OPAQUE_INS = [A.SB + "::insertion_target", A.SB + "::add_stage", A.SB + "::add_group"]


def _callee(body, t):
    """(terms.py terms) callee of a call term."""
    from . import shared as S
    return S.callee_at(body, t[1]) if isinstance(t, tuple) and t and t[0] == "call" else None


def _is_call(body, t, name, head=None, trait=None):
    c = _callee(body, t)
    return bool(c and c.name == name and (head is None or c.self_head == head) and (trait is None or c.trait == trait))


def _ret_ends(ends):
    return [e for e in ends if e.kind == "return"]


def _one_loop(ev, ends, pred, what):
    """The loop (same place in the code on every path) whose iterations satisfy `pred`."""
    ls = [L for L in Q.all_loops(ends) if pred(L)]
    ids = set(L.id for L in ls)
    if len(ids) != 1:
        raise AnchorError("expected exactly one loop that %s, found %d" % (what, len(ids)))
    return ls


class Model(object):
    """The three evaluations the placement rules share, with the roles of their parameters derived from
    the code: which arguments are the declared reads / writes of the system being inserted, which the
    pending dependency list, which tables accumulate what."""

    def __init__(self, ctx, facts):
        self.facts = facts
        self.ins = facts.one(A.SB + "::insert")
        self.it = facts.one(A.SB + "::insertion_target")
        self.fc = facts.one(A.SB + "::find_conflict")
        self.ins_ev, self.ins_ends = Q.sem(ctx, facts, A.SB + "::insert", opaque=OPAQUE_INS)
        self.it_ev, self.it_ends = Q.sem(ctx, facts, A.SB + "::insertion_target", opaque=OPAQUE_IT)
        self.fc_ev, self.fc_ends = Q.sem(ctx, facts, A.SB + "::find_conflict", opaque=OPAQUE_FC)
        self._insert_roles()
        self._scan()
        self._group()

    # ---- insert: roles of insertion_target's parameters, accumulating tables
    def _insert_roles(self):
        ev = self.ins_ev
        rets = _ret_ends(self.ins_ends)
        if not rets:
            raise AnchorError("insert has no normal path")
        roles = set()
        for e in rets:
            cs = Q.calls_in(e.path.events, lambda c: c.key == self.it.key or getattr(c, "resolved_key", None) == self.it.key)
            if len(cs) != 1:
                raise AnchorError("insert is expected to ask insertion_target exactly once per path, found %d" % len(cs))
            roles.add(tuple(self._ins_role(a) for a in cs[0][3]))
        if len(roles) != 1:
            raise AnchorError("insert calls insertion_target with arguments of different roles on different paths: %s" % sorted(roles))
        self.it_role = dict((j + 1, r) for j, r in enumerate(list(roles)[0]))
        acc = {}
        for e in rets:
            for ce in Q.calls_in(Q.fold_extend_loops(ev, e.path.events), lambda c: not c.local and c.name in ("extend", "push", "extend_from_slice", "append")):
                a = ce[3]
                if len(a) < 2:
                    continue
                fields, idx, base = Q.table_access(ev, a[0])
                cf = Q.crate_fields(fields)
                if not cf or cf[0][0] != A.SB or base != ("param", 1):
                    continue
                r = self._ins_role(a[1])
                if r == "NEW-R":
                    acc.setdefault("R", set()).add(cf[0][1])
                elif r == "NEW-W":
                    acc.setdefault("W", set()).add(cf[0][1])
                elif Q.strip(ev, a[1]) == ("param", 3):
                    acc.setdefault("ID", set()).add(cf[0][1])
        if set(acc) != set(["R", "W", "ID"]) or any(len(v) != 1 for v in acc.values()):
            raise AnchorError("cannot derive the accumulating tables from insert (found %s)" % dict((k, sorted(v)) for k, v in acc.items()))
        self.acc = dict((k, list(v)[0]) for k, v in acc.items())

    def _ins_role(self, t):
        ev = self.ins_ev
        t = Q.strip(ev, t)
        c = Q.callee_of(ev, t)
        if c is not None and c.trait == A.T_ACCESSOR and c.name == "reads":
            return "NEW-R"
        if c is not None and c.trait == A.T_ACCESSOR and c.name == "writes":
            return "NEW-W"
        if t == ("param", 1):
            return "SELF"
        if t == ("param", 2):
            return "DEP"
        return "OTHER"

    # ---- insertion_target: the scan over candidate stages
    def _scan(self):
        ev = self.it_ev
        is_fc = lambda c: c.key == self.fc.key or getattr(c, "resolved_key", None) == self.fc.key
        self.scans = _one_loop(ev, self.it_ends, lambda L: Q.loop_contains_call(L, is_fc, deep=False), "judges candidate stages with find_conflict")
        S = self.scans[0]
        self.scan = S
        calls = set()
        for it in S.iters:
            for ce in Q.calls_in(it.path.events, is_fc):
                calls.add(ce[4])
        if len(calls) != 1:
            raise AnchorError("the candidate scan calls find_conflict in %d different ways" % len(calls))
        self.fc_call = list(calls)[0]
        self.fc_role = {}
        for i, a in enumerate(self.fc_call[2]):
            self.fc_role[i + 1] = self._it_role(a, S)

    def _it_role(self, t, S):
        ev = self.it_ev
        s = Q.strip(ev, t)
        if s == S.elem:
            return "STAGE"
        fields, idx, base = Q.table_access(ev, t)
        cf = Q.crate_fields(fields)
        if base[0] == "param":
            r = self.it_role.get(base[1], "OTHER")
            if r == "SELF":
                if len(cf) == 1 and cf[0][0] == A.SB and not idx:
                    for k, f in self.acc.items():
                        if f == cf[0][1]:
                            return "ACC-" + k
                    return "FIELD:" + cf[0][1]
                return "SELF" if not cf and not idx else "OTHER"
            if not cf and not idx:
                return r
        return "OTHER"

    # ---- find_conflict: the loop over the groups of a stage
    def _group(self):
        ev = self.fc_ev
        is_ci = lambda c: c.key == A.F_CHECK_INTERSECTION
        self.groups = _one_loop(ev, self.fc_ends, lambda L: Q.loop_contains_call(L, is_ci, deep=False), "tests the groups of a stage with check_intersection")
        G = self.groups[0]
        self.group = G
        add_key = self.facts.one(A.CONFLICT + "::add").key
        self.acc_keys = set()
        self.flag_keys = set()
        for it in G.iters:
            for k, v in it.updates.items():
                if v == ("lvar", G.id, k):
                    continue
                if Q.is_call(ev, v, "add") and Q.callee_of(ev, v).key == add_key:
                    self.acc_keys.add(k)
                elif v in (("int", 1), ("int", 0)):
                    self.flag_keys.add(k)
                else:
                    self.acc_keys.add(k)

    @property
    def gvar(self):
        """The term that stands for the index of the group being tested: the element of `0..n`, or the position in a
        traversal of one of the per-stage tables."""
        G = self.group
        return G.elem if Q.range_of(G) is not None else ("index_of", G.id)

    def fc_operand(self, t):
        """[(role, index terms)] for the collections a check_intersection operand ranges over."""
        ev = self.fc_ev
        G = self.group
        out = []
        for lf in Q.leaves(ev, t, order_free=True):
            fields, idx, base = Q.table_access(ev, lf)
            if base == G.elem and Q.range_of(G) is None and G.source is not None and not fields:
                # the element of a traversal of table[stage] is table[stage][its position]
                f2, i2, b2 = Q.table_access(ev, G.source)
                if not Q.crate_fields(f2):
                    idx = i2 + [("index_of", G.id)] + idx
                    base = b2
            if base[0] == "param":
                out.append((self.fc_role.get(base[1], "OTHER"), idx))
            else:
                out.append(("?%s" % (base[:1],), idx))
        return out


def model(ctx, facts):
    cache = ctx.__dict__.setdefault("_placement", {})
    if id(facts) not in cache:
        cache[id(facts)] = Model(ctx, facts)
    return cache[id(facts)]


# ------------------------------------------------------------------ MATRIX / DEPHIT / EXACT

def matrix(ctx, report, rule, facts, config, want=("matrix", "exact", "dephit", "index")):
    """What one group contributes to the verdict of find_conflict."""
    m = model(ctx, facts)
    ev = m.fc_ev
    G = m.group
    report.touched(m.fc, config)
    site = Q.site_of(ev, G) or m.fc.loc()
    is_ci = lambda t: Q.is_call(ev, t, "check_intersection") and Q.callee_of(ev, t).key == A.F_CHECK_INTERSECTION
    atomic = set()
    dep_pairs = set()
    info = {}
    slot_problems = []
    stage_par = [i for i, r in m.fc_role.items() if r == "STAGE"]
    for it in G.iters:
        for (ct, cv, cn, cs) in it.conds:
            if ct in info or not is_ci(ct):
                continue
            x = m.fc_operand(ct[2][0])
            y = m.fc_operand(ct[2][1])
            info[ct] = (x, y)
            for (ra, ia) in x:
                for (rb, ib) in y:
                    pair = (ra, rb)
                    if ra.startswith("ACC") and not rb.startswith("ACC"):
                        pair = (rb, ra)
                    if "DEP" in pair or "ACC-ID" in pair:
                        dep_pairs.add(pair)
                    else:
                        atomic.add(pair)
            for (r, idx) in x + y:
                if r.startswith("ACC"):
                    if not (len(idx) == 2 and len(stage_par) == 1 and Q.strip(ev, idx[0]) == ("param", stage_par[0]) and Q.strip(ev, idx[1]) == m.gvar):
                        slot_problems.append("an operand from the %s table is indexed by %s (expected [stage][group] of the group being tested)" % (r, [Q.strip(ev, i)[:2] for i in idx]))
    expected = set([("NEW-W", "ACC-W"), ("NEW-W", "ACC-R"), ("NEW-R", "ACC-W")])
    if "matrix" in want:
        missing = expected - atomic
        report.ob(rule, "find_conflict/predicate/complete", not missing,
                  "resource intersections tested: %s" % sorted(atomic) if not missing else
                  "no group is ever tested for %s: a conflicting system can be placed beside the group" % sorted(missing), site=site, config=config)
    if "exact" in want:
        extra = atomic - expected
        report.ob(rule, "find_conflict/predicate/exact", not extra,
                  "no intersection beyond W/W, W/R, R/W is tested" if not extra else
                  "a group also counts as conflicting on %s (needless serialisation)" % sorted(extra), site=site, config=config)
    if "dephit" in want:
        report.ob(rule, "find_conflict/predicate/dep-pair", dep_pairs == set([("DEP", "ACC-ID")]),
                  "dependency intersection tested: %s (expected pending dependencies x ids of the group)" % sorted(dep_pairs), site=site, config=config)
    is_res = lambda ct: not any("DEP" in (r,) or r == "ACC-ID" for r, _ in info[ct][0] + info[ct][1])
    res_conds = [ct for ct in info if is_res(ct)]
    dep_conds = [ct for ct in info if not is_res(ct)]
    bad = []
    n_ways = 0
    for it in G.iters:
        if it.end == "done":
            continue
        if it.end != "continue":
            if it.end in ("break", "return"):
                bad.append("the scan over the groups can stop early (%s)" % it.end)
            continue
        n_ways += 1
        vals = dict((ct, cv) for (ct, cv, cn, cs) in it.conds)
        any_res = any(vals.get(c) == 1 for c in res_conds)
        any_dep = any(vals.get(c) == 1 for c in dep_conds)
        unknown = [ct for (ct, cv, cn, cs) in it.conds if ct not in info and ct[0] in ("call", "bin", "un")]
        counted = [k for k in m.acc_keys if it.updates.get(k) != ("lvar", G.id, k)]
        well = all(Q.is_call(ev, it.updates[k], "add") and tuple(Q.strip(ev, a) for a in it.updates[k][2]) == (("lvar", G.id, k), m.gvar) for k in counted)
        flagged = [k for k in m.flag_keys if it.updates.get(k) == ("int", 1)
                   or (it.updates.get(k) == ("lvar", G.id, k) and it.path.value(("lvar", G.id, k)) == 1)]   # already set, left set
        cleared = [k for k in m.flag_keys if it.updates.get(k) == ("int", 0)]
        if counted and not well and ("matrix" in want or "dephit" in want):
            bad.append("a conflicting group is not recorded as Conflict::add(so far, this group)")
        if "matrix" in want and any_res and not counted:
            bad.append("a group whose resources intersect is not counted as conflicting")
        if "dephit" in want:
            if any_dep and not counted:
                bad.append("a group holding a pending dependency is not counted as conflicting")
            if any_dep and not any_res and not flagged:
                bad.append("a dependency hit does not set the dependency flag")
            if [k for k in flagged if it.updates.get(k) == ("int", 1)] and not any_dep:
                bad.append("the dependency flag is set on a path without a dependency hit")
            if cleared:
                bad.append("the dependency flag is cleared inside the scan")
        if "exact" in want and not any_res and not any_dep and not unknown and counted:
            bad.append("a group that intersects nothing is counted as conflicting")
    if ("matrix" in want or "dephit" in want) and len(m.acc_keys) != 1:
        bad.append("expected one running verdict in the scan over the groups, found %d" % len(m.acc_keys))
    if "dephit" in want and len(m.flag_keys) != 1:
        bad.append("expected one dependency flag in the scan over the groups, found %d" % len(m.flag_keys))
    report.ob(rule, "find_conflict/predicate/decision", not bad and (n_ways >= 4 or not ("matrix" in want or "dephit" in want)),
              "; ".join(sorted(set(bad))) if bad else "a group is counted exactly when one of the tested intersections is non-empty (%d ways through one iteration)" % n_ways,
              site=site, config=config)
    if "index" in want:
        report.ob(rule, "find_conflict/predicate/same-slot", not slot_problems, "; ".join(sorted(set(slot_problems))) if slot_problems else
                  "every accumulated operand is table[stage][group] for the group being tested", site=site, config=config)
        roles = [m.fc_role.get(i) for i in sorted(m.fc_role)]
        need = ["ACC-ID", "ACC-R", "ACC-W", "STAGE", "NEW-R", "NEW-W", "DEP"]
        ok = sorted(roles) == sorted(need)
        report.ob(rule, "insertion_target/find_conflict-args", ok,
                  "find_conflict receives the builder's id / read / write tables, the stage being judged, the declared reads and writes and the pending dependencies" if ok else
                  "find_conflict is called with arguments of roles %s (expected one each of %s)" % (roles, need), site=m.it_ev.loc(m.fc_call[1]), config=config)
        roles_it = [m.it_role.get(i) for i in sorted(m.it_role)]
        ok = all(r in roles_it for r in ("SELF", "NEW-R", "NEW-W", "DEP")) and roles_it.count("NEW-R") == 1 and roles_it.count("NEW-W") == 1
        report.ob(rule, "insert/insertion_target-args", ok,
                  "insertion_target receives Accessor::reads(), Accessor::writes() of the system and its dependency list" if ok else
                  "insertion_target is called with arguments of roles %s" % roles_it, site=m.ins.loc(), config=config)


# ------------------------------------------------------------------ ALLGROUPS

def conflict_add_table(ctx, report, rule, facts, config):
    add = facts.one(A.CONFLICT + "::add")
    report.touched(add, config)
    ev, ends = Q.sem(ctx, facts, A.CONFLICT + "::add")
    problems = []
    seen = set()
    for e in ends:
        if e.kind != "return":
            if e.kind == "diverge":
                problems.append("Conflict::add can panic")
            continue
        v = e.path.variant(("param", 1))
        names = set(v.split("|")) if v else set(["None", "Single", "Multiple"])
        seen |= names
        r = e.ret
        if names == set(["None"]):
            if not (r[0] == "agg" and r[2] == A.CONFLICT + "::Single" and Q.strip(ev, r[3][0]) == ("param", 2)):
                problems.append("None is not mapped to Single(group)")
        elif "None" in names:
            problems.append("None shares a path with %s" % sorted(names - set(["None"])))
        else:
            if not (r[0] == "agg" and r[2] == A.CONFLICT + "::Multiple"):
                problems.append("%s is not mapped to Multiple" % "/".join(sorted(names)))
    if seen != set(["None", "Single", "Multiple"]):
        problems.append("not every variant is handled (%s)" % sorted(seen))
    report.ob(rule, "Conflict::add/table", not problems, "None->Single(group), Single->Multiple, Multiple->Multiple" if not problems else
              "; ".join(sorted(set(problems))), site=add.loc(), config=config)


def allgroups(ctx, report, rule, facts, config):
    m = model(ctx, facts)
    ev = m.fc_ev
    G = m.group
    report.touched(m.fc, config)
    site = Q.site_of(ev, G) or m.fc.loc()
    problems = []
    rng = Q.range_of(G)
    if rng is None:
        # `for (group, ids) in ids[stage].iter().enumerate()`: every group of the stage, front to back, through one of the
        # per-stage tables (which grow in lockstep: C04.LOCKSTEP)
        from .semcov import _term_class
        from .shapes import iter_type_class
        okt = False
        if G.kind == "for" and G.source is not None:
            fields, idx, base = Q.table_access(ev, G.source)
            cls = iter_type_class(G.iter_ty) if G.iter_ty else _term_class(ev, G.source)
            okt = (not Q.crate_fields(fields) and base[0] == "param" and str(m.fc_role.get(base[1], "")).startswith("ACC-") and len(idx) == 1
                   and Q.strip(ev, idx[0])[0] == "param" and m.fc_role.get(Q.strip(ev, idx[0])[1]) == "STAGE" and cls == "full")
        if not okt:
            problems.append("the groups are scanned neither as 0..ids[stage].len() nor by a full forward traversal of a per-stage table (%s)" % (G.source[:3] if G.source else None,))
    else:
        lo, hi = rng
        okr = lo == ("int", 0)
        if okr and Q.is_call(ev, hi, "len"):
            fields, idx, base = Q.table_access(ev, hi[2][0])
            okr = base[0] == "param" and m.fc_role.get(base[1]) == "ACC-ID" and len(idx) == 1 and Q.strip(ev, idx[0])[0] == "param" and m.fc_role.get(Q.strip(ev, idx[0])[1]) == "STAGE"
        else:
            okr = False
        if not okr:
            problems.append("the scan does not run over 0..ids[stage].len()")
    if G.stages and [n for n, _ in G.stages if n not in ("filter",)]:
        problems.append("the group indices pass through %s before being tested" % [n for n, _ in G.stages])
    if not Q.is_full(G):
        problems.append("the scan over the groups can stop before the last group")
    for k in m.acc_keys:
        init = G.carried.get(k)
        if not (init and init[0] == "agg" and init[2] == A.CONFLICT + "::None"):
            problems.append("the running verdict does not start as Conflict::None")
    report.ob(rule, "find_conflict/all-groups", not problems, "; ".join(sorted(set(problems))) if problems else
              "every group 0..ids[stage].len() is tested, starting from Conflict::None and adding each conflicting group", site=site, config=config)
    conflict_add_table(ctx, report, rule, facts, config)


# ------------------------------------------------------------------ DEPGATE

def depgate(ctx, report, rule, facts, config):
    """Multiple iff (a dependency was hit and more than one is pending) or (none hit and some pending); else the scan's verdict."""
    m = model(ctx, facts)
    ev = m.fc_ev
    G = m.group
    report.touched(m.fc, config)
    problems = []
    dep_par = [i for i, r in m.fc_role.items() if r == "DEP"]
    flag_terms = [("lexit", G.id, k) for k in m.flag_keys]
    acc_terms = [("lexit", G.id, k) for k in m.acc_keys]
    rows = []

    def is_dep(t):
        return len(dep_par) == 1 and Q.strip(ev, t) == ("param", dep_par[0])

    for e in m.fc_ends:
        if e.kind != "return":
            if e.kind == "diverge" and not any(ev_[0] == "loop" for ev_ in e.path.events):
                continue  # bounds / overflow panics before the scan are outside this rule
            if e.kind == "diverge":
                problems.append("find_conflict can panic after the scan")
            continue
        flag = None
        cons = []  # predicates on n = number of pending dependencies
        for (ct, cv, cn, cs) in e.path.conds:
            if ct in flag_terms:
                flag = cv
            elif Q.is_call(ev, ct, "is_empty") and is_dep(ct[2][0]):
                cons.append(("Eq", 0) if cv == 1 else ("Ne", 0))
            else:
                nc = Q.norm_cmp(ct, cv)
                if nc is not None and Q.strip(ev, nc[1]) in flag_terms:
                    nc = (Q.FLIP[nc[0]], nc[2], nc[1])
                if nc is not None and nc[2][0] == "int" and ((Q.is_call(ev, nc[1], "len") and is_dep(nc[1][2][0])) or (nc[1][0] == "len" and is_dep(nc[1][1]))):
                    cons.append((nc[0], nc[2][1]))
                    if nc[2][1] > 3:
                        problems.append("the pending list is compared with %d" % nc[2][1])
                elif nc is not None and Q.strip(ev, nc[2]) in flag_terms and ((Q.is_call(ev, nc[1], "len") and is_dep(nc[1][2][0])) or (nc[1][0] == "len" and is_dep(nc[1][1]))):
                    # `pending.len() > usize::from(hit)`: the flag itself is the bound
                    cons.append((nc[0], "F"))
                elif ct[0] == "discr" or ct in acc_terms:
                    continue
                else:
                    problems.append("unrecognised condition after the scan (%s)" % (ct[:2],))
        if e.ret[0] == "agg" and e.ret[2] == A.CONFLICT + "::Multiple":
            res = "Multiple"
        elif e.ret in acc_terms:
            res = "scan"
        else:
            res = "?"
            problems.append("find_conflict returns something else than Multiple or the scan's verdict")
        rows.append((flag, cons, res))
    for f in (0, 1):
        for n in (0, 1, 2, 3):
            expect = "Multiple" if ((f == 1 and n >= 2) or (f == 0 and n >= 1)) else "scan"
            hit = [r for r in rows if (r[0] is None or r[0] == f) and all(Q.holds_for(op, n, f if k == "F" else k) for op, k in r[1])]
            if not hit:
                problems.append("no path for (dependency hit=%d, %d pending)" % (f, n))
            for r in hit:
                if r[2] != expect:
                    problems.append("with dependency hit=%d and %d pending dependencies the result is %s (expected %s)" % (
                        f, n, "Multiple" if r[2] == "Multiple" else "the scan's verdict", "Multiple" if expect == "Multiple" else "the scan's verdict"))
    report.ob(rule, "find_conflict/gate", not problems, "; ".join(sorted(set(problems))) if problems else
              "Multiple iff (hit and more than one pending) or (no hit and some pending); else the scan's verdict (%d paths, 8 cases)" % len(rows), site=m.fc.loc(), config=config)


# ------------------------------------------------------------------ ACCEPT / CAP / EARLIEST

def _lt_bound(ev, atom, value, is_len):
    """If the decided comparison is about `len` (recognised by is_len): ('lt', K) or ('ge', K) - the relation that holds."""
    nc = Q.norm_cmp(atom, value)
    if nc is None or nc[2][0] != "int" or not is_len(nc[1]):
        return None
    op, k = nc[0], nc[2][1]
    if op == "Lt":
        return ("lt", k)
    if op == "Le":
        return ("lt", k + 1)
    if op == "Ge":
        return ("ge", k)
    if op == "Gt":
        return ("ge", k + 1)
    return None


def _scan_exit_rets(m):
    """way index -> set of function results on the ends that leave the scan loop that way."""
    S_ids = set(id(L) for L in m.scans)
    out = {}
    for e in m.it_ends:
        for ev_ in e.path.events:
            if ev_[0] == "loop" and id(ev_[1]) in S_ids:
                out.setdefault((id(ev_[1]), ev_[2]), []).append(e)
    return out


def accept(ctx, report, rule, facts, config, want=("chain", "accept", "cap")):
    m = model(ctx, facts)
    ev = m.it_ev
    report.touched(m.it, config)
    exit_ends = _scan_exit_rets(m)
    fc = m.fc_call
    k_found = None
    for S in m.scans:
        site = Q.site_of(ev, S) or m.it.loc()
        sound = []
        complete = []
        chain_pr = []
        to_target = []
        done_idx = [i for i, it in enumerate(S.iters) if it.end == "done"]
        if Q.range_of(S) is None:
            chain_pr.append("candidate stages do not come from a forward half-open range (%s)" % (S.source[:3] if S.source else S.kind,))
        if S.stages and [n for n, _ in S.stages if n != "map"]:
            chain_pr.append("candidates pass through %s" % [n for n, _ in S.stages])
        # fallback
        for i in done_idx:
            for e in exit_ends.get((id(S), i), []):
                if e.kind == "return" and not (e.ret[0] == "agg" and e.ret[2] == A.TARGET + "::NewStage"):
                    chain_pr.append("when no candidate is accepted the result is not NewStage")
        if not done_idx:
            chain_pr.append("the scan never runs out of candidates")
        for i, it in enumerate(S.iters):
            if it.end == "done":
                continue
            v = it.path.variant(fc)
            names = set(v.split("|")) if v else set(["None", "Single", "Multiple"])
            leaving = it.end in ("break", "return")
            if it.end == "diverge":
                if names != set(["Multiple"]) and not _only_arith_panic(it):
                    complete.append("judging a candidate can panic (%s)" % "/".join(sorted(names)))
                continue
            if leaving:
                rets = [e for e in exit_ends.get((id(S), i), [])]
                if "Multiple" in names:
                    sound.append("a stage with several conflicting groups (or an unmet dependency) can be accepted")
                elif len(names) != 1:
                    sound.append("a candidate is accepted without telling `no conflict` from `one conflicting group`")
                for e in rets:
                    if e.kind != "return":
                        if e.kind == "diverge":
                            to_target.append("accepting a candidate can panic")
                        continue
                    r = e.ret
                    if names == set(["None"]):
                        if not (r[0] == "agg" and r[2] == A.TARGET + "::Stage" and Q.strip(ev, r[3][0]) == S.elem):
                            to_target.append("an accepted stage without conflicts is not answered with Stage(that stage)")
                    elif names == set(["Single"]):
                        g = ("field", ("variant", fc, "Single"), "0", A.CONFLICT)
                        if not (r[0] == "agg" and r[2] == A.TARGET + "::Group" and Q.strip(ev, r[3][0]) == S.elem and Q.strip(ev, r[3][1]) == g):
                            to_target.append("an accepted stage with one conflicting group is not answered with Group(that stage, that group)")
                if not rets:
                    to_target.append("an accepting path of the scan does not reach a result")
            # completeness (C10): None always accepted; Single(g) rejected only by capacity / balance
            if names == set(["None"]) and not leaving:
                complete.append("a stage without any conflicting group is not always accepted")
            if names == set(["Single"]):
                g = ("field", ("variant", fc, "Single"), "0", A.CONFLICT)

                def is_len(t):
                    if not Q.is_call(ev, t, "len"):
                        return False
                    fields, idx, base = Q.table_access(ev, t[2][0])
                    cf = Q.crate_fields(fields)
                    return (cf == [(A.SB, "stages"), (A.STAGE, "groups")] and base == ("param", 1) and len(idx) == 2
                            and Q.strip(ev, idx[0]) == S.elem and Q.strip(ev, idx[1]) == g)

                room = None
                balance = None
                extra = []
                for (ct, cv, cn, cs) in it.conds:
                    if ct == ("discr", fc):
                        continue
                    b = _lt_bound(ev, ct, cv, is_len)
                    if b is not None:
                        room = b
                        continue
                    if Q.is_call(ev, ct, "improves_balance"):
                        a = ct[2]
                        if a[0] == ("param", 1) and Q.strip(ev, a[1]) == S.elem and Q.strip(ev, a[2]) == g:
                            balance = cv
                        else:
                            extra.append("improves_balance is not asked about (stage, group)")
                        continue
                    extra.append("unexpected condition %s" % (ct[:2],))
                if extra:
                    complete.extend("Single(g): " + x for x in extra)
                if leaving:
                    if not (room and room[0] == "lt"):
                        complete.append("Single(g): a group is joined without checking that it has room")
                    else:
                        k_found = room[1] if k_found is None else max(k_found, room[1])
                    if balance != 1:
                        complete.append("Single(g): a group is joined without improves_balance(stage, g) holding")
                else:
                    if not ((room and room[0] == "ge") or balance == 0):
                        complete.append("Single(g): the candidate is rejected although the group has room and the balance improves")
        if "chain" in want:
            report.ob(rule, "insertion_target/scan", not chain_pr, "; ".join(sorted(set(chain_pr))) if chain_pr else
                      "candidates are judged in ascending order, the first accepted one is the answer, NewStage if none", site=site, config=config)
        if "accept-sound" in want or "chain" in want:
            report.ob(rule, "insertion_target/accept-sound", not sound, "; ".join(sorted(set(sound))) if sound else
                      "a stage with several conflicting groups is never accepted", site=site, config=config)
            report.ob(rule, "insertion_target/to-target", not to_target, "; ".join(sorted(set(to_target))) if to_target else
                      "None -> Stage(s); Single(g) -> Group(s, g)", site=site, config=config)
            _evaluate(m, S, report, rule, site, config)
        if "accept" in want:
            report.ob(rule, "insertion_target/accept-table", not complete, "; ".join(sorted(set(complete))) if complete else
                      "None -> accept; Multiple -> reject; Single(g) -> len(groups[g]) < K && improves_balance(stage, g)", site=site, config=config)
        if "cap" in want:
            caps = set()
            for path_, fld in ((A.STAGE, "groups"), (A.SB, "ids")):
                ty = facts.adt_field(path_, fld)["ty"]
                for x in re.findall(r"arrayvec::ArrayVec<.*, (\w+)>; \d+\]>", ty):
                    if x.isdigit():
                        caps.add(int(x))
                    else:
                        for cpath, cst in facts.consts.items():
                            if cpath.rsplit("::", 1)[-1] == x and "int" in cst:
                                caps.add(cst["int"])
            ok = k_found is not None and len(caps) == 1 and k_found <= min(caps) - 1 and not [p_ for p_ in complete if "has room" in p_]
            report.ob(rule, "insertion_target/capacity", ok,
                      "a group is joined only while len < %s; ArrayVec capacity of both group tables is %s" % (k_found, sorted(caps)), site=site, config=config)
    return m


def _only_arith_panic(it):
    return not [e for e in it.path.events if e[0] == "panic"] and not [e for e in it.path.events if e[0] == "call" and e[2].name in ("panic", "panic_fmt", "unreachable", "begin_panic")]


def _evaluate(m, S, report, rule, site, config):
    """Every candidate is judged by find_conflict about itself."""
    ev = m.it_ev
    pr = []
    stage_par = [i for i, r in m.fc_role.items() if r == "STAGE"]
    if len(stage_par) != 1:
        pr.append("find_conflict is not told which stage is judged")
    for it in S.iters:
        if it.end == "done":
            continue
        n = len(Q.calls_in(it.path.events, lambda c: c.key == m.fc.key))
        if n != 1:
            pr.append("a candidate is judged %d times" % n)
    report.ob(rule, "insertion_target/evaluate", not pr, "each candidate stage is judged once, by find_conflict(.., that stage, ..)" if not pr else "; ".join(sorted(set(pr))), site=site, config=config)


def fold_int(t):
    """Fold a constant integer term (named constants are already literals in MIR)."""
    if not isinstance(t, tuple):
        return None
    if t[0] == "int":
        return t[1]
    if t[0] == "field" and t[2] == "0" and isinstance(t[1], tuple) and t[1][0] == "bin":
        return fold_int(t[1])
    if t[0] == "agg" and t[1] == "tuple" and t[3] and t[3][0][0] == "int":
        return t[3][0][1]
    if t[0] == "bin":
        a, b = fold_int(t[2]), fold_int(t[3])
        if a is None or b is None:
            return None
        op = t[1]
        if op.startswith("Sub"):
            return a - b
        if op.startswith("Add"):
            return a + b
        if op.startswith("Mul"):
            return a * b
    if t[0] == "cast":
        return fold_int(t[2])
    return None


def fold_like(t, base, inc):
    """t is `base + inc` (checked add: field 0 of AddWithOverflow)."""
    if isinstance(t, tuple) and t[0] == "field" and t[2] == "0" and isinstance(t[1], tuple) and t[1][0] == "bin":
        t = t[1]
    return isinstance(t, tuple) and t[0] == "bin" and t[1].startswith("Add") and t[2] == base and t[3] == ("int", inc)


# ------------------------------------------------------------------ barrier rules

def barrier(ctx, report, rule, facts, config, want=("set", "fwd", "range")):
    if "set" in want:
        ab = facts.one(A.SB + "::add_barrier")
        report.touched(ab, config)
        ev, ends = Q.sem(ctx, facts, A.SB + "::add_barrier")
        rets = _ret_ends(ends)
        ok = bool(rets)
        detail = "%d path(s)" % len(rets)
        for e in rets:
            stores = [s_ for s_ in e.path.events if s_[0] == "store" and s_[2] == ("field", ("param", 1), "barrier", A.SB)]
            good = len(stores) == 1
            if good:
                v = stores[0][3]
                fields, idx, base = Q.table_access(ev, v[2][0]) if Q.is_call(ev, v, "len") else ([], [], None)
                good = Q.crate_fields(fields) == [(A.SB, "stages")] and not idx and base == ("param", 1)
            if not good:
                ok = False
                detail = "add_barrier does not store len(self.stages) into `barrier` on every path (%d store(s))" % len(stores)
        if ok:
            detail = "barrier = self.stages.len()"
        report.ob(rule, "StagesBuilder::add_barrier", ok, detail, site=ab.loc(), config=config)
        # only writer of the field
        n = 0
        for b in sorted(facts.bodies.values(), key=lambda b: b.key):
            for bi, blk in enumerate(b.blocks):
                if blk["cleanup"]:
                    continue
                for st in blk["stmts"]:
                    if st["k"] == "assign":
                        pl = st["place"]
                        if pl["p"] and pl["p"][-1]["k"] == "field" and pl["p"][-1].get("adt") == A.SB and pl["p"][-1].get("name") == "barrier":
                            n += 1
                            report.ob(rule, "barrier-writer/%s" % b.qname, b.key == ab.key, "field `barrier` is assigned in %s" % b.qname, site=b.loc(bi), config=config)
                        rv = st["rv"]
                        if rv["k"] in ("ref", "rawptr") and rv.get("bk") in ("mut", "Mut"):
                            pp = rv["place"]["p"]
                            if pp and pp[-1]["k"] == "field" and pp[-1].get("adt") == A.SB and pp[-1].get("name") == "barrier":
                                report.ob(rule, "barrier-borrowed-mut/%s" % b.qname, False, "field `barrier` is mutably borrowed in %s" % b.qname, site=b.loc(bi), config=config)
        report.floor(rule, "writers of `barrier`", n, 1, config=config)
    if "fwd" in want:
        sab = facts.one(A.SB + "::add_barrier")
        b = facts.one(A.DB + "::add_barrier")
        report.touched(b, config)
        ev, ends = Q.sem(ctx, facts, A.DB + "::add_barrier", opaque=[A.SB + "::add_barrier"])
        cnts = []
        for e in _ret_ends(ends):
            cs = [c for c in Q.calls_in(e.path.events, lambda c: c.key == sab.key, deep=True) if c[3] and c[3][0] == ("field", ("param", 1), "stages_builder", A.DB)]
            cnts.append(len(cs))
        ok = bool(cnts) and all(c == 1 for c in cnts)
        report.ob(rule, "DispatcherBuilder::add_barrier", ok, "forwards to self.stages_builder.add_barrier() %s time(s) per path" % sorted(set(cnts)), site=b.loc(), config=config)
        w = facts.one(A.DB + "::with_barrier")
        report.touched(w, config)
        ev, ends = Q.sem(ctx, facts, A.DB + "::with_barrier", opaque=[A.DB + "::add_barrier", A.SB + "::add_barrier"])
        cnts = []
        retself = True
        for e in _ret_ends(ends):
            cs = Q.calls_in(e.path.events, lambda c: c.key in (b.key, sab.key), deep=True)
            cnts.append(len(cs))
            retself = retself and e.ret == ("param", 1)
        ok = bool(cnts) and all(c == 1 for c in cnts) and retself
        report.ob(rule, "DispatcherBuilder::with_barrier", ok, "calls add_barrier %s time(s) and returns self" % sorted(set(cnts)), site=w.loc(), config=config)
    if "range" in want:
        m = model(ctx, facts)
        ev = m.it_ev
        for S in m.scans:
            rng = Q.range_of(S)
            ok = False
            detail = "candidate range not recognised: %s" % (S.source[:3] if isinstance(S.source, tuple) else S.source,)
            if rng is not None:
                lo, hi = rng
                oklo = lo == ("field", ("param", 1), "barrier", A.SB)
                okhi = False
                if Q.is_call(ev, hi, "len"):
                    fields, idx, base = Q.table_access(ev, hi[2][0])
                    okhi = base == ("param", 1) and not idx and Q.crate_fields(fields) == [(A.SB, "stages")]
                ok = oklo and okhi
                detail = "candidate stages are self.barrier..self.stages.len()" if ok else "candidate stages are %s..%s (expected self.barrier..self.stages.len())" % (_short(lo), _short(hi))
            report.ob(rule, "insertion_target/range", ok, detail, site=Q.site_of(ev, S) or m.it.loc(), config=config)
        # Stage / Group targets are only built by the code the scan was evaluated from
        known = set(ev.inlined) | set([m.it.key])
        n = 0
        for b in sorted(facts.bodies.values(), key=lambda b: b.key):
            for bi, blk in enumerate(b.blocks):
                for st in blk["stmts"]:
                    if st["k"] == "assign" and st["rv"]["k"] == "agg" and st["rv"].get("adt") == A.TARGET and st["rv"]["variant"] in ("Stage", "Group"):
                        n += 1
                        report.ob(rule, "target-built/%s/%s" % (b.qname, st["rv"]["variant"]), b.key in known,
                                  "InsertionTarget::%s is constructed in %s" % (st["rv"]["variant"], b.qname), site=b.loc(bi), config=config)
        report.floor(rule, "constructions of Stage/Group targets", n, 2, config=config)


# ------------------------------------------------------------------ dependency bookkeeping (C02 / C10)

def _is_rm(m):
    rid = m.facts.one(A.SB + "::remove_ids")
    return lambda c: c.key == rid.key


def dep_order(ctx, report, rule, facts, config):
    """C02.ORDER: a stage is judged against the pending list before its own ids are crossed off: same stage, same list."""
    m = model(ctx, facts)
    ev = m.it_ev
    is_rm = _is_rm(m)
    dep_arg = [i for i, r in m.fc_role.items() if r == "DEP"]
    for S in m.scans:
        pr = []
        for it in S.iters:
            if it.end == "done":
                continue
            calls = [e for e in it.path.events if e[0] == "call"]
            fcs = [i for i, e in enumerate(calls) if e[2].key == m.fc.key]
            rms = [i for i, e in enumerate(calls) if is_rm(e[2])]
            if len(fcs) != 1 or len(rms) != 1:
                pr.append("in one step of the scan the stage is judged %d time(s) and crossed off %d time(s)" % (len(fcs), len(rms)))
                continue
            if not fcs[0] < rms[0]:
                pr.append("a stage's ids are crossed off the pending list before the stage is judged")
            fa = calls[fcs[0]][3]
            ra = calls[rms[0]][3]
            same_list = len(dep_arg) == 1 and Q.strip(ev, fa[dep_arg[0] - 1]) == Q.strip(ev, ra[2])
            if not (ra[0] == ("param", 1) and Q.strip(ev, ra[1]) == S.elem and same_list):
                pr.append("remove_ids is not applied to (this stage, the pending list that was judged)")
        report.ob(rule, "evaluate/find_conflict-before-remove_ids", not pr,
                  "the stage is judged against the pending list before its own ids are crossed off (same stage, same list)" if not pr else "; ".join(sorted(set(pr))),
                  site=Q.site_of(ev, S) or m.it.loc(), config=config)


def depcover(ctx, report, rule, facts, config):
    """C10.DEPCOVER: the stages whose ids are crossed off the pending list cover every stage in front of the
    candidate being judged: the ranges that feed remove_ids' stage argument chain from 0 to the scan range."""
    m = model(ctx, facts)
    ev = m.it_ev
    is_rm = _is_rm(m)
    report.touched(m.it, config)
    problems = []
    S_ids = set(id(L) for L in m.scans)
    checked = 0
    for e in m.it_ends:
        if e.kind != "return":
            continue
        loops = [x for x in e.path.events if x[0] == "loop"]
        pos = [i for i, x in enumerate(loops) if id(x[1]) in S_ids]
        if len(pos) != 1:
            problems.append("a path through insertion_target does not pass the candidate scan exactly once")
            continue
        checked += 1
        cur = ("int", 0)
        used = []
        for x in loops[:pos[0]]:
            L = x[1]
            if not Q.loop_contains_call(L, is_rm, deep=False):
                continue
            rng = Q.range_of(L)
            if rng is None:
                problems.append("ids are crossed off for stages that do not come from a range")
                continue
            full = Q.is_full(L) and all(len([c for c in Q.calls_in(it.path.events, is_rm) if c[3][0] == ("param", 1) and Q.strip(ev, c[3][1]) == L.elem]) == 1
                                        for it in L.iters if it.end == "continue")
            if not full:
                problems.append("the cross-off loop in front of the scan skips stages")
            if rng[0] == cur:
                used.append(rng)
                cur = rng[1]
        srng = Q.range_of(loops[pos[0]][1])
        if srng is None:
            problems.append("the candidate scan is not a range")
        elif srng[0] != cur and srng[0] != ("int", 0):
            problems.append("the ids of stages %s..%s are never crossed off the pending dependency list: a dependency on a system in front of the barrier "
                            "keeps every later stage rejected and forces a stage of its own" % (_short(cur), _short(srng[0])))
        # inside the scan every judged stage is crossed off (ORDER decides the order)
        for it in loops[pos[0]][1].iters:
            if it.end == "continue" and len([c for c in Q.calls_in(it.path.events, is_rm) if Q.strip(ev, c[3][1]) == loops[pos[0]][1].elem]) != 1:
                problems.append("a rejected candidate's ids are not crossed off the pending list")
    if not checked:
        problems.append("no normal path through insertion_target")
    report.ob(rule, "remove_ids/coverage", not problems, "; ".join(sorted(set(problems))) if problems else
              "ids are crossed off for every stage from 0 up to the candidate being judged", site=m.it.loc(), config=config)
    n_sites = len(facts.callers().get(facts.one(A.SB + "::remove_ids").key, []))
    report.floor(rule, "remove_ids call sites", n_sites, 1, config=config)


def crossoff(ctx, report, rule, facts, config, want=("own-stage", "all-occurrences")):
    """remove_ids(stage, dep): an entry goes only when equal to an id of ids[stage] (C02.CROSSOFF) and every equal entry goes (C10.ALLOCC)."""
    rid = facts.one(A.SB + "::remove_ids")
    report.touched(rid, config)
    ev, ends = Q.sem(ctx, facts, A.SB + "::remove_ids")
    loops = Q.all_loops(ends)

    def over_dep(L):
        return L.kind == "model:retain" and Q.strip(ev, L.source) == ("param", 3)

    def ids_level(L):
        """1 if L runs over the ids of the stage (flattened), 2 if over the ids of one group of the stage, 0 otherwise."""
        src = L.source
        c = Q.callee_of(ev, src)
        if c is not None and c.name == "flatten" and not c.local:
            fields, idx, base = Q.table_access(ev, src[2][0])
            if Q.crate_fields(fields) == [(A.SB, "ids")] and base == ("param", 1) and idx == [("param", 2)]:
                return 1
            return 0
        s = Q.strip(ev, src)
        if s[0] == "elem":
            outer = [O for O in loops if O.elem == s]
            if outer:
                fields, idx, base = Q.table_access(ev, outer[0].source)
                oc = Q.callee_of(ev, Q.strip(ev, outer[0].source))
                if (Q.crate_fields(fields) == [(A.SB, "ids")] and base == ("param", 1) and idx == [("param", 2)]
                        and (oc is None or oc.name in ("index", "index_mut")) and (Q.is_full(outer[0]) or outer[0].kind in SEARCH) and not outer[0].stages):
                    return 2
        return 0

    id_loops = [L for L in loops if ids_level(L)]
    dep_loops = [L for L in loops if over_dep(L)]
    own = []
    allocc = []
    if not dep_loops:
        own.append("the pending list is not filtered with `retain`")
        allocc.append("remove_ids does not remove with `retain` (every equal entry must go)")
    if not id_loops:
        own.append("no traversal of self.ids[stage] found")
    id_elems = dict((L.elem, L) for L in id_loops)
    # other mutations of the pending list
    for e in ends:
        for ce in Q.calls_in(e.path.events, lambda c: not c.local and c.name in ("remove", "swap_remove", "clear", "truncate", "pop", "drain", "dedup", "insert", "push"), deep=True):
            if ce[3] and Q.strip(ev, ce[3][0]) == ("param", 3):
                own.append("the pending list is modified by `%s`" % ce[2].name)
                allocc.append("a finished dependency is crossed off with `%s`: a list naming the same system twice keeps a stale entry and forces a needless stage" % ce[2].name)
    for D in dep_loops:
        for it in D.iters:
            if it.end == "done":
                continue
            if it.end != "continue" or it.ret not in (("int", 0), ("int", 1)):
                own.append("unrecognised outcome of the retain predicate")
                continue
            keep = it.ret[1]
            equal = None   # is the entry known equal / unequal to an id of the stage on this way
            foreign = False
            for (ct, cv, cn, cs) in it.conds:
                c = Q.callee_of(ev, ct)
                if c is not None and c.trait in PEQ and c.name in ("eq", "ne") and len(ct[2]) == 2:
                    a, b = Q.strip(ev, ct[2][0]), Q.strip(ev, ct[2][1])
                    other = b if a == D.elem else (a if b == D.elem else None)
                    if other is None:
                        foreign = True
                        continue
                    if other in id_elems:
                        eq = (cv == 1) if c.name == "eq" else (cv == 0)
                        equal = eq if equal is None else (equal or eq)
                    else:
                        foreign = True
                elif ct[0] in ("call", "bin"):
                    foreign = True
            if keep == 0 and equal is not True:
                own.append("an entry can be removed without being equal to an id read from ids[stage]")
            if keep == 0 and foreign:
                own.append("removal also depends on something else than equality with an id of the stage")
            if keep == 1 and equal is True:
                allocc.append("an entry equal to an id of the stage can be kept")
            if keep == 1:
                # a search over the ids may stop early when it has found the entry - not when it decides to keep it: on a
                # way that keeps the entry every search over the ids of the stage (or over its groups) has run to its end
                def left_early(events):
                    for x in events:
                        if x[0] == "loop" and x[2] is not None:
                            L2, w = x[1], x[1].iters[x[2]]
                            about_ids = ids_level(L2) or any(ids_level(L3) == 2 and Q.strip(ev, L3.source) == L2.elem for L3 in loops)
                            if about_ids and L2.kind in SEARCH and w.end != "done":
                                return True
                            if left_early(w.path.events):
                                return True
                    return False
                if left_early(it.path.events):
                    allocc.append("an entry can be kept before all ids of the stage were compared with it")
    # a way through that does no crossing off at all is fine only where the pending list is known to be empty (the guard in front
    # of the loop is an optimisation, not a condition)
    ids_of = set(L.id for L in id_loops + dep_loops)

    def crosses(events):
        for x in events:
            if x[0] == "loop":
                if x[1].id in ids_of or any(crosses(it.path.events) for it in x[1].iters):
                    return True
        return False

    for e in Q.returns(ends):
        if crosses(e.path.events):
            continue
        empty = False
        for (ct, cv, cn, cs) in e.path.conds:
            if Q.is_call(ev, ct, "is_empty") and ct[2] and Q.strip(ev, ct[2][0]) == ("param", 3) and cv == 1:
                empty = True
            nc = Q.norm_cmp(ct, cv)
            if nc is not None and nc[2][0] == "int" and Q.is_call(ev, nc[1], "len") and Q.strip(ev, nc[1][2][0]) == ("param", 3) and \
                    [n_ for n_ in (0, 1, 2, 3) if Q.holds_for(nc[0], n_, nc[2][1])] == [0]:
                empty = True
        if not empty:
            allocc.append("a way through remove_ids crosses nothing off although the pending list may hold entries: a finished dependency stays pending and forces a needless stage")
    # the ids of the stage are all looked at
    for L in id_loops:
        if L.kind in SEARCH:
            continue
        if not Q.is_full(L):
            allocc.append("the ids of the stage are not all looked at")
            own.append("the traversal of the ids of the stage can stop early")
        if L.stages:
            allocc.append("the ids of the stage pass through %s" % [n for n, _ in L.stages])
    if "own-stage" in want:
        report.ob(rule, "remove_ids/own-stage", not own, "; ".join(sorted(set(own))) if own else
                  "an entry is removed only when equal to an id read from ids[stage]", site=rid.loc(), config=config)
    if "all-occurrences" in want:
        report.ob(rule, "remove_ids/all-occurrences", not allocc, "; ".join(sorted(set(allocc))) if allocc else
                  "every entry equal to an id of the stage is removed (retain over the whole list, all ids looked at)", site=rid.loc(), config=config)


def _short(t):
    if not isinstance(t, tuple):
        return str(t)
    if t[0] == "int":
        return str(t[1])
    if t[0] == "field":
        return "self." + t[2] if t[1] == ("param", 1) else "%s.%s" % (_short(t[1]), t[2])
    if t[0] == "call":
        return "call(..)"
    return t[0]


# ------------------------------------------------------------------ WIDTH

def width(ctx, report, rule, facts, config):
    """C10.WIDTH: max_threads = max over all stages of the number of groups."""
    sm = facts.one(A.STAGE + "::max_threads")
    report.touched(sm, config)
    ev, ends = Q.sem(ctx, facts, A.STAGE + "::max_threads")
    rets = _ret_ends(ends)
    ok = bool(rets)
    for e in rets:
        r = e.ret
        fields, idx, base = Q.table_access(ev, r[2][0]) if Q.is_call(ev, r, "len") else ([], [], None)
        ok = ok and Q.crate_fields(fields) == [(A.STAGE, "groups")] and not idx and base == ("param", 1)
    report.ob(rule, "Stage::max_threads", ok, "returns self.groups.len()" if ok else "does not return the number of groups", site=sm.loc(), config=config)
    dm = facts.one(A.SD + "::max_threads")
    report.touched(dm, config)
    ev, ends = Q.sem(ctx, facts, A.SD + "::max_threads", opaque=[A.STAGE + "::max_threads"])
    pr = []
    rets = _ret_ends(ends)
    if not rets:
        pr.append("no normal path")
    for e in rets:
        ls = [x for x in e.path.events if x[0] == "loop"]
        if len(ls) != 1:
            pr.append("expected one traversal of the stages, found %d" % len(ls))
            continue
        L = ls[0][1]
        fields, idx, base = Q.table_access(ev, L.source)
        if not (Q.crate_fields(fields) == [(A.SD, "stages")] and not idx and base == ("param", 1)) or Q.callee_of(ev, Q.strip(ev, L.source)) is not None:
            pr.append("the traversal does not run over self.stages")
        if not Q.is_full(L):
            pr.append("the traversal of the stages can stop early")
        if [n for n, _ in L.stages if n != "map"]:
            pr.append("stages pass through %s" % [n for n, _ in L.stages])
        keys = [k for k in L.carried]
        if len(keys) != 1:
            pr.append("expected one running maximum, found %d" % len(keys))
            continue
        k = keys[0]
        lv = ("lvar", L.id, k)
        init = L.carried[k]
        is_w = lambda t: Q.is_call(ev, t, "max_threads") and Q.callee_of(ev, t).key == sm.key and Q.strip(ev, t[2][0]) == L.elem
        opt = init[0] == "agg" and init[2] == OPTION + "::None"
        if not (init == ("int", 0) or opt):
            pr.append("the running maximum does not start at 0")
        some_prev = ("field", ("variant", lv, "Some"), "0", OPTION)
        for it in L.iters:
            if it.end != "continue":
                continue
            u = it.updates.get(k)
            if opt:
                if not (u[0] == "agg" and u[2] == OPTION + "::Some"):
                    pr.append("the running maximum is lost on some iteration")
                    continue
                newv = Q.strip(ev, u[3][0])
                pv = it.path.variant(lv)
                prev = some_prev if pv == "Some" else (None if pv == "None" else "unknown")
            else:
                newv = Q.strip(ev, u)
                prev = lv
            good = False
            if newv[0] == "bin" and newv[1] == "Max" and is_w(newv[3]):
                good = True   # Iterator::max as modelled: max(previous if any, x)
            elif Q.callee_of(ev, newv) is not None and Q.callee_of(ev, newv).name == "max" and len(newv[2]) == 2 and prev not in (None, "unknown"):
                a, b = Q.strip(ev, newv[2][0]), Q.strip(ev, newv[2][1])
                good = (a == prev and is_w(b)) or (b == prev and is_w(a))
            elif prev is None:
                good = is_w(newv)
            elif prev != "unknown":
                rel = None   # relation (width ? previous) that holds on this way
                for (ct, cv, cn, cs) in it.conds:
                    nc = Q.norm_cmp(ct, cv)
                    if nc is None:
                        continue
                    op, a, b = nc
                    a, b = Q.strip(ev, a), Q.strip(ev, b)
                    if a == prev and is_w(b):
                        rel = Q.FLIP[op]
                    elif b == prev and is_w(a):
                        rel = op
                if rel in ("Gt", "Ge") and is_w(newv):
                    good = True
                if rel in ("Le", "Lt", "Eq") and newv == prev:
                    good = True
                if rel in ("Le", "Eq", "Ge") and (is_w(newv) or newv == prev) and rel == "Eq":
                    good = True
            if not good:
                pr.append("the running value is not updated to max(previous, stage.max_threads())")
        r = e.ret
        lx = ("lexit", L.id, k)
        if opt:
            v = e.path.variant(lx)
            good = (v == "None" and r == ("int", 0)) or (v == "Some" and r == ("field", ("variant", lx, "Some"), "0", OPTION))
            if not good:
                pr.append("the result is not the maximum (0 when there are no stages)")
        elif r != lx:
            pr.append("the result is not the running maximum")
    report.ob(rule, "SendDispatcher::max_threads", not pr, "the maximum over all stages of Stage::max_threads(), 0 if there are none" if not pr else
              "; ".join(sorted(set(pr))), site=dm.loc(), config=config)
    d = facts.one(A.DISP + "::max_threads")
    ev, ends = Q.sem(ctx, facts, A.DISP + "::max_threads", opaque=[A.SD + "::max_threads"])
    rets = _ret_ends(ends)
    ok = bool(rets) and all(Q.is_call(ev, e.ret, "max_threads") and Q.callee_of(ev, e.ret).key == dm.key and e.ret[2] == (("field", ("param", 1), "inner", A.DISP),) for e in rets)
    report.ob(rule, "Dispatcher::max_threads", ok, "forwards to self.inner.max_threads()", site=d.loc(), config=config)


# ------------------------------------------------------------------ the intersection primitive itself

def intersect_body(ctx, report, rule, facts, config):
    """check_intersection(i, j) is `exists a in i, exists b in j: b == a`: a scan of the whole of `i`, for each
    element a scan of a fresh copy of the whole of `j`, elements compared with `==`; true exactly when a pair is equal."""
    b = facts.one(A.F_CHECK_INTERSECTION)
    report.touched(b, config)
    ev, ends = Q.sem(ctx, facts, A.F_CHECK_INTERSECTION)
    problems = []
    loops = Q.all_loops(ends)
    outer = [L for L in loops if Q.strip(ev, L.source) == ("param", 1)]
    inner = [L for L in loops if Q.strip(ev, L.source) == ("param", 2)]
    if len(set(L.id for L in outer)) != 1:
        problems.append("the first iterator is not traversed by exactly one loop")
    if len(set(L.id for L in inner)) != 1:
        problems.append("the second iterator is not traversed by exactly one loop")
    for L in inner:
        c = Q.callee_of(ev, L.source if L.source[0] == "call" else ("x",))
        # a fresh copy per element of i
        t = L.source
        fresh = False
        while t[0] == "call" and Q.callee_of(ev, t) is not None and not Q.callee_of(ev, t).local and t[2]:
            if Q.callee_of(ev, t).name == "clone":
                fresh = True
            t = t[2][0]
        nested = any(any(x[0] == "loop" and x[1].id == L.id for x in it.path.events) for O in outer for it in O.iters)
        if not nested:
            problems.append("the second iterator is not scanned once per element of the first")
        elif not fresh:
            problems.append("each element of `i` is not tested against a fresh `j.clone()` (the second scan would be used up)")
    for L in outer + inner:
        if L.stages or L.kind == "while":
            problems.append("an iterator passes through %s before the comparison" % ([n for n, _ in L.stages] or L.kind))
    elems = set(L.elem for L in outer), set(L.elem for L in inner)

    def pair_equal(conds):
        """True / False if the path decides that the current pair is equal / unequal, None otherwise; 'bad' for another test."""
        res = None
        for (ct, cv, cn, cs) in conds:
            c = Q.callee_of(ev, ct)
            if c is not None and c.trait in PEQ and c.name in ("eq", "ne") and len(ct[2]) == 2:
                a, bb_ = Q.strip(ev, ct[2][0]), Q.strip(ev, ct[2][1])
                if (a in elems[0] and bb_ in elems[1]) or (a in elems[1] and bb_ in elems[0]):
                    res = (cv == 1) if c.name == "eq" else (cv == 0)
                else:
                    return "bad"
            elif ct[0] in ("call", "bin"):
                return "bad"
        return res

    for e in ends:
        if e.kind != "return":
            if e.kind == "diverge":
                problems.append("check_intersection can panic")
            continue
        pe = pair_equal(e.path.conds)
        if pe == "bad":
            problems.append("the result depends on something else than `==` between an element of i and an element of j")
        elif e.ret == ("int", 1):
            if pe is not True:
                problems.append("true is returned without an equal pair")
        elif e.ret == ("int", 0):
            if pe is True:
                problems.append("false is returned although a pair is equal")
            # must come from exhausting i
            exh = [x for x in e.path.events if x[0] == "loop" and x[1].id in set(L.id for L in outer) and x[1].iters[x[2]].end == "done"] if outer else []
            if not exh:
                problems.append("false is returned before the first iterator is exhausted")
        else:
            problems.append("the result is not a constant decided by the scan")
    # no way of the inner scan continues past an equal pair, none of the outer scan either
    for L in inner:
        for it in L.iters:
            if it.end == "continue" and pair_equal(it.conds) is True:
                problems.append("the inner scan continues after an equal pair")
            if it.end in ("break", "return") and pair_equal(it.conds) is not True:
                problems.append("the inner scan stops without an equal pair")
    for L in outer:
        for it in L.iters:
            if it.end in ("break", "return") and pair_equal(it.conds) is not True:
                problems.append("the outer scan stops without an equal pair")
    report.ob(rule, "check_intersection/body", not problems, "; ".join(sorted(set(problems))) if problems else
              "for every a in i and every b in a fresh copy of j: true exactly when some b == a; both sides scanned in full, equality only", site=b.loc(), config=config)
    # ids are compared with the compiler-derived equality over all their fields
    for adt in (A.RESID, A.SYSID):
        ims = [im for im in facts.impls if im.get("trait") == "std::cmp::PartialEq" and im.get("self_head") == adt]
        ok = len(ims) == 1 and ims[0]["auto_derived"]
        report.ob(rule, "derived-eq/%s" % adt.rsplit("::", 1)[1], ok, "#[derive(PartialEq)] over all fields" if ok else
                  "%s has a hand-written PartialEq: conflicts between ids that differ in an ignored field would be missed or invented" % adt, config=config)


# ------------------------------------------------------------------ small services for other rule families

class _NoCtx(object):
    pass


def acc_fields(facts, ctx=None):
    """Names of the StagesBuilder fields that accumulate declared reads, declared writes and system ids."""
    return dict(model(ctx or _NoCtx(), facts).acc)


def group_bound(ctx, facts):
    """K such that a group is joined only while its length is below K (None if not recognised), and the site."""
    m = model(ctx, facts)
    ev = m.it_ev
    fc = m.fc_call
    k = None
    for S in m.scans:
        g = ("field", ("variant", fc, "Single"), "0", A.CONFLICT)

        def is_len(t):
            if not Q.is_call(ev, t, "len"):
                return False
            fields, idx, base = Q.table_access(ev, t[2][0])
            return (Q.crate_fields(fields) == [(A.SB, "stages"), (A.STAGE, "groups")] and base == ("param", 1) and len(idx) == 2
                    and Q.strip(ev, idx[0]) == S.elem and Q.strip(ev, idx[1]) == g)

        for it in S.iters:
            if it.end in ("break", "return") and it.path.variant(fc) == "Single":
                b = None
                for (ct, cv, cn, cs) in it.conds:
                    bb_ = _lt_bound(ev, ct, cv, is_len)
                    if bb_ is not None and bb_[0] == "lt":
                        b = bb_[1]
                if b is None:
                    return None, m.it.loc()
                k = b if k is None else max(k, b)
    return k, m.it.loc()
