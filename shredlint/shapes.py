"""A4 traversal classifier, receiver roots and the FANOUT coverage analysis."""
from .cfg import Cfg, INF
from .facts import Callee
from .terms import subterms

# unary external calls that hand out (a view of / an iterator over) their receiver
TRANSPARENT = set([
    "deref", "deref_mut", "as_ref", "as_mut", "borrow", "borrow_mut", "iter", "iter_mut", "into_iter",
    "par_iter_mut", "par_iter", "into_par_iter", "index", "index_mut", "by_ref", "as_slice",
    "as_mut_slice", "clone", "cloned", "copied", "get_mut", "unwrap", "expect", "as_deref", "as_deref_mut",
    "flatten", "map", "enumerate", "chain", "inspect", "read", "write",
])

PARTIAL_ADAPTORS = ["Skip<", "Take<", "StepBy<", "Filter<", "FilterMap<", "Rev<", "Zip<", "TakeWhile<",
                    "SkipWhile<", "Peekable<", "MapWhile<", "Scan<", "Fuse<", "Cycle<", "Chunks<", "Windows<",
                    "Interleave<", "rayon::iter::Skip", "rayon::iter::Take", "rayon::iter::Filter",
                    "rayon::iter::StepBy", "rayon::iter::Rev", "rayon::iter::Zip", "rayon::iter::FilterMap",
                    "rayon::iter::SkipAny", "rayon::iter::TakeAny", "rayon::iter::PositionsIter"]

FULL_ITER_HEADS = ["std::slice::Iter<", "std::slice::IterMut<", "std::vec::IntoIter<", "smallvec::IntoIter<",
                   "arrayvec::IntoIter<", "std::ops::Range<", "std::iter::Flatten<", "std::iter::Cloned<",
                   "std::iter::Copied<", "std::iter::Map<", "std::iter::Enumerate<", "std::iter::Chain<",
                   "rayon::slice::IterMut<", "rayon::slice::Iter<", "rayon::vec::IntoIter<",
                   "smallvec::Drain<", "std::vec::Drain<"]


def iter_type_class(ty):
    """'full' if the iterator type visits every element front to back,
    'partial:<why>' if an adaptor may skip / reorder, 'unknown' otherwise."""
    if ty is None:
        return "unknown"
    for a in PARTIAL_ADAPTORS:
        if a in ty:
            return "partial:" + a.rstrip("<")
    for h in FULL_ITER_HEADS:
        if ty.startswith(h) or ty.startswith("&mut " + h):
            return "full"
    return "unknown:" + ty[:60]


def root(t, bt=None, crate="shred"):
    """Strip a receiver term down to its base.  Returns (base, path) where
    path is the list of in-crate ADT field names applied to the base (outermost
    last) and base is one of
      ('param', i) ('upvar', n) ('elem', bb) ('call', bb, args) ('other', t)."""
    path = []
    while True:
        if not isinstance(t, tuple) or not t:
            return ("other", t), list(reversed(path))
        k = t[0]
        if k == "cast":
            t = t[2]
        elif k == "field":
            adt = t[3]
            if adt and adt != "tuple" and adt.startswith(crate + "::"):
                path.append(t[2])
            elif adt == "tuple":
                path.append("#" + str(t[2]))
            t = t[1]
        elif k in ("index", "variant", "proj"):
            t = t[1]
        elif k == "call":
            if bt is None:
                return t, list(reversed(path))
            c = bt.callee(t[1])
            if c.name == "next" and c.trait in ("std::iter::Iterator", "core::iter::Iterator"):
                return ("elem", t[1]), list(reversed(path))
            if c.name in TRANSPARENT and not c.local and t[2]:
                t = t[2][0]
                continue
            return t, list(reversed(path))
        elif k == "phi":
            # all alternatives must agree
            roots = [root(a, bt, crate) for a in t[2]]
            if roots and all(r == roots[0] for r in roots):
                b, p = roots[0]
                return b, p + list(reversed(path))
            return ("other", t), list(reversed(path))
        else:
            return t, list(reversed(path))


class Traversal(object):
    def __init__(self):
        self.kind = None        # 'for' | 'closure'
        self.body = None
        self.header = None      # bb of the `next` call (for) / of the consumer call (closure)
        self.into_iter_bb = None
        self.source = None      # term of the traversed collection
        self.iter_ty = None
        self.loop = set()
        self.some_bb = None
        self.exit_bb = None
        self.full = False
        self.why = ""
        self.closure = None     # closure Body for kind == 'closure'
        self.consumer = None

    def __repr__(self):
        return "<Trav %s %s@bb%s full=%s %s>" % (self.kind, self.body.qname, self.header, self.full, self.why)


def traversals(prog, body, allow_try=False):
    """All traversals of a body: `for` loops and closure-taking consumers.
    allow_try: leaving the loop through `?` (a block that calls
    FromResidual::from_residual) does not make the traversal partial."""
    bt = prog.bt(body)
    cfg = bt.cfg
    out = []
    loops = dict(cfg.loops())
    for bb, t in body.normal_calls():
        if bb not in cfg.reach:
            continue
        c = Callee(t["func"])
        if c.name == "next" and c.trait in ("std::iter::Iterator", "core::iter::Iterator"):
            tr = Traversal()
            tr.kind = "for"
            tr.body = body
            tr.header = bb
            args = bt.call_args(bb)
            it = args[0] if args else None
            tr.iter_ty = c.self_arg_s
            # the iterator local: into_iter(X) possibly through a move
            src = it
            tr.source = None
            if isinstance(src, tuple) and src and src[0] == "call":
                ic = bt.callee(src[1])
                if ic.name == "into_iter" and src[2]:
                    tr.into_iter_bb = src[1]
                    tr.source = src[2][0]
                else:
                    tr.source = src
            else:
                tr.source = src
            # loop region: natural loop whose header is the block of `next`
            # (or a block that jumps straight to it)
            region = None
            for h, blocks in loops.items():
                if bb in blocks and (h == bb or cfg.succ[h] == [bb] or _straight(cfg, h, bb)):
                    if region is None or len(blocks) > len(region):
                        region = blocks
            tr.loop = region or set()
            # Some / None arms
            nxt = t["target"]
            sw = body.blocks[nxt]["term"] if nxt is not None else None
            why = []
            if not region:
                why.append("`next` outside a loop")
            if sw is None or sw["k"] != "switch":
                why.append("result of `next` not matched directly")
            else:
                arms = dict((v, b) for v, b in sw["arms"])
                tr.exit_bb = arms.get(0)
                tr.some_bb = arms.get(1, sw["otherwise"])
            cls = iter_type_class(tr.iter_ty)
            if cls != "full":
                why.append("iterator type " + cls)
            # exits: every edge leaving the loop must be the None arm
            if region:
                for x in region:
                    for s_ in cfg.succ[x]:
                        if s_ not in region and not (x == nxt and s_ == tr.exit_bb):
                            if _diverges_only(cfg, body, s_):
                                continue
                            if allow_try and _is_try_exit(body, s_):
                                continue
                            why.append("early exit bb%d->bb%d (%s)" % (x, s_, body.loc(x)))
                if tr.exit_bb in region:
                    why.append("None arm stays in loop")
            tr.full = not why
            tr.why = "; ".join(why)
            out.append(tr)
        else:
            # closure-taking consumer: for_each & co.
            if c.name in ("for_each", "try_for_each") and len(t["args"]) == 2:
                args = bt.call_args(bb)
                clo = _closure_of(args[1])
                if clo and clo in prog.facts.bodies:
                    tr = Traversal()
                    tr.kind = "closure"
                    tr.body = body
                    tr.header = bb
                    tr.source = args[0]
                    tr.iter_ty = c.self_arg_s
                    tr.closure = prog.facts.bodies[clo]
                    tr.consumer = c
                    cls = iter_type_class(tr.iter_ty)
                    tr.full = cls == "full"
                    tr.why = "" if tr.full else "iterator type " + cls
                    out.append(tr)
    return out


def _is_try_exit(body, bb):
    t = body.blocks[bb]["term"]
    if t["k"] != "call":
        return False
    c = Callee(t["func"])
    return c.name == "from_residual" and c.trait in ("std::ops::FromResidual", "core::ops::FromResidual")


def _straight(cfg, a, b):
    x = a
    for _ in range(4):
        if x == b:
            return True
        if len(cfg.succ[x]) != 1:
            return False
        x = cfg.succ[x][0]
    return x == b


def _diverges_only(cfg, body, bb):
    """No normal return reachable from bb."""
    seen = {bb}
    work = [bb]
    while work:
        x = work.pop()
        if body.blocks[x]["term"]["k"] == "return":
            return False
        for s_ in cfg.succ[x]:
            if s_ not in seen:
                seen.add(s_)
                work.append(s_)
    return True


def _closure_of(t):
    for s_ in subterms(t):
        if s_[0] == "agg" and s_[1] == "closure":
            return s_[2]
        if s_[0] == "closure":
            return s_[1]
    return None


# ------------------------------------------------------------------ coverage

class Cov(object):
    """Result of a coverage query."""

    def __init__(self, status, detail, sites=(), shape=None):
        self.status = status  # 'once' | 'never' | 'bad'
        self.detail = detail
        self.sites = list(sites)
        self.shape = shape    # structural skeleton for sibling comparison

    def __repr__(self):
        return "<Cov %s %s>" % (self.status, self.detail)


class Src(object):
    """The object to be covered: a base (exact term or predicate on
    (base term, BodyTerms)) plus the list of in-crate field names leading from
    the base to the object."""

    def __init__(self, base, path=()):
        self.base = base
        self.path = list(path)

    def base_ok(self, b, bt):
        if callable(self.base):
            return bool(self.base(b, bt))
        return b == self.base

    def exact(self, b, p, bt):
        return self.base_ok(b, bt) and list(p) == self.path

    def prefix(self, b, p, bt):
        """b.p is a proper-or-equal prefix of the source: returns the remaining path or None."""
        if self.base_ok(b, bt) and self.path[:len(p)] == list(p):
            return self.path[len(p):]
        return None

    def __repr__(self):
        return "Src(%s, %s)" % (self.base, self.path)


SELF = ("param", 1)

# external combinators that run a closure argument exactly once before
# returning (install, join) or exactly once asynchronously (spawn)
RUN_ONCE = set(["install", "join", "spawn", "scope", "in_place_scope"])


def is_run_once(c):
    return c.name in RUN_ONCE and (c.crate in ("rayon", "rayon_core")) and not c.local


def coverage(prog, body, src, family, start=0, region=None, ends=None, depth=0):
    """How often is a method of `family` (set of names, or predicate on Callee)
    invoked on the object selected by `src` on every normal path of `body`
    (restricted to `region` between `start` and `ends`)?

    Mechanisms: (1) a direct call whose receiver is rooted at the source;
    (2) a FULL traversal of the source whose every iteration covers the element
    exactly once (recursively); (3) the source is captured by a closure that is
    handed exactly once to a run-once combinator (install / join / spawn) and
    the closure covers its capture exactly once.  Anything else (two
    mechanisms, partial traversal, path-dependent count) is 'bad'."""
    bt = prog.bt(body)
    cfg = bt.cfg
    crate = prog.facts.crate
    fam = family if callable(family) else (lambda c: c.name in family)
    blocks = region if region is not None else cfg.reach
    direct = []
    for bb, t in body.normal_calls():
        if bb not in blocks or bb not in cfg.reach or not t["args"]:
            continue
        c = Callee(t["func"])
        if fam(c):
            args = bt.call_args(bb)
            b, p = root(args[0], bt, crate)
            if src.exact(b, p, bt):
                direct.append(bb)
    travs = []
    for tr in traversals(prog, body):
        if tr.header not in blocks:
            continue
        b, p = root(tr.source, bt, crate)
        if src.exact(b, p, bt):
            travs.append(tr)
    captures = []  # (closure body, upvar name, remaining path, [bbs of run-once calls taking it], other uses)
    for bb in sorted(blocks):
        if bb not in cfg.reach or body.blocks[bb]["cleanup"]:
            continue
        for st in body.blocks[bb]["stmts"]:
            if st["k"] != "assign" or st["rv"]["k"] != "agg" or st["rv"].get("agg") != "closure":
                continue
            agg = bt.rvalue(st["rv"])
            for name, op in zip(agg[4], agg[3]):
                b, p = root(op, bt, crate)
                rest = src.prefix(b, p, bt)
                if rest is not None:
                    clo = prog.facts.bodies.get(agg[2])
                    if clo is not None:
                        captures.append((clo, name, rest, bb))
    mechanisms = []
    if direct:
        mechanisms.append("direct")
    if travs:
        mechanisms.append("traversal")
    if captures:
        mechanisms.append("closure")
    fname = _famname(family)
    if not mechanisms:
        return Cov("never", "no %s call reaches the source in %s" % (fname, body.qname))
    if len(mechanisms) > 1:
        return Cov("bad", "source is covered by several mechanisms (%s) in %s" % (", ".join(mechanisms), body.qname), [body.loc()])
    if direct:
        cnt = cfg.count(lambda b_: b_ in direct, start=start, ends=ends, within=region)
        if cnt is None:
            return Cov("bad", "no normal path through %s" % body.qname)
        if cnt == (1, 1):
            return Cov("once", "exactly one %s call on every path" % fname, [body.loc(direct[0])],
                       shape=("call", Callee(body.blocks[direct[0]]["term"]["func"]).name))
        return Cov("bad", "%s call count on normal paths of %s is min %s / max %s (expected exactly 1)" % (
            fname, body.qname, cnt[0], "unbounded" if cnt[1] == INF else cnt[1]), [body.loc(direct[0])])
    if travs:
        if len(travs) > 1:
            return Cov("bad", "source is traversed %d times in %s" % (len(travs), body.qname), [body.loc(travs[0].header)])
        tr = travs[0]
        if not tr.full:
            return Cov("bad", "traversal of the source in %s is not full-forward: %s" % (body.qname, tr.why), [body.loc(tr.header)])
        entry_bb = tr.into_iter_bb if tr.kind == "for" and tr.into_iter_bb is not None else tr.header
        cnt = cfg.count(lambda b_: b_ == entry_bb, start=start, ends=ends, within=region)
        if cnt != (1, 1):
            return Cov("bad", "traversal in %s is entered min %s / max %s times (expected exactly 1)" % (
                body.qname, cnt and cnt[0], cnt and cnt[1]), [body.loc(tr.header)])
        if depth > 6:
            return Cov("bad", "traversal nesting too deep")
        if tr.kind == "for":
            hdr = tr.header
            # `for (i, x) in it.enumerate()`: the element is field 1 of the yielded pair
            epath = ["#1"] if (tr.iter_ty or "").startswith("std::iter::Enumerate<") else []
            sub = coverage(prog, body, Src(("elem", hdr), epath), family, start=tr.some_bb, region=set(tr.loop), ends=[hdr], depth=depth + 1)
            if sub.status == "once":
                return Cov("once", "full-forward `for`, each element: " + sub.detail, [body.loc(hdr)] + sub.sites, shape=("for", sub.shape))
            return Cov(sub.status, "per-element coverage inside loop at %s: %s" % (body.loc(hdr), sub.detail), sub.sites or [body.loc(hdr)])
        clo = tr.closure
        sub = coverage(prog, clo, Src(("param", 2)), family, depth=depth + 1)
        if sub.status == "once":
            return Cov("once", "full %s with closure, each element: %s" % (tr.consumer.name, sub.detail), [body.loc(tr.header)] + sub.sites,
                       shape=(("par_" if "rayon" in (tr.consumer.trait or "") else "") + tr.consumer.name, sub.shape))
        return Cov(sub.status, "per-element coverage inside closure %s: %s" % (clo.qname, sub.detail), sub.sites or [clo.loc()])
    # closure capture
    if len(captures) > 1:
        return Cov("bad", "source is captured by %d closures in %s" % (len(captures), body.qname), [body.loc(captures[0][3])])
    clo, name, rest, cbb = captures[0]
    takers = []
    others = []
    for bb, t in body.normal_calls():
        if bb not in blocks:
            continue
        args = bt.call_args(bb)
        for a in args:
            if _closure_of(a) == clo.key:
                c = Callee(t["func"])
                (takers if is_run_once(c) else others).append((bb, c))
    if others:
        return Cov("bad", "closure capturing the source is passed to %s (not a run-once combinator) in %s" % (
            others[0][1].short(), body.qname), [body.loc(others[0][0])])
    if not takers:
        return Cov("bad", "closure capturing the source is never run in %s" % body.qname, [body.loc(cbb)])
    tb = set(bb for bb, _ in takers)
    cnt = cfg.count(lambda b_: b_ in tb, start=start, ends=ends, within=region)
    if cnt != (1, 1):
        return Cov("bad", "closure capturing the source is run min %s / max %s times in %s" % (cnt and cnt[0], cnt and cnt[1], body.qname), [body.loc(takers[0][0])])
    sub = coverage(prog, clo, Src(("upvar", name), rest), family, depth=depth + 1)
    if sub.status == "once":
        return Cov("once", "via closure run once by %s: %s" % ("/".join(sorted(set(c.name for _, c in takers))), sub.detail),
                   [body.loc(takers[0][0])] + sub.sites, shape=("closure:" + "/".join(sorted(set(c.name for _, c in takers))), sub.shape))
    return Cov("bad" if sub.status == "bad" else "never", "inside closure %s: %s" % (clo.qname, sub.detail), sub.sites or [clo.loc()])


def _famname(family):
    if callable(family):
        return getattr(family, "__name__", "family")
    return "/".join(sorted(family))
