"""FANOUT(T, family): a lifecycle method of a system carrier must, on every
normal path, invoke exactly one method of the same family on each carrier
field (per element of a full-forward traversal for collections) and none of
another lifecycle family.  Shared by C04, C05, C12, C13, C15, C16."""
from . import anchors as A
from .facts import AnchorError, Callee
from .shapes import root, traversals
from .semcov import coverage, Src, SELF
from .cfg import INF

RUN = "RUN"
SETUP = "SETUP"
DISPOSE = "DISPOSE"

LIFECYCLE = {
    RUN: set(["run_now", "run", "execute", "execute_seq", "dispatch", "dispatch_par", "dispatch_seq",
              "dispatch_thread_local"]),
    SETUP: set(["setup"]),
    DISPOSE: set(["dispose"]),
}


def inh(facts, head, name):
    return facts.one(name=name, self_head=head, container="inherent")


def timpl(facts, trait, head, name):
    return facts.one(name=name, trait=trait, self_head=head, container="trait_impl")


def blanket(facts, trait, name):
    return facts.one(name=name, trait=trait, container="trait_impl", pred=lambda b: isinstance(b.self_head, str) and b.self_head.startswith("param:"))


def default_method(facts, trait, name):
    return facts.one(name=name, trait=trait, container="trait")


def _is_call_named(name, head=None):
    def pred(b, bt):
        if not (isinstance(b, tuple) and b and b[0] == "call"):
            return False
        c = bt.callee(b[1])
        return c.name == name and (head is None or c.self_head == head)
    return pred


def sender_parts(facts):
    """Which component of what Data::sender() returns is the channel sender and which is the state: (['#0'], ['#1']) for the
    pair, the field names for a record.  Found by type."""
    snd = facts.one(A.AD_DATA + "::sender")
    ty = snd.locals[0]["ty"]
    comps = []
    if ty.startswith("("):
        depth = 0
        cur = ""
        for ch in ty[1:-1]:
            if ch in "<([":
                depth += 1
            elif ch in ">)]":
                depth -= 1
            if ch == "," and depth == 0:
                comps.append(cur.strip())
                cur = ""
            else:
                cur += ch
        if cur.strip():
            comps.append(cur.strip())
        comps = [("#%d" % i, c) for i, c in enumerate(comps)]
    else:
        head = ty.split("<", 1)[0]
        adt = facts.adts.get(head)
        if adt is None or len(adt["variants"]) != 1:
            raise AnchorError("Data::sender returns %s: neither a tuple nor a record of the crate" % ty)
        comps = [(f["name"], f["ty"]) for f in adt["variants"][0]["fields"]]
    tx = [n for n, c in comps if "mpsc::Sender<" in c]
    st = [n for n, c in comps if c.split("<", 1)[0] == A.AD_INNER]
    if len(tx) != 1 or len(st) != 1:
        raise AnchorError("Data::sender returns %s: expected one channel sender and one state" % ty)
    return [tx[0]], [st[0]]


def table(facts, parallel):
    """List of (family, id, body, [(label, Src, names, expect)])."""
    T = []
    once, never = "once", "never"

    def add(family, ident, body, checks):
        T.append((family, ident, body, checks))

    # anchors are resolved per entry: a missing one is reported for that entry only
    class _Missing(object):
        def __init__(self, msg):
            self.msg = msg

    def _lazy(fn):
        def wrapped(*a, **kw):
            try:
                return fn(*a, **kw)
            except AnchorError as e:
                return _Missing(str(e))
        return wrapped
    inh = _lazy(globals()["inh"])
    timpl = _lazy(globals()["timpl"])
    blanket = _lazy(globals()["blanket"])

    # ---------------- RUN
    add(RUN, "Stage::execute_seq", inh(facts, A.STAGE, "execute_seq"), [("groups", Src(SELF, ["groups"]), {"run_now"}, once)])
    if parallel:
        add(RUN, "Stage::execute", inh(facts, A.STAGE, "execute"), [("groups", Src(SELF, ["groups"]), {"run_now"}, once)])
        add(RUN, "SendDispatcher::dispatch_par", inh(facts, A.SD, "dispatch_par"), [("stages", Src(SELF, ["stages"]), {"execute"}, once)])
        add(RUN, "Dispatcher::dispatch_par", inh(facts, A.DISP, "dispatch_par"), [
            ("inner", Src(SELF, ["inner"]), {"dispatch_par"}, once),
            ("thread_local", Src(SELF, ["thread_local"]), LIFECYCLE[RUN], never)])
    add(RUN, "SendDispatcher::dispatch", inh(facts, A.SD, "dispatch"), [
        ("self", Src(SELF, []), {"dispatch_par"} if parallel else {"dispatch_seq"}, once)])
    add(RUN, "SendDispatcher::dispatch_seq", inh(facts, A.SD, "dispatch_seq"), [("stages", Src(SELF, ["stages"]), {"execute_seq"}, once)])
    add(RUN, "<SendDispatcher as RunNow>::run_now", timpl(facts, A.T_RUNNOW, A.SD, "run_now"), [("self", Src(SELF, []), {"dispatch"}, once)])
    add(RUN, "Dispatcher::dispatch", inh(facts, A.DISP, "dispatch"), [
        ("inner", Src(SELF, ["inner"]), {"dispatch"}, once),
        # whether through dispatch_thread_local or in place: every thread-local system is run once
        ("thread_local", Src(SELF, ["thread_local"]), {"run_now"}, once, ("dispatch_thread_local",))])
    add(RUN, "Dispatcher::dispatch_seq", inh(facts, A.DISP, "dispatch_seq"), [
        ("inner", Src(SELF, ["inner"]), {"dispatch_seq"}, once),
        ("thread_local", Src(SELF, ["thread_local"]), LIFECYCLE[RUN], never)])
    add(RUN, "Dispatcher::dispatch_thread_local", inh(facts, A.DISP, "dispatch_thread_local"), [
        ("thread_local", Src(SELF, ["thread_local"]), {"run_now"}, once),
        ("inner", Src(SELF, ["inner"]), LIFECYCLE[RUN], never)])
    add(RUN, "<Dispatcher as RunNow>::run_now", timpl(facts, A.T_RUNNOW, A.DISP, "run_now"), [("self", Src(SELF, []), {"dispatch"}, once)])
    add(RUN, "<BatchControllerSystem as System>::run", timpl(facts, A.T_SYSTEM, A.BCS, "run"), [
        ("controller", Src(SELF, ["controller"]), {"run"}, once)])
    add(RUN, "<T as RunNow>::run_now", blanket(facts, A.T_RUNNOW, "run_now"), [("self", Src(SELF, []), {"run"}, once)])
    if parallel:
        add(RUN, "AsyncDispatcher::dispatch", inh(facts, A.AD, "dispatch"), [
            ("stages", Src(_is_call_named("sender"), sender_parts(facts)[1] + ["stages"]), {"execute"}, once),
            ("thread_local", Src(SELF, ["thread_local"]), LIFECYCLE[RUN], never)])
        add(RUN, "AsyncDispatcher::wait", inh(facts, A.AD, "wait"), [("thread_local", Src(SELF, ["thread_local"]), {"run_now"}, once)])
        add(RUN, "ParSeq::dispatch", inh(facts, A.PARSEQ, "dispatch"), [("run", Src(SELF, ["run"]), {"run"}, once)])
        add(RUN, "<ParSeq as RunNow>::run_now", timpl(facts, A.T_RUNNOW, A.PARSEQ, "run_now"), [("run", Src(SELF, ["run"]), {"run"}, once)])
        add(RUN, "<Par as RunWithPool>::run", timpl(facts, A.T_RUNWITHPOOL, A.PAR, "run"), [
            ("head", Src(SELF, ["head"]), {"run"}, once), ("tail", Src(SELF, ["tail"]), {"run"}, once)])
        add(RUN, "<Seq as RunWithPool>::run", timpl(facts, A.T_RUNWITHPOOL, A.SEQ, "run"), [
            ("head", Src(SELF, ["head"]), {"run"}, once), ("tail", Src(SELF, ["tail"]), {"run"}, once)])
        add(RUN, "<T as RunWithPool>::run", blanket(facts, A.T_RUNWITHPOOL, "run"), [("self", Src(SELF, []), {"run_now"}, once)])

    # ---------------- SETUP
    add(SETUP, "Stage::setup", inh(facts, A.STAGE, "setup"), [("groups", Src(SELF, ["groups"]), {"setup"}, once)])
    add(SETUP, "SendDispatcher::setup", inh(facts, A.SD, "setup"), [("stages", Src(SELF, ["stages"]), {"setup"}, once)])
    add(SETUP, "<SendDispatcher as RunNow>::setup", timpl(facts, A.T_RUNNOW, A.SD, "setup"), [("self", Src(SELF, []), {"setup"}, once)])
    add(SETUP, "Dispatcher::setup", inh(facts, A.DISP, "setup"), [
        ("inner", Src(SELF, ["inner"]), {"setup"}, once), ("thread_local", Src(SELF, ["thread_local"]), {"setup"}, once)])
    add(SETUP, "<Dispatcher as RunNow>::setup", timpl(facts, A.T_RUNNOW, A.DISP, "setup"), [("self", Src(SELF, []), {"setup"}, once)])
    add(SETUP, "<BatchControllerSystem as System>::setup", timpl(facts, A.T_SYSTEM, A.BCS, "setup"), [
        ("dispatcher", Src(SELF, ["dispatcher"]), {"setup"}, once)])
    add(SETUP, "<T as RunNow>::setup", blanket(facts, A.T_RUNNOW, "setup"), [("self", Src(SELF, []), {"setup"}, once)])
    if parallel:
        add(SETUP, "AsyncDispatcher::setup", inh(facts, A.AD, "setup"), [
            ("stages", Src(_is_call_named("inner"), ["stages"]), {"setup"}, once),
            ("thread_local", Src(SELF, ["thread_local"]), {"setup"}, once)])
        add(SETUP, "ParSeq::setup", inh(facts, A.PARSEQ, "setup"), [("run", Src(SELF, ["run"]), {"setup"}, once)])
        add(SETUP, "<ParSeq as RunNow>::setup", timpl(facts, A.T_RUNNOW, A.PARSEQ, "setup"), [("run", Src(SELF, ["run"]), {"setup"}, once)])
        add(SETUP, "<Par as RunWithPool>::setup", timpl(facts, A.T_RUNWITHPOOL, A.PAR, "setup"), [
            ("head", Src(SELF, ["head"]), {"setup"}, once), ("tail", Src(SELF, ["tail"]), {"setup"}, once)])
        add(SETUP, "<Seq as RunWithPool>::setup", timpl(facts, A.T_RUNWITHPOOL, A.SEQ, "setup"), [
            ("head", Src(SELF, ["head"]), {"setup"}, once), ("tail", Src(SELF, ["tail"]), {"setup"}, once)])
        add(SETUP, "<T as RunWithPool>::setup", blanket(facts, A.T_RUNWITHPOOL, "setup"), [("self", Src(SELF, []), {"setup"}, once)])

    # ---------------- DISPOSE
    add(DISPOSE, "Stage::dispose", inh(facts, A.STAGE, "dispose"), [("groups", Src(SELF, ["groups"]), {"dispose"}, once)])
    add(DISPOSE, "SendDispatcher::dispose", inh(facts, A.SD, "dispose"), [("stages", Src(SELF, ["stages"]), {"dispose"}, once)])
    add(DISPOSE, "<SendDispatcher as RunNow>::dispose", timpl(facts, A.T_RUNNOW, A.SD, "dispose"), [("self", Src(SELF, []), {"dispose"}, once)])
    add(DISPOSE, "Dispatcher::dispose", inh(facts, A.DISP, "dispose"), [
        ("inner", Src(SELF, ["inner"]), {"dispose"}, once), ("thread_local", Src(SELF, ["thread_local"]), {"dispose"}, once)])
    add(DISPOSE, "<Dispatcher as RunNow>::dispose", timpl(facts, A.T_RUNNOW, A.DISP, "dispose"), [("self", Src(SELF, []), {"dispose"}, once)])
    add(DISPOSE, "<T as RunNow>::dispose", blanket(facts, A.T_RUNNOW, "dispose"), [("self", Src(SELF, []), {"dispose"}, once)])
    bd = facts.maybe(name="dispose", trait=A.T_SYSTEM, self_head=A.BCS, container="trait_impl")
    if bd is not None:  # its absence is reported by lifecycle_siblings
        add(DISPOSE, "<BatchControllerSystem as System>::dispose", bd, [("dispatcher", Src(SELF, ["dispatcher"]), {"dispose"}, once)])
    return T


def check_family(ctx, report, rule, facts, config, families, only=None):
    """Evaluate the FANOUT table for the given families.  `only`: optional
    predicate on the entry id."""
    prog = ctx.program(facts)
    parallel = ctx.parallel(config)
    try:
        tab = table(facts, parallel)
    except AnchorError as e:
        report.ob(rule, "ANCHOR", False, str(e), config=config)
        return 0
    n = 0
    for family, ident, body, checks in tab:
        if family not in families:
            continue
        if only is not None and not only(ident):
            continue
        if not hasattr(body, "blocks"):
            report.ob(rule, "%s/%s/ANCHOR" % (family, ident), False, "anchor not found: %s" % getattr(body, "msg", body), config=config)
            continue
        report.touched(body, config)
        _forwarded_args(prog, report, rule, "%s/%s" % (family, ident), body, config)
        for chk in checks:
            label, src, names, expect = chk[:4]
            inline = chk[4] if len(chk) > 4 else ()
            fam = _family_pred(names, body)
            # a sibling method called on the object as a whole (`run_now` -> `self.dispatch(..)`) is looked into, unless it
            # is the very call the entry asks for
            keep = (set(names) if (src.base == SELF and not src.path) else set()) if not callable(names) else None
            cov = coverage(prog, body, src, fam, inline=inline, keep=keep)
            inst = "%s/%s/%s" % (family, ident, label)
            ok = cov.status == expect
            site = cov.sites[0] if cov.sites else body.loc()
            report.ob(rule, inst, ok, "expected %s of {%s} on %s: %s" % (
                "exactly one call" if expect == "once" else "no call", ",".join(sorted(names)), label, cov.detail), site=site, config=config)
            n += 1
            # no call of another lifecycle family on the same object
            if expect == "once":
                for other, onames in sorted(LIFECYCLE.items()):
                    if other == family:
                        continue
                    oc = coverage(prog, body, src, _family_pred(onames - names, body), inline=inline, vacuous=False, keep=keep)
                    if oc.status != "never":
                        report.ob(rule, inst + "/no-" + other, False,
                                  "a %s-family method is invoked on %s inside a %s-family method: %s" % (other, label, family, oc.detail),
                                  site=oc.sites[0] if oc.sites else body.loc(), config=config)
    return n


KNOWN_CARRIERS = None   # filled by carrier_fields()


def carrier_fields():
    return {
        A.STAGE: ["groups"],
        A.SD: ["stages"],
        A.DISP: ["inner", "thread_local"],
        A.BCS: ["controller", "dispatcher"],
        A.MD: ["controller"],
        A.AD: ["thread_local"],
        A.AD_INNER: ["stages"],
        A.PAR: ["head", "tail"],
        A.SEQ: ["head", "tail"],
        A.PARSEQ: ["run"],
    }


LIFECYCLE_TRAITS = (A.T_SYSTEM, A.T_RUNNOW, A.T_RUNWITHPOOL, A.T_BATCHCTRL)


def _holds_systems(ty, heads):
    return A.T_RUNNOW in ty or any((c + "<") in ty or ty == c or (c + ">") in ty or ty.endswith(c) or (c + ",") in ty for c in heads)


def found_carriers(facts):
    """Types of the crate outside the audited table that take part in a lifecycle (they implement System / RunNow / RunWithPool /
    BatchController) and keep systems or another carrier in a field: {type: [fields]}.  They owe what the audited ones owe."""
    known = carrier_fields()
    heads = set(known)
    out = {}
    for im in facts.impls:
        head = im.get("self_head")
        if im.get("trait") not in LIFECYCLE_TRAITS or not isinstance(head, str) or head in known or head not in facts.adts:
            continue
        fls = []
        for v in facts.adts[head]["variants"]:
            for f in v["fields"]:
                ty = f["ty"]
                if ty.startswith("&") and not ty.startswith("&mut") and " mut " not in ty.split("<", 1)[0]:
                    continue
                hd = f.get("head")
                params = [g["name"] for g in im.get("generics", []) if g.get("kind") == "ty"]
                inside = [g for g in params if __import__("re").search(r"(^|[<\[(, &])%s($|[>\]), ;])" % __import__("re").escape(g), ty)]
                bounded = [g for g in inside if any((": " + t + "<") in p_ or p_.endswith(": " + t) for p_ in im.get("preds", []) if p_.split(":", 1)[0].split()[-1] == g for t in LIFECYCLE_TRAITS)]
                generic = bool(bounded) or isinstance(hd, str) and hd.startswith("param:") and any(
                    (": " + t + "<") in p_ or p_.endswith(": " + t) for p_ in im.get("preds", []) if p_.split(":", 1)[0].split()[-1] == hd[6:] for t in LIFECYCLE_TRAITS)
                if (_holds_systems(ty, heads) or generic) and f["name"] not in fls:
                    fls.append(f["name"])
        if fls:
            out[head] = sorted(set(out.get(head, []) + fls))
    return out


def all_carriers(facts):
    c = dict(carrier_fields())
    c.update(found_carriers(facts))
    return c


def carrier_paths(facts, head, depth=3):
    """Field paths from a carrier type to the carrier fields it holds, directly or through another carrier held by value."""
    carriers = all_carriers(facts)
    out = []
    adt = facts.adts.get(head)
    for fl in carriers.get(head, []):
        out.append([fl])
        if adt is None or depth <= 1:
            continue
        ty = ""
        for v in adt["variants"]:
            for f in v["fields"]:
                if f["name"] == fl:
                    ty = f["ty"]
        inner = ty.split("<", 1)[0]
        if inner in carriers and inner != head:
            out.extend([fl] + p for p in carrier_paths(facts, inner, depth - 1))
    return out


def unlisted(ctx, report, rule, facts, config, families, only=None):
    """Methods of a carrier that are not in the FANOUT table (a new dispatch variant, a helper that runs part of a stage) but
    hand the carrier's systems to a lifecycle family: whatever they are called, on each carrier field they touch that way they
    owe the same thing as the listed ones - on every way through, every element exactly once or none at all (what the method
    is for decides on which ways; a part of the elements, or one twice, is right for no purpose)."""
    prog = ctx.program(facts)
    parallel = ctx.parallel(config)
    try:
        tab = table(facts, parallel)
    except AnchorError:
        return      # reported by check_family
    listed = set(body.key for _, _, body, _ in tab if hasattr(body, "blocks"))
    carriers = all_carriers(facts)

    def root_of(b):
        return facts.bodies.get(b.root_key, b) if b.is_closure and b.root_key else b

    n = 0
    for family in families:
        names = LIFECYCLE[family]
        member = set()
        changed = True
        while changed:
            changed = False
            for b in facts.bodies.values():
                r = root_of(b)
                if r.key in member or not isinstance(r.self_head, str) or r.self_head not in carriers or r.key in listed:
                    continue
                for bb, t in b.normal_calls():
                    c = Callee(t["func"])
                    if c.key == r.key or c.resolved_key == r.key:
                        continue
                    if (c.name in names and (c.trait in (A.T_RUNNOW, A.T_SYSTEM, A.T_RUNWITHPOOL, A.T_BATCHCTRL) or (isinstance(c.self_head, str) and c.self_head in carriers))) or c.key in member or c.resolved_key in member:
                        member.add(r.key)
                        changed = True
                        break

        # helpers (not API, called from within the crate) are looked into where they are called; what is held to the rule
        # itself is what a user, or a trait object, can invoke
        callers_ = facts.callers()
        checked = set(k for k in member if facts.bodies[k].api or facts.bodies[k].container == "trait_impl" or not callers_.get(k))
        member_names = sorted(set(facts.bodies[k].name for k in checked))
        for k in sorted(checked):
            r = facts.bodies[k]
            if r.container == "trait" or (only is not None and not only(r)):
                continue

            def fam(c, r=r):
                if c.key == r.key or c.resolved_key == r.key:
                    return False
                return c.name in names or c.key in checked or c.resolved_key in checked
            fam.__name__ = "/".join(sorted(names))
            report.touched(r, config)
            from . import semq as Q
            from .semcov import evaluate
            # siblings of the table called on the object as a whole (`self.dispatch_par(w); self.dispatch_thread_local(w)`) are
            # looked into; other unlisted methods called that way are held to the rule themselves: delegation
            try:
                ev, ends = evaluate(prog, r, member_names, (), set())
            except Exception as e:
                report.ob(rule, "%s/%s/receivers" % (family, r.qname), False, "%s could not be evaluated (%s)" % (r.qname, e), site=r.loc(), config=config)
                continue
            _forwarded_args(prog, report, rule, "%s/%s" % (family, r.qname), r, config, member_names)
            delegated = False
            own = []
            for e in ends:
                if e.kind != "return":
                    continue
                for x in Q.calls_in(e.path.events, fam, deep=True):
                    if not x[3]:
                        continue
                    if Q.strip(ev, x[3][0]) == ("param", 1) and (x[2].key in checked or x[2].resolved_key in checked):
                        delegated = True
                    elif not all(o[0] == "param" and o[1] != 1 for o in Q.origins(ev, x[3][0])):
                        own.append(x)
            statuses = []
            for path in carrier_paths(facts, r.self_head):
                fl = ".".join(path)
                n += 1
                cov = coverage(prog, r, Src(SELF, path), fam, vacuous=True, extra_opaque=member_names, keep=set())
                statuses.append(cov.status)
                ok = cov.status in ("once", "never", "some")
                if family == DISPOSE and len(path) == 1 and cov.status == "never" and not delegated and not r.locals[1]["ty"].startswith("&"):
                    # it consumes the carrier: what it does not hand to dispose is dropped without its hook ever running
                    ok = False
                report.ob(rule, "%s/%s/%s" % (family, r.qname, fl), ok,
                          ("not in the table of lifecycle methods; %s" % cov.detail) if ok else
                          "%s is not a listed lifecycle method, yet hands the systems in `%s` to the %s family, and not each exactly once: %s" % (r.qname, fl, family, cov.detail),
                          site=(cov.sites[0] if cov.sites else r.loc()), config=config)
            if statuses and all(st == "never" for st in statuses):
                # it does call the family, yet on no carrier field as a whole: on what, then?  Fine if on something it was
                # handed (a dispatcher passed in by the caller) or on itself as a whole through another method held to this
                # rule; anything of its own it runs piecemeal is not
                report.ob(rule, "%s/%s/receivers" % (family, r.qname), not own,
                          "family calls only on what the caller handed in, or on the object as a whole" if not own else
                          "%s hands part of what it holds to %s (%s) without a complete traversal of a carrier field" % (r.qname, own[0][2].name, ev.loc(own[0][1])),
                          site=(ev.loc(own[0][1]) if own else r.loc()), config=config)
    report.ob(rule, "UNLISTED/inventory", True, "%d (unlisted carrier method, field) pair(s) held to all-or-nothing coverage" % n, config=config)


ALL_LIFECYCLE = LIFECYCLE[RUN] | LIFECYCLE[SETUP] | LIFECYCLE[DISPOSE]


def _forwarded_args(prog, report, rule, inst, body, config, extra_opaque=()):
    """What a lifecycle method hands to the lifecycle methods it calls - the world, the pool - is what it was handed itself or
    what it keeps: an argument made from nothing (a fresh `World::empty()`) runs the systems against something else."""
    from . import semq as Q
    from .semcov import evaluate
    try:
        ev, ends = evaluate(prog, body, extra_opaque)
    except Exception:
        return      # reported by the coverage obligations of the same method
    bad = []
    for e in ends:
        if e.kind != "return":
            continue
        for x in Q.calls_in(e.path.events, lambda c: c.name in ALL_LIFECYCLE and (c.local or c.trait in LIFECYCLE_TRAITS), deep=True):
            for i, a in enumerate(x[3][1:], 1):
                if not Q.origins(ev, a) and not (isinstance(a, tuple) and a and a[0] in ("int", "unit", "fnref")):
                    bad.append((x[2].name, i, ev.loc(x[1])))
    report.ob(rule, inst + "/arguments", not bad, "what is handed on to the lifecycle calls comes from the method's own arguments or fields" if not bad else
              "argument %d of `%s` (%s) is made from nothing - not the caller's world / pool, nor anything the carrier keeps" % (bad[0][1], bad[0][0], bad[0][2]),
              site=(bad[0][2] if bad else body.loc()), config=config)


def _family_pred(names, body):
    def fam(c):
        if c.name not in names:
            return False
        # a call that resolves to the very body being checked is recursion, not delegation
        if c.key == body.key or c.resolved_key == body.key:
            return False
        return True
    fam.__name__ = "/".join(sorted(names))
    return fam


def carrier_inventory(ctx, report, rule, facts, config):
    """Every field of an in-crate ADT that can hold systems must be known to
    the FANOUT table (fail closed on a new carrier field)."""
    known = {
        A.STAGE: ["groups"],
        A.SD: ["stages"],
        A.DISP: ["inner", "thread_local"],
        A.BCS: ["controller", "dispatcher"],
        A.MD: ["controller"],
        A.SB: ["stages"],
        A.DB: ["stages_builder", "thread_local"],
        A.AD: ["data", "thread_local"],
        A.AD_DATA: ["0"],
        A.AD_INNER: ["stages"],
        A.PAR: ["head", "tail"],
        A.SEQ: ["head", "tail"],
        A.PARSEQ: ["run"],
    }
    carriers = set(known)
    found = found_carriers(facts)
    marks = ["RunNow<", "RunNow ", "RunNow+", "dyn for<'a> " + A.T_RUNNOW]
    n = 0
    # a private record that no other type of the crate stores (what a function hands to its caller and is taken apart
    # there) keeps no system anywhere: it is not a place where one could be forgotten
    stored = set()
    for path2, adt2 in facts.adts.items():
        for v2 in adt2["variants"]:
            for f2 in v2["fields"]:
                for path3 in facts.adts:
                    if path3 != path2 and (path3 + "<" in f2["ty"] or f2["ty"] == path3 or f2["ty"].endswith(path3) or (path3 + ">") in f2["ty"] or (path3 + ",") in f2["ty"]):
                        stored.add(path3)
    for path, adt in sorted(facts.adts.items()):
        if path in found:
            n += len(found[path])
            report.ob(rule, "CARRIER/%s" % path, True, "not in the audited table; it implements a lifecycle trait and keeps systems in %s: its lifecycle methods are held to "
                      "all-or-nothing coverage (UNLISTED) and to the sibling rule" % found[path], site="%s:%d" % (adt["span"]["file"], adt["span"]["line"]), config=config)
            continue
        if path not in known and path not in stored and not adt.get("pub") and str(adt.get("kind", "")).lower() == "struct":
            continue
        for v in adt["variants"]:
            for f in v["fields"]:
                ty = f["ty"]
                if ty.startswith("&") and not ty.startswith("&mut") and not ty.startswith("&'static mut") and " mut " not in ty.split("<", 1)[0]:
                    continue    # a shared reference to a carrier owns no system and cannot change one
                holds = A.T_RUNNOW in ty or any((c + "<") in ty or ty == c or (c + ">") in ty or ty.endswith(c) for c in carriers)
                if path in known and f["name"] in known[path]:
                    n += 1
                    continue
                if holds:
                    report.ob(rule, "CARRIER/%s.%s" % (path, f["name"]), False,
                              "field of type %s can hold systems but is not covered by the FANOUT table" % ty,
                              site="%s:%d" % (adt["span"]["file"], adt["span"]["line"]), config=config)
    report.ob(rule, "CARRIER/inventory", True, "%d known carrier fields present" % n, config=config)
    for path, fields in sorted(known.items()):
        if path not in facts.adts:
            if not ctx.parallel(config) and path in (A.AD, A.AD_DATA, A.AD_INNER, A.PAR, A.SEQ, A.PARSEQ):
                continue
            report.ob(rule, "ANCHOR", False, "carrier ADT %s not found" % path, config=config)
            continue
        have = [f["name"] for v in facts.adts[path]["variants"] for f in v["fields"]]
        for fl in fields:
            if fl not in have:
                report.ob(rule, "ANCHOR", False, "carrier field %s.%s not found" % (path, fl), config=config)


def lifecycle_siblings(ctx, report, rule, facts, config, exceptions=None):
    """A System/RunNow impl on a carrier type that overrides one lifecycle
    method forwarding to a carrier field must not inherit the no-op default of
    another one."""
    exceptions = exceptions or {}
    carriers = {A.BCS: "dispatcher", A.SD: "stages", A.DISP: "inner", A.PARSEQ: "run", A.STAGE: "groups"}
    for head_, fls_ in found_carriers(facts).items():
        carriers[head_] = fls_[0]
    n = 0
    for im in facts.impls:
        tr = im.get("trait")
        if tr not in (A.T_SYSTEM, A.T_RUNNOW):
            continue
        head = im.get("self_head")
        if head not in carriers:
            continue
        n += 1
        inherited = set(im.get("inherited_defaults", []))
        defined = set(im.get("items", []))
        site = "%s:%d" % (im["span"]["file"], im["span"]["line"])
        for m in ("setup", "dispose"):
            inst = "SIBLING/%s as %s/%s" % (head.rsplit("::", 1)[1], tr.rsplit("::", 1)[1], m)
            if (head, tr, m) in exceptions:
                report.ob(rule, inst, True, "documented exception: " + exceptions[(head, tr, m)], site=site, config=config)
                continue
            bad = m in inherited and (("setup" in defined) or ("run" in defined) or ("run_now" in defined))
            report.ob(rule, inst, not bad,
                      "impl overrides %s but inherits the no-op default `%s`: the systems held in field `%s` are never handed to their %s hook" % (
                          "/".join(sorted(defined & set(["run", "run_now", "setup", "dispose"]))), m, carriers[head], m) if bad
                      else "`%s` is overridden" % m, site=site, config=config)
    report.floor(rule, "carrier System/RunNow impls", n, 4 if ctx.parallel(config) else 3, config=config)
