"""Rules about the thread pool, locks, panics and the async typestate
(C11, C14, C15)."""
from . import anchors as A
from . import shared as S
from . import inventory as I
from . import fanout as F
from .facts import Callee, AnchorError
from .paths import enumerate_paths
from .shapes import root, traversals
from .semcov import coverage, Src, SELF

GUARDS = {
    A.FETCH: ("inner", "atomic_refcell::AtomicRef<"),
    A.FETCHMUT: ("inner", "atomic_refcell::AtomicRefMut<"),
    A.READ: ("inner", A.FETCH + "<"),
    A.WRITE: ("inner", A.FETCHMUT + "<"),
}
GUARD_MARKS = ("AtomicRef<", "AtomicRefMut<", A.FETCH + "<", A.FETCHMUT + "<", A.READ + "<", A.WRITE + "<", "AtomicRef::", "AtomicRefMut::",
               "shred::Fetch<", "shred::FetchMut<", "shred::Read<", "shred::Write<")


# ------------------------------------------------------------------ shared: RELEASE

def guard_leaks(body):
    out = []
    for bb, c in I.marked_calls(body, I.LEAK_MARKS):
        t = body.blocks[bb]["term"]
        tys = " ".join(a.get("place", {}).get("ty", "") for a in t["args"]) + " " + c.inst_path
        if any(g in tys for g in GUARD_MARKS):
            out.append((bb, c))
    return out


LAUNDER_CALLS = set(["transmute", "transmute_copy", "as_ref", "as_mut", "as_ref_unchecked", "as_mut_unchecked", "as_uninit_ref", "as_uninit_mut",
                     "from_raw_parts", "from_raw_parts_mut", "from_ref", "from_mut", "read", "read_unaligned", "read_volatile"])


def _is_ptr(ty):
    return ty.startswith("*const ") or ty.startswith("*mut ") or ty.startswith("std::ptr::NonNull<")


def _is_ref(ty):
    return ty.startswith("&")


def _flow(body, seed):
    """Locals of the body that carry a value, a reference or a raw pointer derived from a seed local (copies, borrows of any
    part, casts, and results of calls that were handed one and return a reference / pointer / guard)."""
    locs = body.raw["locals"]
    derived = set(i for i in range(len(locs)) if seed(i, locs[i]["ty"]))
    boxptr = set()      # raw pointers taken out of a Box (the lowering of `*boxed`): owned storage, not a borrow being re-made

    def reads(rv):
        for k in ("op", "a", "b"):
            o = rv.get(k)
            if isinstance(o, dict) and "place" in o:
                yield o["place"]
        for o in rv.get("ops", []):
            if isinstance(o, dict) and "place" in o:
                yield o["place"]
        if "place" in rv:
            yield rv["place"]

    changed = True
    while changed:
        changed = False
        for blk in body.blocks:
            for st in blk["stmts"]:
                if st["k"] != "assign":
                    continue
                d = st["place"]["l"]
                for pl in reads(st["rv"]):
                    if st["rv"]["k"] == "cast" and locs[pl["l"]]["ty"].startswith("std::boxed::Box<") and _is_ptr(locs[d]["ty"]):
                        boxptr.add(d)
                    if (pl["l"] in derived or any(g in pl.get("ty", "") for g in GUARD_MARKS)) and d not in derived:
                        derived.add(d)
                        changed = True
            t = blk["term"]
            if t["k"] == "call" and t.get("dest"):
                d = t["dest"]["l"]
                dty = locs[d]["ty"]
                if d not in derived and (_is_ref(dty) or _is_ptr(dty) or any(g in dty for g in GUARD_MARKS) or dty.startswith("std::option::Option<&")):
                    if any("place" in a and a["place"]["l"] in derived for a in t["args"]):
                        derived.add(d)
                        changed = True
    return derived, boxptr


def _remade(body, derived, boxptr):
    """Sites of the body where a reference is made anew - from a raw pointer or by transmutation - out of a derived value: from
    there on the borrow checker no longer ties the reference to what it was derived from."""
    locs = body.raw["locals"]
    out = []
    for bb, blk in enumerate(body.blocks):
        if blk["cleanup"]:
            continue
        for st in blk["stmts"]:
            if st["k"] != "assign":
                continue
            rv = st["rv"]
            if rv["k"] == "ref":
                pl = rv["place"]
                if pl["p"] and pl["p"][0]["k"] == "deref" and _is_ptr(locs[pl["l"]]["ty"]) and pl["l"] in derived and pl["l"] not in boxptr:
                    out.append((bb, "&*(raw pointer)"))
            elif rv["k"] == "cast" and rv["kind"].startswith("Transmute") and _is_ref(rv["ty"]):
                o = rv["op"]
                if "place" in o and o["place"]["l"] in derived:
                    out.append((bb, "transmute to %s" % rv["ty"]))
        t = blk["term"]
        if t["k"] == "call" and t.get("dest"):
            c = Callee(t["func"])
            dty = locs[t["dest"]["l"]]["ty"]
            if not c.local and c.name in LAUNDER_CALLS and ("ptr" in c.path or "mem::" in c.path or "intrinsics" in c.path or "slice::" in c.path) \
                    and (_is_ref(dty) or "Option<&" in dty or any(g in dty for g in GUARD_MARKS)) \
                    and any("place" in a and a["place"]["l"] in derived for a in t["args"]):
                out.append((bb, c.short()))
    return out


def _unbound_output(sig):
    """Does the signature name a lifetime in its result that no argument carries (so the caller picks it freely)?"""
    import re
    if not sig or "->" not in sig:
        return False
    head, res = sig.rsplit("->", 1)
    ins = set(re.findall(r"'[a-z_][a-z0-9_]*", head.split("fn(", 1)[-1]))
    outs = set(re.findall(r"'[a-z_][a-z0-9_]*", res)) - set(["'static", "'_"])
    return bool(outs - ins)


def guard_launder(facts):
    """(body, block, how) for every place of the crate where a reference to what a borrow guard protects is re-made through a raw
    pointer, a transmutation, or a helper of the crate that does so for its argument: such a reference can outlive the guard."""
    launderers = {}
    for b in facts.bodies.values():
        if b.is_closure or not _unbound_output(b.raw.get("sig")):
            continue
        n = b.raw.get("arg_count", 0)
        der, bx = _flow(b, lambda i, ty: 1 <= i <= n and (_is_ref(ty) or _is_ptr(ty)))
        if _remade(b, der, bx):
            launderers[b.key] = b
    out = []
    n_bodies = 0
    for b in sorted(facts.bodies.values(), key=lambda b: b.key):
        der, bx = _flow(b, lambda i, ty: any(g in ty for g in GUARD_MARKS))
        if not der:
            continue
        n_bodies += 1
        for bb, how in _remade(b, der, bx):
            out.append((b, bb, how))
        for bb, t in b.normal_calls():
            c = Callee(t["func"])
            if c.local and c.key in launderers and any("place" in a and a["place"]["l"] in der for a in t["args"]):
                out.append((b, bb, "%s, whose result lifetime is not tied to its argument" % c.short()))
    return out, n_bodies


def release(ctx, report, rule, facts, config):
    """Guards own their borrow, have no Drop impl of their own, and are never leaked."""
    for path, (fld, want) in sorted(GUARDS.items()):
        f = facts.adt_field(path, fld)
        report.ob(rule, "owns/%s" % path.rsplit("::", 1)[1], f["ty"].startswith(want), "%s.%s: %s" % (path.rsplit("::", 1)[1], fld, f["ty"][:80]),
                  site="%s:%d" % (facts.adts[path]["span"]["file"], facts.adts[path]["span"]["line"]), config=config)
    drops = [im for im in facts.impls if im.get("trait") in ("std::ops::Drop", "core::ops::Drop") and im.get("self_head") in GUARDS]
    report.ob(rule, "no-custom-drop", not drops, "no Drop impl on Fetch/FetchMut/Read/Write (release is the cell guard's own Drop)" if not drops else
              "custom Drop impl on %s" % drops[0]["self_ty"], site=("%s:%d" % (drops[0]["span"]["file"], drops[0]["span"]["line"])) if drops else None, config=config)
    n = 0
    for b in sorted(facts.bodies.values(), key=lambda b: b.key):
        for bb, c in guard_leaks(b):
            n += 1
            report.ob(rule, "leak/%s" % b.qname, False, "a borrow guard is leaked through %s: the resource stays borrowed forever" % c.short(), site=b.loc(bb), config=config)
    report.ob(rule, "no-guard-leak", n == 0, "no mem::forget / ManuallyDrop / leak / into_raw on a guard type in the crate", config=config)
    hits, n_bodies = guard_launder(facts)
    for b, bb, how in hits:
        report.ob(rule, "outlive/%s" % b.qname, False, "a reference to guarded data is re-made through %s: it is no longer tied to the guard and can outlive the borrow it stands for" % how, site=b.loc(bb), config=config)
    report.ob(rule, "no-reference-outlives-guard", not hits, ("no reference derived from a borrow guard is re-made through a raw pointer or a transmutation (%d bodies handle guards)" % n_bodies) if not hits else
              "%d site(s) re-make a reference to guarded data outside the borrow checker's view" % len(hits), config=config)
    report.floor(rule, "bodies handling borrow guards", n_bodies, 20, config=config)


# ------------------------------------------------------------------ C14

def run_cone(ctx, facts, config):
    """Everything that can execute while systems are being set up, run, waited for or disposed: the call cone of the
    lifecycle methods of every carrier of systems."""
    roots = [b for b in facts.bodies.values() if not b.is_closure and b.name in F.LIFECYCLE[F.RUN] | set(["wait", "wait_without_tl", "setup", "dispose", "run_now", "run"])
             and (b.self_head in (A.SD, A.DISP, A.AD, A.STAGE, A.PARSEQ, A.BCS, A.MD, A.PAR, A.SEQ) or b.trait in (A.T_RUNNOW, A.T_SYSTEM, A.T_RUNWITHPOOL, A.T_BATCHCTRL))]
    return facts.cone(roots)


def noswallow(ctx, report, rule, facts, config):
    """Nothing between a system and the caller of dispatch catches, replaces or hooks a panic.  Looked for in the call cone of
    the lifecycle methods (a `catch_unwind` in an unrelated helper of the crate is nobody's business here); panic hooks are
    process-wide and looked for everywhere."""
    cone = run_cone(ctx, facts, config)
    report.floor(rule, "bodies in the run cone", len(cone), 30, config=config)
    n = 0
    for b in sorted(facts.bodies.values(), key=lambda b: b.key):
        for bb, c in I.marked_calls(b, I.SWALLOW_MARKS):
            hook = "hook" in (c.name or "")
            if b.key not in cone and not hook:
                continue
            n += 1
            report.ob(rule, "swallow/%s" % b.qname, False, "%s in %s: a panicking system would not reach the caller of dispatch unchanged" % (c.short(), b.qname), site=b.loc(bb), config=config)
    for b in sorted(cone.values(), key=lambda b: b.key):
        for bb, c in I.thread_handoffs(b):
            n += 1
            report.ob(rule, "swallow/%s" % b.qname, False, "%s in %s: what runs on a thread of its own ends its panic in the join handle, not in the caller of dispatch" % (c.short(), b.qname), site=b.loc(bb), config=config)
    report.ob(rule, "no-catch-unwind", n == 0, ("no catch_unwind / resume_unwind / std::thread hand-off where systems run (%d bodies in the run cone), no panic hook manipulation in the crate (%d bodies scanned)" % (len(cone), len(facts.bodies)))
              if n == 0 else "%d place(s) where a panicking system would not reach the caller of dispatch unchanged" % n, config=config)


DISPATCH_FIELDS = [(A.SD, "stages"), (A.STAGE, "groups"), (A.DISP, "thread_local"), (A.DISP, "inner"), (A.BCS, "dispatcher"), (A.AD_INNER, "stages")]


def dispatch_cone(ctx, facts, config):
    roots = [F.inh(facts, A.DISP, n) for n in ("dispatch", "dispatch_seq", "dispatch_thread_local")]
    roots += [F.inh(facts, A.SD, n) for n in ("dispatch", "dispatch_seq")]
    roots += [F.inh(facts, A.STAGE, "execute_seq"), F.timpl(facts, A.T_SYSTEM, A.BCS, "run"), F.timpl(facts, A.T_BATCHCTRL, A.MD, "run"),
              F.blanket(facts, A.T_RUNNOW, "run_now")]
    if ctx.parallel(config):
        roots += [F.inh(facts, A.DISP, "dispatch_par"), F.inh(facts, A.SD, "dispatch_par"), F.inh(facts, A.STAGE, "execute")]
    # do not descend into world / user-facing fetch code: stop at World methods
    return facts.cone(roots, stop=lambda b: b.self_head == A.WORLD or (b.trait in (A.T_SYSDATA, A.T_DYNSYSDATA, A.T_ACCESSOR)))


def intact(ctx, report, rule, facts, config):
    """No body of the synchronous dispatch cone moves out of, replaces or
    reshapes the stage / group / thread-local lists."""
    prog = ctx.program(facts)
    cone = dispatch_cone(ctx, facts, config)
    report.floor(rule, "bodies in the dispatch cone", len(cone), 12, config=config)
    fields = set(DISPATCH_FIELDS)
    for b in sorted(cone.values(), key=lambda b: b.key):
        report.touched(b, config)
        bt = prog.bt(b)
        bad = []
        for bb, t in b.normal_calls():
            c = Callee(t["func"])
            if c.local or not t["args"]:
                continue
            if c.name in S.SHAPE_MUTATORS or c.name in ("take", "replace", "swap", "drain", "split_off"):
                for a in bt.call_args(bb)[:2]:
                    f_, i_, base = S.table_access(b, a)
                    cf = S.crate_fields(f_)
                    if cf and cf[-1] in fields:
                        bad.append((bb, "%s on %s.%s" % (c.name, cf[-1][0].rsplit("::", 1)[1], cf[-1][1])))
        for bi, blk in enumerate(b.blocks):
            if blk["cleanup"]:
                continue
            for st in blk["stmts"]:
                if st["k"] == "assign" and st["rv"]["k"] == "use" and st["rv"]["op"]["k"] == "move":
                    pp = st["rv"]["op"]["place"]["p"]
                    if pp and pp[-1]["k"] == "field" and (pp[-1].get("adt"), pp[-1].get("name")) in fields:
                        bad.append((bi, "move out of %s.%s" % (pp[-1]["adt"].rsplit("::", 1)[1], pp[-1]["name"])))
        report.ob(rule, b.qname, not bad, "dispatcher structure only borrowed" if not bad else
                  "the dispatcher is changed during dispatch (%s): after an unwinding panic the next dispatch would not see every system" % bad[0][1],
                  site=b.loc(bad[0][0]) if bad else b.loc(), config=config)


def intact_flow(ctx, report, rule, facts, config):
    """The same, followed through helpers: evaluated from each entry point of the synchronous dispatch with in-crate helpers
    looked into, no operation that reshapes or takes a collection is applied to (a view of) the stage / group /
    thread-local lists - also when the list reaches the operation through a helper's parameter."""
    from . import semq as Q
    from .worldrules import _deep_all
    roots = [F.inh(facts, A.DISP, n) for n in ("dispatch", "dispatch_seq", "dispatch_thread_local")]
    roots += [F.inh(facts, A.SD, n) for n in ("dispatch", "dispatch_seq")]
    roots += [F.inh(facts, A.STAGE, "execute_seq"), F.timpl(facts, A.T_SYSTEM, A.BCS, "run")]
    if ctx.parallel(config):
        roots += [F.inh(facts, A.DISP, "dispatch_par"), F.inh(facts, A.SD, "dispatch_par"), F.inh(facts, A.STAGE, "execute")]
    fields = set(DISPATCH_FIELDS)
    world_api = sorted(x.key for x in facts.bodies.values() if not x.is_closure and x.self_head == A.WORLD)
    n = 0
    for b in roots:
        report.touched(b, config)
        ev, ends = Q.sem(ctx, facts, b, opaque=world_api)
        bad = []
        for e in ends:
            for x in _deep_all(e.path.events):
                if x[0] == "store" and x[2][0] != "cell":
                    # a list replaced as a whole (`mem::take`, `mem::replace`, a plain assignment)
                    f_, i_, base = Q.table_access(ev, x[2])
                    cf = Q.crate_fields(f_)
                    if cf and cf[-1] in fields and not i_[len(i_):] and Q.strip(ev, x[2])[0] == "field" and Q.strip(ev, x[2])[2] == cf[-1][1]:
                        bad.append("the list %s.%s is replaced" % (cf[-1][0].rsplit("::", 1)[1], cf[-1][1]))
                    continue
                if x[0] != "call" or x[2].local or not x[3]:
                    continue
                n += 1
                if x[2].name in S.SHAPE_MUTATORS or x[2].name in ("take", "replace", "swap", "drain", "split_off"):
                    for a in x[3][:2]:
                        f_, i_, base = Q.table_access(ev, a)
                        cf = Q.crate_fields(f_)
                        if cf and cf[-1] in fields and Q.strip(ev, a)[0] in ("field", "index"):
                            bad.append("%s on %s.%s" % (x[2].name, cf[-1][0].rsplit("::", 1)[1], cf[-1][1]))
        report.ob(rule, "flow/%s" % b.qname, not bad, "dispatcher structure only borrowed, helpers included" if not bad else
                  "the dispatcher is changed during dispatch (%s): after an unwinding panic the next dispatch would not see every system" % sorted(set(bad))[0], site=b.loc(), config=config)
    report.floor(rule, "calls looked at from the dispatch entry points", n, 10, config=config)


def lock(ctx, report, rule, facts, config):
    """Lock guards of the pool slot held across user code are read guards."""
    if not ctx.parallel(config):
        report.ob(rule, "no-lock-without-parallel", True, "no thread pool without the `parallel` feature", config=config)
        return
    reads = {}
    writes = {}
    for b in sorted(facts.bodies.values(), key=lambda b: b.key):
        for bb, t in b.normal_calls():
            c = Callee(t["func"])
            # the lock in question is the one around the pool slot (another lock of the crate's own is not this rule's business)
            about_pool = "ThreadPool" in I.recv_ty(t) or "ThreadPool" in (c.inst_path or "")
            if not about_pool:
                continue
            if "RwLock" in c.path and c.name in ("read", "try_read"):
                reads.setdefault(b.qname, []).append(b.loc(bb))
            elif ("RwLock" in c.path or "Mutex" in c.path) and c.name in ("write", "try_write", "lock", "try_lock"):
                writes.setdefault(b.qname, []).append(b.loc(bb))
    want_w = [A.DB + "::add_pool", A.DB + "::build", A.DB + "::build_async"]
    want_r = set([A.SD + "::dispatch_par", A.AD + "::dispatch"])
    # an exclusive lock is fine while the builder is being configured and never where systems run: no write-lock site
    # lies in the call cone of a run-family method, every one lies in the cone of a DispatcherBuilder method
    run_roots = [b for b in facts.bodies.values() if not b.is_closure and b.name in F.LIFECYCLE[F.RUN] | set(["wait", "wait_without_tl", "setup", "dispose"])
                 and (b.self_head in (A.SD, A.DISP, A.AD, A.STAGE, A.PARSEQ, A.BCS, A.MD) or b.trait in (A.T_RUNNOW, A.T_SYSTEM, A.T_RUNWITHPOOL))]
    run_cone = facts.cone(run_roots)
    cfg_roots = [b for b in facts.bodies.values() if not b.is_closure and b.self_head == A.DB and b.container == "inherent"]
    cfg_cone = facts.cone(cfg_roots)
    by_q = dict((b.qname, b) for b in facts.bodies.values())
    for q in sorted(writes):
        b = by_q[q]
        ok = b.key not in run_cone and b.key in cfg_cone
        report.ob(rule, "write/%s" % q, ok, "exclusive lock taken only while configuring the builder" if ok else
                  "an exclusive lock is taken in %s%s: a panic while it is held poisons the pool slot for every later dispatch" % (
                      q, " (reachable while systems run)" if b.key in run_cone else ""), site=writes[q][0], config=config)
    for q in want_w:
        root = facts.maybe(q)
        if root is None:
            report.ob(rule, "write/%s" % q, False, "expected write lock site missing (anchor %s not found)" % q, config=config)
            continue
        reach = [x.qname for x in facts.cone([root]).values() if x.qname in writes]
        report.ob(rule, "write-reached/%s" % q, bool(reach), "%s fills the pool slot under the exclusive lock (in %s)" % (q.rsplit("::", 1)[1], reach) if reach else
                  "expected write lock site missing: %s no longer takes the exclusive lock on the pool slot" % q, site=root.loc(), config=config)
    # the shared lock is what the dispatching entry points hold while systems run: each of them reaches a read-lock site,
    # and every read-lock site lies in the call cone of one of them (or of the builder's configuration)
    r_roots = []
    for q in sorted(want_r):
        root = facts.maybe(q)
        if root is None:
            report.ob(rule, "read/%s" % q, False, "expected read lock site missing (anchor %s not found)" % q, config=config)
            continue
        r_roots.append(root)
        reach = [x.qname for x in facts.cone([root], stop=lambda b: b.self_head == A.STAGE).values() if x.qname in reads]
        report.ob(rule, "read/%s" % q, bool(reach), "shared (non-poisoning) lock around the dispatch (in %s)" % reach if reach else
                  "%s no longer takes the shared lock on the pool slot" % q, site=root.loc(), config=config)
    # a shared lock taken elsewhere (a Debug impl peeking at the slot) neither poisons nor excludes a dispatch: not reported


# ------------------------------------------------------------------ C11

def pool_source(ctx, report, rule, facts, config):
    from . import semq as Q
    for q, name, adt in ((A.SD + "::dispatch_par", "install", A.SD), (A.AD + "::dispatch", "spawn", A.AD)):
        b = facts.one(q)
        report.touched(b, config)
        keep = [x.key for x in facts.bodies.values() if not x.is_closure and x.self_head == A.STAGE]
        ev, ends = Q.sem(ctx, facts, b, opaque=keep)
        pr = []
        rets = Q.returns(ends)
        if not rets:
            pr.append("no way through returns")
        for e in rets:
            cs = [x for x in S._crossings(ev, e.path.events, []) if x[0] == name]
            if len(cs) != 1 or cs[0][3]:
                pr.append("%d %s call(s) on a way through" % (len(cs), name))
                continue
            leaves = Q.origins(ev, cs[0][2])
            if leaves != set([("field", adt, "thread_pool")]):
                pr.append("the pool used by %s comes from %s" % (name, sorted(leaves, key=repr)))
        report.ob(rule, "pool-of/%s" % q.rsplit("::", 1)[1] + "@" + adt.rsplit("::", 1)[1], not pr,
                  "%s runs on the pool stored in self.thread_pool" % name if not pr else "; ".join(sorted(set(pr))), site=b.loc(), config=config)
    # add_pool stores its argument
    from . import semq as Q
    pool_field = ("field", ("param", 1), "thread_pool", A.DB)

    def slot_of(ev, t):
        """`t` is (a view of) the Option behind a write guard of self.thread_pool."""
        s = Q.strip(ev, t)
        if s[0] == "field" and s[1][0] == "variant" and s[1][2] == "Ok":
            w = s[1][1]
            return Q.callee_of(ev, w) is not None and Q.callee_of(ev, w).name in ("write", "try_write") and Q.strip(ev, w[2][0]) == pool_field
        return False

    b = facts.one(A.DB + "::add_pool")
    report.touched(b, config)
    ev, ends = Q.sem(ctx, facts, b)
    rets = [e for e in ends if e.kind == "return"]
    ok = bool(rets)
    for e in rets:
        st = [x for x in e.path.events if x[0] == "store" and x[2][0] != "cell" and slot_of(ev, x[2])]
        if not (len(st) == 1 and st[0][3][0] == "agg" and st[0][3][2] == "std::option::Option::Some" and st[0][3][3] == (("param", 2),)):
            ok = False
    report.ob(rule, "add_pool", ok, "stores Some(pool) into self.thread_pool" if ok else "add_pool does not store the supplied pool", site=b.loc(), config=config)
    ctp = facts.one(A.DB + "::create_thread_pool")
    for name in ("build", "build_async"):
        b = facts.one(A.DB + "::" + name)
        report.touched(b, config)
        nd = [x.key for x in facts.bodies.values() if x.name in ("new_dispatcher", "new_async") and not x.is_closure]
        ev, ends = Q.sem(ctx, facts, b, opaque=[ctp.key, A.SB + "::build"] + nd)
        pr = []
        rets = [e for e in ends if e.kind == "return"]
        if not rets:
            pr.append("no normal path")
        n_fill = n_keep = 0
        for e in rets:
            slots = [ct[1] for (ct, cv, cn, cs) in e.path.conds if ct[0] == "discr" and slot_of(ev, ct[1])]
            state = e.path.variant(slots[0]) if slots else None
            st = [x for x in e.path.events if x[0] == "store" and x[2][0] != "cell" and slot_of(ev, x[2])]
            if state == "Some":
                n_keep += 1
                if st:
                    pr.append("a pool that was supplied is overwritten")
            elif state == "None":
                n_fill += 1
                if not (len(st) == 1 and st[0][3][0] == "agg" and st[0][3][2] == "std::option::Option::Some" and Q.callee_of(ev, st[0][3][3][0]) is not None
                        and Q.callee_of(ev, st[0][3][3][0]).key == ctp.key):
                    pr.append("an empty pool slot is not filled with create_thread_pool()")
            else:
                if st:
                    pr.append("the pool slot is written without looking whether a pool was supplied")
                else:
                    pr.append("the pool slot is not examined")
        if rets and not (n_fill and n_keep):
            pr.append("expected a path that keeps a supplied pool and one that creates the default (%d/%d)" % (n_keep, n_fill))
        report.ob(rule, "default-pool/%s" % name, not pr, "an empty slot receives create_thread_pool(); a supplied pool is never overwritten" if not pr else
                  "%s does not fill only an empty pool slot with the default pool: %s" % (name, "; ".join(sorted(set(pr)))), site=b.loc(), config=config)
    report.touched(ctp, config)
    names = [Callee(t["func"]).name for bb, t in ctp.normal_calls()]
    ok = names == ["new", "build", "expect", "new"] or names == ["new", "build", "expect", "new"][:len(names)] and "build" in names
    evc, endsc = Q.sem(ctx, facts, ctp)
    okc = True
    for e in endsc:
        if e.kind != "return":
            continue
        r = e.ret
        bld = Q.strip(evc, r[2][0]) if Q.is_call(evc, r, "new") and "Arc" in Q.callee_of(evc, r).path else None
        okc = okc and bld is not None and bld[0] == "field" and bld[1][0] == "variant" and bld[1][2] == "Ok" and Q.is_call(evc, bld[1][1], "build") and \
            Q.callee_of(evc, bld[1][1]).crate in ("rayon", "rayon_core") and Q.is_call(evc, bld[1][1][2][0], "new") and not bld[1][1][2][0][2]
    okc = okc and any(e.kind == "return" for e in endsc)
    report.ob(rule, "create_thread_pool", okc, "Arc::new(ThreadPoolBuilder::new().build().expect(..))" if okc else "the default pool is not a plain ThreadPoolBuilder::new().build() (calls %s)" % names, site=ctp.loc(), config=config)
    # no thread cap anywhere
    caps = []
    for bd in sorted(facts.bodies.values(), key=lambda b: b.key):
        for bb, t in bd.normal_calls():
            c = Callee(t["func"])
            if c.name in ("num_threads", "use_current_thread", "build_scoped", "build_global") and c.crate in ("rayon", "rayon_core"):
                caps.append((bd, bb, c))
    report.ob(rule, "no-thread-cap", not caps, "no ThreadPoolBuilder::num_threads / use_current_thread in the crate" if not caps else
              "%s caps the pool in %s" % (caps[0][2].name, caps[0][0].qname), site=caps[0][0].loc(caps[0][1]) if caps else None, config=config)


def pool_share(ctx, report, rule, facts, config):
    """add_batch gives the inner builder a clone of the outer pool slot before it is built."""
    from . import semq as Q
    b = facts.one(A.DB + "::add_batch")
    report.touched(b, config)
    build = facts.one(A.DB + "::build")
    keep = [x.key for x in facts.bodies.values() if not x.is_closure and ((x.self_head == A.SB and x.name in ("fetch_all_reads", "fetch_all_writes")) or
                                                                        (x.self_head == A.DB and x.name in ("build", "add")) or (x.self_head == A.BCS and x.name == "create"))]
    ev, ends = Q.sem(ctx, facts, b, opaque=keep)
    rets = [e for e in ends if e.kind == "return"]
    ok = bool(rets)
    detail = ""
    for e in rets:
        pos = dict((id(x), i) for i, x in enumerate(e.path.events))
        st = [x for x in e.path.events if x[0] == "store" and x[2] == ("field", ("param", 3), "thread_pool", A.DB)]
        builds = [x for x in e.path.events if x[0] == "call" and x[2].key == build.key]
        good = False
        if len(st) == 1 and len(builds) == 1:
            v = st[0][3]
            good = (Q.is_call(ev, v, "clone") and Q.strip(ev, v[2][0]) == ("field", ("param", 1), "thread_pool", A.DB)
                    and pos[id(st[0])] < pos[id(builds[0])] and builds[0][3][0] == ("param", 3))
        if not good:
            ok = False
            detail = "the inner builder is built without first receiving self.thread_pool.clone()"
    report.ob(rule, "add_batch/share-pool", ok, "dispatcher_builder.thread_pool = self.thread_pool.clone() before dispatcher_builder.build()" if ok else detail, site=b.loc(), config=config)


def par_shape(ctx, report, rule, facts, config):
    prog = ctx.program(facts)
    b = F.inh(facts, A.STAGE, "execute")
    report.touched(b, config)
    cov = coverage(prog, b, Src(SELF, ["groups"]), {"run_now"})
    ok = cov.status == "once" and cov.shape == ("par_for_each", ("for", ("call", "run_now")))
    report.ob(rule, "Stage::execute/par", ok, "groups are handed to rayon's for_each as whole items, members run inside" if ok else
              "Stage::execute does not hand the groups to rayon's parallel for_each: %s (%s)" % (cov.shape, cov.detail), site=b.loc(), config=config)
    # routes
    b = F.inh(facts, A.SD, "dispatch")
    cov = coverage(prog, b, Src(SELF, []), {"dispatch_par"})
    report.ob(rule, "route/SendDispatcher::dispatch", cov.status == "once", "dispatch -> dispatch_par: " + cov.detail, site=b.loc(), config=config)
    cov2 = coverage(prog, b, Src(SELF, []), {"dispatch_seq"})
    report.ob(rule, "route/SendDispatcher::dispatch/no-seq", cov2.status == "never", "dispatch never falls back to dispatch_seq with the `parallel` feature", site=b.loc(), config=config)
    b = F.inh(facts, A.SD, "dispatch_par")
    cov = coverage(prog, b, Src(SELF, ["stages"]), {"execute"})
    report.ob(rule, "route/dispatch_par->execute", cov.status == "once", cov.detail, site=b.loc(), config=config)
    b = F.inh(facts, A.AD, "dispatch")
    cov = coverage(prog, b, Src(F._is_call_named("sender"), F.sender_parts(facts)[1] + ["stages"]), {"execute"})
    report.ob(rule, "route/async-job->execute", cov.status == "once", cov.detail, site=b.loc(), config=config)
    b = F.inh(facts, A.DISP, "dispatch")
    cov = coverage(prog, b, Src(SELF, ["inner"]), {"dispatch"})
    report.ob(rule, "route/Dispatcher::dispatch", cov.status == "once", cov.detail, site=b.loc(), config=config)


def _pool_sites(events, key, depth, out):
    """Calls of `key` met on one way, each with whether it happens inside what was handed to the pool's install / spawn."""
    for x in events:
        if x[0] == "once" and x[2] in ("install", "spawn"):
            depth += 1
        elif x[0] == "once-end" and depth:
            depth -= 1
        elif x[0] == "loop":
            for it in x[1].iters:
                _pool_sites(it.path.events, key, depth, out)
        elif x[0] == "call" and (x[2].key == key or getattr(x[2], "resolved_key", None) == key):
            out.append((x[1], depth > 0))
    return out


def execute_in_pool(ctx, report, rule, facts, config):
    """The parallel fan-out of a stage uses the pool of the thread it is called on (rayon's rule).  It uses the dispatcher's pool
    only if every call of Stage::execute happens inside the closure handed to that pool's install / spawn: decided in every
    function that calls it, for private helpers in their callers."""
    from . import semq as Q
    ex = F.inh(facts, A.STAGE, "execute")
    callers = facts.callers()

    def root(b):
        return facts.bodies.get(b.root_key, b) if b.is_closure and b.root_key else b

    def decide(fn, key, seen):
        ev, ends = Q.sem(ctx, facts, fn, opaque=[key])
        sites = []
        for e in ends:
            _pool_sites(e.path.events, key, 0, sites)
        if not sites:
            return True, None      # the call is not on any way through (dead code)
        if all(inside for _, inside in sites):
            return True, None
        if not fn.api and fn.key not in seen and callers.get(fn.key):
            for cb, bb in callers[fn.key]:
                ok, why = decide(root(cb), fn.key, seen | set([fn.key]))
                if not ok:
                    return False, why
            return True, None
        return False, fn

    roots = {}
    for cb, bb in callers.get(ex.key, []):
        roots.setdefault(root(cb).key, root(cb))
    for r in sorted(roots.values(), key=lambda b: b.key):
        report.touched(r, config)
        ok, why = decide(r, ex.key, frozenset())
        report.ob(rule, "execute-in-pool/%s" % r.qname, ok, "Stage::execute is called only inside what is handed to the pool's install / spawn" if ok else
                  "Stage::execute is reached from %s outside the pool's install / spawn: the groups of a stage would be run on whatever pool the calling thread "
                  "belongs to, not on the dispatcher's" % why.qname, site=r.loc(), config=config)
    report.floor(rule, "functions calling Stage::execute", len(roots), 1, config=config)


# ------------------------------------------------------------------ C15

def async_gate(ctx, report, rule, facts, config):
    prog = ctx.program(facts)
    data_bodies = set(b.key for b in facts.find(self_head=A.AD_DATA, container="inherent"))
    report.floor(rule, "methods of Data", len(data_bodies), 3, config=config)
    # (a) the state enum is inspected / rebuilt only inside impl Data
    n = 0
    for b in sorted(facts.bodies.values(), key=lambda b: b.key):
        hit = None
        for bi, blk in enumerate(b.blocks):
            if blk["cleanup"]:
                continue
            for st in blk["stmts"]:
                if st["k"] != "assign":
                    continue
                rv = st["rv"]
                if rv["k"] == "discr" and rv["place"]["ty"].lstrip("&mut ").startswith(A.AD_DATA + "<"):
                    hit = (bi, "matches on the state")
                for pl in [st["place"]] + ([rv["place"]] if "place" in rv else []):
                    for e in pl["p"]:
                        if e["k"] == "field" and e.get("adt") == A.AD_DATA:
                            hit = (bi, "reaches into the state")
        if hit:
            n += 1
            # a method of Data, or a private helper only they reach
            ok = S.owned_by(facts, b, data_bodies)
            report.ob(rule, "state-inspected/%s" % b.qname, ok, "%s %s" % (b.qname, hit[1]), site=b.loc(hit[0]), config=config)
    report.floor(rule, "bodies inspecting the state", n, 3, config=config)
    # (b) every accessor takes the state back (blocking) on every path before using it
    from . import semq as Q
    from .semcov import LIFECYCLE_NAMES
    from .sem import Evaluator, Policy
    inner = facts.one(A.AD_DATA + "::inner")
    data_field = ("field", ("param", 1), "data", A.AD)
    for name in ("setup", "wait", "wait_without_tl", "world", "world_mut", "mut_res", "res"):
        b = facts.one(A.AD + "::" + name)
        report.touched(b, config)
        ev = Evaluator(facts, Policy(opaque_names=LIFECYCLE_NAMES - set(["wait"])))
        ends = [e for e in ev.eval(b) if e.kind == "return"]
        pr = []
        if not ends:
            pr.append("no normal path")
        for e in ends:
            takes = [x for x in e.path.events if x[0] == "call" and x[2].key == inner.key and Q.strip(ev, x[3][0]) == data_field]
            if not takes:
                pr.append("a path returns without the blocking self.data.inner()")
                continue
            first = e.path.events.index(takes[0])
            sysnames = LIFECYCLE_NAMES - set(["sender", "inner", "inner_noblock", "wait", "reads", "writes"])
            early = Q.calls_in(e.path.events[:first], lambda c: c.name in sysnames, deep=True)
            if early:
                pr.append("systems are touched before the state is taken back")
            if name in ("world", "world_mut", "mut_res", "res"):
                r = Q.strip(ev, e.ret)
                if not (r[0] == "field" and r[2] == "world" and r[1] in [x[4] for x in takes]):
                    pr.append("what is returned is not the world of the state taken back")
        report.ob(rule, "blocks-first/%s" % name, not pr, "every path calls the blocking self.data.inner() before anything else%s" % (
            " and returns &inner().world" if name in ("world", "world_mut", "mut_res", "res") else "") if not pr else
            "AsyncDispatcher::%s can proceed without taking the state back from the background job: %s" % (name, "; ".join(sorted(set(pr)))), site=b.loc(), config=config)
    # (c) dispatch goes through sender, which takes the state back before replacing it
    d = facts.one(A.AD + "::dispatch")
    snd = facts.one(A.AD_DATA + "::sender")
    keep = [x.key for x in facts.bodies.values() if not x.is_closure and x.self_head == A.STAGE]
    ev, ends = Q.sem(ctx, facts, d, opaque=[snd.key] + keep)
    counts = []
    for e in Q.returns(ends):
        cs = Q.calls_in(e.path.events, lambda c: c.key == snd.key, deep=True)
        counts.append(len(cs) if not [L for L in Q.all_loops([e]) if Q.loop_contains_call(L, lambda c: c.key == snd.key)] and all(Q.strip(ev, x[3][0]) == data_field for x in cs) else -1)
    report.ob(rule, "dispatch/sender-once", bool(counts) and all(c == 1 for c in counts), "self.data.sender() calls per way through: %s" % counts, site=d.loc(), config=config)
    ev, ends = Q.sem(ctx, facts, snd, opaque=[inner.key])
    pr = []
    n_ret = 0
    for e in ends:
        if e.kind != "return":
            continue
        n_ret += 1
        took = False
        installed = []
        for x in e.path.events:
            if x[0] == "call" and x[2].key == inner.key and x[3] and Q.strip(ev, x[3][0]) == ("param", 1):
                took = True
            new_state = None
            if x[0] == "call" and not x[2].local and x[2].name in ("replace", "swap", "take") and "mem::" in (x[2].path or "") and x[3] and Q.strip(ev, x[3][0]) == ("param", 1):
                new_state = x[3][1] if len(x[3]) > 1 else ("default",)
            elif x[0] == "store" and x[2][0] != "cell" and Q.strip(ev, x[2]) == ("param", 1):
                new_state = x[3]
            elif x[0] == "loop":
                if Q.loop_contains_call(x[1], lambda c: c.name in ("replace", "swap", "take") and "mem::" in (c.path or "")):
                    pr.append("the state is replaced inside a loop")
            if new_state is not None:
                if not took:
                    pr.append("sender() can replace the state while a previous dispatch is still in flight")
                installed.append(new_state)
        if len(installed) != 1:
            pr.append("the state is replaced %d time(s) on a way through sender()" % len(installed))
        elif not (installed[0][0] == "agg" and installed[0][2] == A.AD_DATA + "::Rx"):
            pr.append("the installed state is not Rx(receiver of the new channel)")
    report.ob(rule, "sender/inner-before-replace", not pr and n_ret >= 1, "a second dispatch first waits for the previous one (inner() before the state becomes Rx(receiver of the new channel))" if not pr else
              "; ".join(sorted(set(pr))), site=snd.loc(), config=config)
    # Data::Rx constructed only in sender (or a private helper only sender reaches)
    n = 0
    for b in sorted(facts.bodies.values(), key=lambda b: b.key):
        for bi, blk in enumerate(b.blocks):
            for st in blk["stmts"]:
                if st["k"] == "assign" and st["rv"]["k"] == "agg" and st["rv"].get("adt") == A.AD_DATA and st["rv"]["variant"] == "Rx":
                    n += 1
                    report.ob(rule, "Rx-built/%s" % b.qname, S.owned_by(facts, b, set([snd.key])), "Data::Rx is constructed in %s" % b.qname, site=b.loc(bi), config=config)
    report.floor(rule, "constructions of Data::Rx", n, 1, config=config)


def async_block(ctx, report, rule, facts, config):
    prog = ctx.program(facts)
    inner = facts.one(A.AD_DATA + "::inner")
    report.touched(inner, config)
    # who reads the channel, and how: the blocking accessor (with its private helpers) only blocks, the polling one only
    # polls, nobody else touches the receiver
    nb_body = facts.one(A.AD_DATA + "::inner_noblock")
    recvs = {}
    for b in sorted(facts.bodies.values(), key=lambda b: b.key):
        for bb, t in b.normal_calls():
            c = Callee(t["func"])
            if ("mpsc::Receiver" in c.path or "mpmc::" in c.path) and (c.name.startswith("recv") or c.name.startswith("try_recv") or c.name in ("iter", "try_iter")):
                r = b
                while r.is_closure and r.parent_key in facts.bodies:
                    r = facts.bodies[r.parent_key]
                recvs.setdefault(r.key, []).append((c.name, b.loc(bb), r))
    cone_block = facts.cone([inner], stop=lambda x: x.key == nb_body.key)
    cone_poll = facts.cone([nb_body], stop=lambda x: x.key == inner.key)
    got_block = sorted(set(n for k, v in recvs.items() if k in cone_block for n, _, _ in v))
    got_poll = sorted(set(n for k, v in recvs.items() if k in cone_poll and k not in cone_block for n, _, _ in v))
    report.ob(rule, "recv/%s" % (A.AD_DATA + "::inner"), got_block == ["recv"], "%s receives with %s" % (A.AD_DATA + "::inner", got_block) if got_block == ["recv"] else
              "%s receives with %s (expected ['recv']): completion would not be awaited" % (A.AD_DATA + "::inner", got_block), site=inner.loc(), config=config)
    report.ob(rule, "recv/%s" % (A.AD_DATA + "::inner_noblock"), got_poll == ["try_recv"], "%s receives with %s" % (A.AD_DATA + "::inner_noblock", got_poll) if got_poll == ["try_recv"] else
              "%s receives with %s (expected ['try_recv'])" % (A.AD_DATA + "::inner_noblock", got_poll), site=nb_body.loc(), config=config)
    for k, v in sorted(recvs.items()):
        if k not in cone_block and k not in cone_poll:
            report.ob(rule, "recv/%s" % v[0][2].qname, False, "%s reads the state channel with %s outside Data::inner / inner_noblock" % (v[0][2].qname, [n for n, _, _ in v]), site=v[0][1], config=config)
    # inner() / inner_noblock(): what happens in each state
    from . import semq as Q
    SELFP = ("param", 1)
    state = ("field", ("variant", SELFP, "Inner"), "0", A.AD_DATA)
    chan = ("field", ("variant", SELFP, "Rx"), "0", A.AD_DATA)

    def tabulate(qname, recv_name):
        b = facts.one(qname)
        ev, ends = Q.sem(ctx, facts, qname)
        from .worldrules import _deep
        rows = []
        items = [(e.path, _deep(e.path.events), e.kind, e.ret) for e in ends]
        # written as a loop instead of a recursive call: going round again after installing the state is the recursion
        for L in Q.all_loops(ends):
            for it in L.iters:
                if it.end == "continue":
                    items.append((it.path, _deep(it.path.events), "again", None))
        for (path, events, kind, ret) in items:
            st = path.variant(SELFP)
            rc = [x for x in events if x[0] == "call" and x[2].name == recv_name and ("mpsc" in x[2].path or "mpmc" in x[2].path) and Q.strip(ev, x[3][0]) == chan]
            other = [x for x in events if x[0] == "call" and x[2].name in ("recv", "try_recv", "recv_timeout", "try_iter", "iter") and ("mpsc" in x[2].path or "mpmc" in x[2].path) and x not in rc]
            got = path.variant(rc[0][4]) if rc else None
            err = None
            if rc and got == "Err":
                err = path.variant(("field", ("variant", rc[0][4], "Err"), "0", "std::result::Result"))
            stores = [x for x in events if x[0] == "store" and x[2] == SELFP]
            installed = None
            if stores:
                v = stores[-1][3]
                if rc and v[0] == "agg" and v[2] == A.AD_DATA + "::Inner" and Q.strip(ev, v[3][0]) == ("field", ("variant", rc[0][4], "Ok"), "0", "std::result::Result"):
                    installed = "received"
                else:
                    installed = "other"
            rec = [x for x in events if x[0] == "call" and x[2].key == b.key and Q.strip(ev, x[3][0]) == SELFP]
            if kind == "again":
                rec = rec or [None]
            rows.append(dict(end="return" if kind == "again" else kind, state=st, recv=len(rc), other=len(other), got=got, err=err, installed=installed,
                             ret=(rec[-1][4] if (kind == "again" and rec[-1] is not None) else ret), rec=rec, again=(kind == "again"), ev=ev))
        return b, ev, rows

    inner, ev, rows = tabulate(A.AD_DATA + "::inner", "recv")
    pr_rx, pr_in = [], []
    seen = set()
    for r in rows:
        if r["other"]:
            pr_rx.append("the channel is read in another way than the blocking recv()")
        if r["state"] == "Inner":
            seen.add("Inner")
            if not (r["end"] == "return" and Q.strip(ev, r["ret"]) == state and not r["recv"] and r["installed"] is None):
                pr_in.append("with the state at home, inner() does not simply return it")
        elif r["state"] == "Rx":
            if r["recv"] != 1:
                pr_rx.append("with the job in flight, recv() is called %d time(s)" % r["recv"])
            elif r["got"] == "Ok":
                seen.add("Rx-Ok")
                back = r.get("again") or (r["rec"] and r["ret"] == r["rec"][-1][4]) or _is_received_state(ev, r)
                if not (r["end"] == "return" and r["installed"] == "received" and back):
                    pr_rx.append("the received state is not installed into *self and handed out")
            elif r["got"] == "Err":
                seen.add("Rx-Err")
                if r["end"] != "diverge" or r["installed"] is not None:
                    pr_rx.append("a dropped sender does not end in a panic")
            else:
                pr_rx.append("the outcome of recv() is not examined")
        else:
            pr_rx.append("a path does not depend on the state")
    if not set(["Rx-Ok", "Rx-Err"]) <= seen:
        pr_rx.append("missing outcome(s) of recv(): %s" % sorted(set(["Rx-Ok", "Rx-Err"]) - seen))
    if "Inner" not in seen:
        pr_in.append("no path for the state at home")
    report.ob(rule, "inner/Rx-arm", not pr_rx, "Rx: *self = Inner(rx.recv().expect(..)), then the state" if not pr_rx else
              "the Rx arm of Data::inner does not install the received state: %s" % "; ".join(sorted(set(pr_rx))), site=inner.loc(), config=config)
    report.ob(rule, "inner/Inner-arm", not pr_in, "Inner: returns the state" if not pr_in else "the Inner arm of Data::inner does not return the state", site=inner.loc(), config=config)
    # running() == inner_noblock().is_none()
    r_ = facts.one(A.AD + "::running")
    nb = facts.one(A.AD_DATA + "::inner_noblock")
    ev2, ends2 = Q.sem(ctx, facts, A.AD + "::running", opaque=[nb.key])
    pr = []
    for e in ends2:
        if e.kind != "return":
            pr.append("running() can panic")
            continue
        cs = [x for x in e.path.events if x[0] == "call" and x[2].key == nb.key and Q.strip(ev2, x[3][0]) == ("field", ("param", 1), "data", A.AD)]
        v = e.path.variant(cs[0][4]) if len(cs) == 1 else None
        if not ((v == "None" and e.ret == ("int", 1)) or (v == "Some" and e.ret == ("int", 0))):
            pr.append("the answer is not `inner_noblock() found nothing`")
    report.ob(rule, "running", not pr and len(ends2) >= 2, "running() = self.data.inner_noblock().is_none()" if not pr else "running() is not inner_noblock().is_none(): %s" % "; ".join(sorted(set(pr))), site=r_.loc(), config=config)
    # inner_noblock: Empty -> None, value -> installed
    nbb, ev3, rows = tabulate(A.AD_DATA + "::inner_noblock", "try_recv")
    pe, pt = [], []
    seen = set()
    for r in rows:
        if r["other"]:
            pt.append("the channel is read in another way than try_recv()")
        some = r["end"] == "return" and r["ret"] is not None and r["ret"][0] == "agg" and r["ret"][2] == "std::option::Option::Some"
        none = r["end"] == "return" and r["ret"] is not None and r["ret"][0] == "agg" and r["ret"][2] == "std::option::Option::None"
        if r["state"] == "Inner":
            seen.add("home")
            if not (some and Q.strip(ev3, r["ret"][3][0]) == state and not r["recv"]):
                pt.append("with the state at home the answer is not Some(state)")
        elif r["state"] == "Rx":
            if r["recv"] != 1:
                pt.append("with the job in flight, try_recv() is called %d time(s)" % r["recv"])
            elif r["got"] == "Ok":
                seen.add("received")
                back = r.get("again") or (r["rec"] and r["ret"] == r["rec"][-1][4]) or (some and _is_received_state(ev3, dict(r, ret=r["ret"][3][0])))
                if not (r["installed"] == "received" and back):
                    pt.append("a received state is not installed and handed out")
            elif r["got"] == "Err" and r["err"] == "Empty":
                seen.add("empty")
                if not (none and r["installed"] is None):
                    pe.append("an empty channel (still running) does not give None")
            elif r["got"] == "Err" and r["err"] == "Disconnected":
                seen.add("dropped")
                if r["end"] != "diverge":
                    pe.append("a dropped sender does not end in a panic")
            else:
                pe.append("the error of try_recv() is not told apart (%s / %s)" % (r["got"], r["err"]))
    for k in ("empty", "dropped"):
        if k not in seen:
            pe.append("no path for %s" % k)
    report.ob(rule, "inner_noblock/empty->None", not pe, "Empty -> None (still running), Disconnected -> panic" if not pe else "the try_recv error mapping changed: %s" % "; ".join(sorted(set(pe))), site=nbb.loc(), config=config)
    ok = not pt and set(["home", "received"]) <= seen
    report.ob(rule, "inner_noblock/table", ok,
              "Inner -> Some(state); Rx+nothing received -> None; Rx+received -> state installed, then Some" if ok else
              "inner_noblock outcomes: %s (seen %s)" % ("; ".join(sorted(set(pt))), sorted(seen)), site=nbb.loc(), config=config)


def _is_received_state(ev, r):
    """The returned reference is the payload of the value that was just received (the state now installed in *self)."""
    from . import semq as Q
    ret = Q.strip(ev, r["ret"])
    return bool(ret[0] == "field" and ret[1][0] == "variant" and ret[1][2] == "Ok" and Q.callee_of(ev, ret[1][1]) is not None
                and Q.callee_of(ev, ret[1][1]).name in ("recv", "try_recv"))


def enumerate_paths_safe(body, facts):
    """Path enumeration for bodies whose only cycle is a self-recursive tail call (none in MIR: recursion is a call)."""
    return enumerate_paths(body, facts)


def async_job(ctx, report, rule, facts, config):
    """The background job: owns what sender() handed out, runs every stage, then sends the state back exactly once."""
    from . import semq as Q
    from .semcov import LIFECYCLE_NAMES, sroot
    from .sem import Evaluator, Policy
    d = facts.one(A.AD + "::dispatch")
    report.touched(d, config)
    snd = facts.one(A.AD_DATA + "::sender")
    ev = Evaluator(facts, Policy(opaque_names=LIFECYCLE_NAMES))
    rets = [e for e in ev.eval(d) if e.kind == "return"]
    pr = []
    cap = []
    if not rets:
        pr.append("no normal path")
    for e in rets:
        events = e.path.events
        sc = [x for x in events if x[0] == "call" and x[2].key == snd.key]
        if len(sc) != 1:
            cap.append("self.data.sender() is called %d time(s)" % len(sc))
            continue
        pair = sc[0][4]
        tx_p, st_p = F.sender_parts(facts)
        spawns = [i_ for i_, x in enumerate(events) if x[0] == "once" and x[2] == "spawn"]
        if len(spawns) != 1:
            pr.append("the job is spawned %d time(s)" % len(spawns))
            continue
        job = events[spawns[0] + 1:]
        sends = [(i_, x) for i_, x in enumerate(job) if x[0] == "call" and x[2].name == "send" and "mpsc" in x[2].path]
        loops = [(i_, x) for i_, x in enumerate(job) if x[0] == "loop" and x[1].source is not None and sroot(ev, x[1].source) == (pair, st_p + ["stages"])]
        if len(sends) != 1 or len(loops) != 1:
            pr.append("%d send / %d stage loop(s)" % (len(sends), len(loops)))
            continue
        L = loops[0][1][1]
        if not Q.is_full(L) or L.kind == "while" or L.stages:
            pr.append("the stage loop can stop early")
        if not loops[0][0] < sends[0][0]:
            pr.append("the state is sent back before every stage has run")
        if Q.calls_in([x for _, x in loops], lambda c: c.name == "send" and "mpsc" in c.path, deep=True):
            pr.append("the state is sent from inside the stage loop")
        a = sends[0][1][3]
        if not (sroot(ev, a[0]) == (pair, tx_p) and sroot(ev, a[1]) == (pair, st_p)):
            cap.append("what is sent back is not the state handed out by sender(), through its sender")
    report.ob(rule, "job/send-after-stages", not pr, "the state is sent back exactly once, after the full stage loop" if not pr else
              "the state is sent back before every stage has run, or not exactly once: %s" % "; ".join(sorted(set(pr))), site=d.loc(), config=config)
    report.ob(rule, "job/captures", not cap and bool(rets), "job owns (snd, inner) = self.data.sender()" if not cap else "the job does not own the state handed out by sender(): %s" % "; ".join(sorted(set(cap))), site=d.loc(), config=config)
